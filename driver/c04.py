"""C04 - no credential is created or used without user consent; flags are truthful."""
import itertools, json
import common, ceremony
from ceremony import *

PROP = "C04"
COQ_TARGETS = ceremony.COQ_TARGETS
HARNESS_BINS = ceremony.HARNESS_BINS
replay = ceremony.replay


def product(run):
    """the finite product of the property's quantifier, enumerated completely"""
    rng = run.rng
    scenarios, meta = [], []
    user_answers = [{"presence": p, "verification": v} for p in (False, True) for v in (False, True)] + [{"err": 0x27}, {"err": 0x2F}]
    stores = ("memory", "ref") if run.tier == "quick" else ("memory", "ref", "option", "arc_mutex_memory", "arc_rwlock_memory", "mutex_memory", "rwlock_memory")
    for kind in ("make_credential", "get_assertion"):
        for rk, up, uv in itertools.product((False, True), repeat=3):
            for verif in (None, False, True):
                for presence_cap in (False, True):
                    for ans in user_answers:
                        for pin in (False, True):
                            for present in (False, True):
                                for store in stores:
                                    cid = bytes([7] * 16)
                                    content = [mk_passkey(rng, "example.com", cred_id=cid, counter=3, keyidx=0)] if present else []
                                    if kind == "make_credential":
                                        op = {"op": kind, "req": mc_req(rng, rk=rk, up=up, uv=uv, pin_auth=pin, exclude=[cid], cdh=b"\x11" * 32, user_id=b"\x05" * 8)}
                                    else:
                                        op = {"op": kind, "req": ga_req(rng, rk=rk, up=up, uv=uv, pin_auth=pin, allow=[cid], cdh=b"\x11" * 32)}
                                    scenarios.append(scenario(store_kind=store, content=content, config={"counter": True},
                                                              user={"verif_enabled": verif, "presence_enabled": presence_cap, "script": [ans]},
                                                              ops=[op]))
                                    meta.append((kind, rk, up, uv, verif, presence_cap, json.dumps(ans), pin, present, store))
    return scenarios, meta


def several_matching(run):
    """beyond the product of the quantifier: several credentials match the lookup (2-3 for the RP, allow list naming them
    in either order, or no allow list on the store that supports it), distinct keys - "the credential shown to the user
    for consent is the one that signs" is only observable then"""
    rng = run.rng
    scenarios, meta = [], []
    answers = [{"presence": True, "verification": True}, {"presence": True, "verification": False}, {"presence": False, "verification": False}]
    for store in ("ref", "memory", "arc_mutex_memory"):
        for n in (2, 3):
            ids = [bytes([0x30 + j]) * 16 for j in range(n)]
            content = [mk_passkey(rng, "example.com", cred_id=ids[j], counter=rng.choice([None, 3, 9]), keyidx=j, user_handle=bytes([j + 1]) * 4)
                       for j in range(n)]
            content.append(mk_passkey(rng, "other.org", cred_id=b"\x55" * 16, counter=1, keyidx=4))
            allows = [ids, list(reversed(ids)), ids[1:] + ids[:1]] + ([None, []] if store == "ref" else [])
            for allow in allows:
                for uv in (False, True):
                    for ans in answers:
                        op = {"op": "get_assertion", "req": ga_req(rng, up=True, uv=uv, allow=allow, cdh=b"\x22" * 32)}
                        scenarios.append(scenario(store_kind=store, content=content, config={"counter": True},
                                                  user={"verif_enabled": True, "presence_enabled": True, "script": [ans]}, ops=[op]))
                        meta.append(("several", store, n, None if allow is None else tuple(a.hex() for a in allow), uv, json.dumps(ans)))
    return scenarios, meta


def consent_missing(sc, obs):
    o = sc["ops"][0]["req"]["opts"]
    for e in obs["log"]:
        if e["c"] == "check" and "ok" in e["r"]:
            p, v = e["r"]["ok"]
            if (p or not o["up"]) and (v or not o["uv"]):
                return False
    return True


def non_disclosure(scenarios, outs):
    """while consent is missing the outcome is the same whether or not a matching credential exists:
    scenarios that differ only in the store content are paired"""
    groups = {}
    for sc, out in zip(scenarios, outs):
        if "ops" not in out or len(sc["ops"]) != 1:
            continue
        key = json.dumps([sc["config"], sc["user"], sc["ops"], sc["store"]["kind"]], sort_keys=True)
        groups.setdefault(key, []).append((sc, out["ops"][0]))
    fails = []
    for key, lst in groups.items():
        if len(lst) < 2:
            continue
        missing = [consent_missing(sc, ob) for sc, ob in lst]
        if all(missing):
            results = {json.dumps(ob["result"], sort_keys=True) for _, ob in lst}
            if len(results) > 1:
                fails.append({"kind": "outcome without consent depends on whether a matching credential exists",
                              "scenario": lst[0][0], "other_scenario": lst[1][0], "observed": [ob["result"] for _, ob in lst]})
        store_changed = [ob["store_after"] != sc["store"]["content"] and sc["store"]["kind"] in ("ref",) for sc, ob in lst if consent_missing(sc, ob)]
        if any(store_changed):
            fails.append({"kind": "store changed although consent is missing", "scenario": lst[0][0]})
    return fails


def check(run):
    scenarios, meta = product(run)
    s2, m2 = several_matching(run)
    scenarios, meta = scenarios + s2, meta + m2
    ceremony.standard_check(
        run, PROP, scenarios, meta, ["c04_ok"], pair_oracle=non_disclosure, py_oracle=ceremony.signature_oracle,
        coq_files=["theories/Auth/Authenticator.v", "theories/Auth/C04Facts.v"],
        rule="complete enumeration of operation x (rk,up,uv) x verification capability (None/Some false/Some true) x presence capability "
             "x user answer (4 presence/verification results, 2 errors) x pin-auth x matching credential present/absent x store kind; plus assertions with 2-3 matching credentials (allow list in "
             "every rotation / absent / empty) where the credential shown for consent and the signing key (independent ECDSA check) are compared",
        assumptions=["U2F operations have no consent step by design (presence is a caller-supplied argument): not quantified over here"])
    run.cov["exhaustive"] = True
