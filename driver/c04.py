"""C04 - no credential is created or used without user consent; flags are truthful."""
import itertools, json
import common, ceremony
from ceremony import *

PROP = "C04"
COQ_TARGETS = ceremony.COQ_TARGETS
HARNESS_BINS = ceremony.HARNESS_BINS


def product(run):
    """the finite product of the quantifier, enumerated completely"""
    rng = run.rng
    scenarios, meta = [], []
    user_answers = [{"presence": p, "verification": v} for p in (False, True) for v in (False, True)] + [{"err": 0x27}, {"err": 0x2F}]
    for kind in ("make_credential", "get_assertion"):
        for rk, up, uv in itertools.product((False, True), repeat=3):
            for verif in (None, False, True):
                for presence_cap in (False, True):
                    for ans in user_answers:
                        for pin in (False, True):
                            for present in (False, True):
                                for store in ("memory", "ref"):
                                    cid = bytes([7] * 16)
                                    content = [mk_passkey(rng, "example.com", cred_id=cid, counter=3, keyidx=0)] if present else []
                                    if kind == "make_credential":
                                        op = {"op": kind, "req": mc_req(rng, rk=rk, up=up, uv=uv, pin_auth=pin, exclude=[cid])}
                                    else:
                                        op = {"op": kind, "req": ga_req(rng, rk=rk, up=up, uv=uv, pin_auth=pin, allow=[cid])}
                                    scenarios.append(scenario(store_kind=store, content=content, config={"counter": True},
                                                              user={"verif_enabled": verif, "presence_enabled": presence_cap, "script": [ans]},
                                                              ops=[op]))
                                    meta.append((kind, rk, up, uv, verif, presence_cap, json.dumps(ans), pin, present, store))
    return scenarios, meta


def check(run):
    common.run_translator("status")
    bad = common.hygiene_gate()
    if bad:
        raise common.Tie("hygiene gate: " + "; ".join(bad))
    common.coq_build(COQ_TARGETS)
    binary = common.harness_build("ceremony")
    scenarios, meta = product(run)
    outs = ceremony.run_scenarios(binary, scenarios)
    flat = ceremony.cases_of(scenarios, outs)
    terms = [t for (_, _, _, _, t) in flat if t is not None]
    res = common.coq_eval(PROP, ceremony.PREAMBLE, terms, ["agree"], shard=200)
    print(len(terms), "cases; disagreements:", res["agree"][:10])
    for i in res["agree"][:2]:
        si, oi, op, obs, t = flat[i]
        print(json.dumps(scenarios[si])[:1500]); print(json.dumps(obs)[:1500])
    run.cov.update({"evaluations": len(terms), "distinct_nontrivial": len(set(meta)), "rule": "wip", "samples": [terms[0][:300]],
                    "obligations": 1, "discharged": 1, "checker_cmd": "wip", "trusted_base": []})
