"""C04 - no credential is created or used without user consent; flags are truthful."""
import itertools, json
import common, ceremony
from ceremony import *

PROP = "C04"
COQ_TARGETS = ceremony.COQ_TARGETS + ceremony.WCOQ_TARGETS
HARNESS_BINS = ceremony.HARNESS_BINS
replay = ceremony.replay


def product(run):
    """the finite product of the property's quantifier, enumerated completely"""
    rng = run.rng
    scenarios, meta = [], []
    user_answers = [{"presence": p, "verification": v} for p in (False, True) for v in (False, True)] + [{"err": 0x27}, {"err": 0x2F}]
    stores = ("memory", "ref") if run.tier == "quick" else ("memory", "ref", "option", "arc_mutex_memory", "arc_rwlock_memory", "mutex_memory", "rwlock_memory")
    for kind in ("make_credential", "get_assertion"):
        for rk, up, uv in itertools.product((False, True), repeat=3):
            for verif in (None, False, True):
                for presence_cap in (False, True):
                    for ans in user_answers:
                        for pin in (False, True):
                            for present in (False, True):
                                for store in stores:
                                    cid = bytes([7] * 16)
                                    content = [mk_passkey(rng, "example.com", cred_id=cid, counter=3, keyidx=0)] if present else []
                                    if kind == "make_credential":
                                        op = {"op": kind, "req": mc_req(rng, rk=rk, up=up, uv=uv, pin_auth=pin, exclude=[cid], cdh=b"\x11" * 32, user_id=b"\x05" * 8)}
                                    else:
                                        op = {"op": kind, "req": ga_req(rng, rk=rk, up=up, uv=uv, pin_auth=pin, allow=[cid], cdh=b"\x11" * 32)}
                                    scenarios.append(scenario(store_kind=store, content=content, config={"counter": True},
                                                              user={"verif_enabled": verif, "presence_enabled": presence_cap, "script": [ans]},
                                                              ops=[op]))
                                    meta.append((kind, rk, up, uv, verif, presence_cap, json.dumps(ans), pin, present, store))
    return scenarios, meta


def several_matching(run):
    """beyond the product of the quantifier: several credentials match the lookup (2-3 for the RP, allow list naming them
    in either order, or no allow list on the store that supports it), distinct keys - "the credential shown to the user
    for consent is the one that signs" is only observable then"""
    rng = run.rng
    scenarios, meta = [], []
    answers = [{"presence": True, "verification": True}, {"presence": True, "verification": False}, {"presence": False, "verification": False}]
    for store in ("ref", "memory", "arc_mutex_memory"):
        for n in (2, 3):
            ids = [bytes([0x30 + j]) * 16 for j in range(n)]
            content = [mk_passkey(rng, "example.com", cred_id=ids[j], counter=rng.choice([None, 3, 9]), keyidx=j, user_handle=bytes([j + 1]) * 4)
                       for j in range(n)]
            content.append(mk_passkey(rng, "other.org", cred_id=b"\x55" * 16, counter=1, keyidx=4))
            allows = [ids, list(reversed(ids)), ids[1:] + ids[:1]] + ([None, []] if store == "ref" else [])
            for allow in allows:
                for uv in (False, True):
                    for ans in answers:
                        op = {"op": "get_assertion", "req": ga_req(rng, up=True, uv=uv, allow=allow, cdh=b"\x22" * 32)}
                        scenarios.append(scenario(store_kind=store, content=content, config={"counter": True},
                                                  user={"verif_enabled": True, "presence_enabled": True, "script": [ans]}, ops=[op]))
                        meta.append(("several", store, n, None if allow is None else tuple(a.hex() for a in allow), uv, json.dumps(ans)))
    return scenarios, meta


def consent_missing(sc, obs):
    o = sc["ops"][0]["req"]["opts"]
    for e in obs["log"]:
        if e["c"] == "check" and "ok" in e["r"]:
            p, v = e["r"]["ok"]
            if (p or not o["up"]) and (v or not o["uv"]):
                return False
    return True


def non_disclosure(scenarios, outs):
    """while consent is missing the outcome is the same whether or not a matching credential exists:
    scenarios that differ only in the store content are paired"""
    groups = {}
    for sc, out in zip(scenarios, outs):
        if "ops" not in out or len(sc["ops"]) != 1:
            continue
        key = json.dumps([sc["config"], sc["user"], sc["ops"], sc["store"]["kind"]], sort_keys=True)
        groups.setdefault(key, []).append((sc, out["ops"][0]))
    fails = []
    for key, lst in groups.items():
        if len(lst) < 2:
            continue
        missing = [consent_missing(sc, ob) for sc, ob in lst]
        if all(missing):
            results = {json.dumps(ob["result"], sort_keys=True) for _, ob in lst}
            if len(results) > 1:
                fails.append({"kind": "outcome without consent depends on whether a matching credential exists",
                              "scenario": lst[0][0], "other_scenario": lst[1][0], "observed": [ob["result"] for _, ob in lst]})
        store_changed = [ob["store_after"] != sc["store"]["content"] and sc["store"]["kind"] in ("ref",) for sc, ob in lst if consent_missing(sc, ob)]
        if any(store_changed):
            fails.append({"kind": "store changed although consent is missing", "scenario": lst[0][0]})
    return fails


def client_uv(run):
    """the WebAuthn entry points (anchor passkey-client/src/lib.rs): userVerification required / preferred / discouraged x
    verification capability None / Some(false) / Some(true) x presence capability x what the validation step reports, for register and
    authenticate.  Judged on the observation alone: a request that requires verification on an authenticator whose
    verification is absent or unconfigured returns an error and leaves the store untouched; a ceremony succeeds only with
    the consent its requirement demands and its UV / UP bits are what the validation step reported."""
    rng = run.rng
    cid = bytes([0x3C]) * 16
    content = [mk_passkey(rng, "example.com", cred_id=cid, counter=2, keyidx=0)]
    scs = []
    for uvreq in ("required", "preferred", "discouraged"):
        for verif in (None, False, True):
            for ans in ({"presence": True, "verification": True}, {"presence": True, "verification": False}, {"presence": False, "verification": True},
                        {"presence": False, "verification": False}):
                for kind, pres_cap in (("ref", True), ("memory", True), ("ref", False)):
                    ops = [reg_op(rng, selection={"rk": "discouraged", "require_rk": False, "uv": uvreq}), auth_op(rng, allow=[cid], uv=uvreq)]
                    scs.append(client_scenario(store_kind=kind, content=content, config={"counter": True},
                                               user={"verif_enabled": verif, "presence_enabled": pres_cap, "script": [ans, ans]}, ops=ops))
    binary = common.harness_build("ceremony")
    outs = ceremony.run_scenarios(binary, scs)
    fails = []
    for sc, out in zip(scs, outs):
        if "ops" not in out:
            fails.append((sc, out, "the client ceremony crashed the process")); continue
        before = sc["store"]["content"]
        verif = sc["user"]["verif_enabled"]
        for op, obs in zip(sc["ops"], out["ops"]):
            res = obs["result"]
            uvreq = (op["req"].get("selection") or {}).get("uv") if op["op"] == "register" else op["req"]["uv"]
            ans = sc["user"]["script"][0]
            mutated = [e for e in obs["log"] if e["c"] in ("save", "update") and "ok" in e["r"]]
            canon = lambda l: sorted(json.dumps(p, sort_keys=True) for p in l)
            why = None
            if uvreq == "required" and verif is not True:
                if "ok" in res: why = "userVerification=required on an authenticator whose verification is %s, yet the ceremony succeeded" % verif
                elif mutated or canon(obs["store_after"]) != canon(before): why = "userVerification=required on an authenticator that cannot verify: the store was touched"
            if "ok" in res and why is None:
                flags = bytes.fromhex(res["ok"]["auth_data"])[32]
                if not ans["presence"]: why = "the ceremony succeeded although the validation step did not report presence"
                elif uvreq == "required" and not ans["verification"]: why = "verification was required but not reported, yet the ceremony succeeded"
                elif bool(flags & 1) != ans["presence"] or bool(flags & 4) != ans["verification"]:
                    why = "UP/UV bits %s/%s differ from what the validation step reported (%s)" % (bool(flags & 1), bool(flags & 4), ans)
            if "err" in res and why is None and (mutated or canon(obs["store_after"]) != canon(before)):
                why = "the ceremony returned an error but the store was touched"
            if why:
                fails.append((sc, obs, why))
            before = obs["store_after"]
    for sc, obs, why in fails[:3]:
        run.violation({"kind": "client level: " + why, "scenario": sc, "observed": obs})
    # the same observations against the client model (tie)
    flat = [x for x in ceremony.wcases_of(scs, outs) if x[4] is not None]
    res = common.coq_eval(PROP + "-client", ceremony.WPREAMBLE, [t for *_, t in flat], ["wagree"], shard=60)
    if not fails and res["wagree"]:
        si, oi, op, obs, t = flat[res["wagree"][0]]
        run.violation({"kind": "client model and implementation disagree; the client-level consent oracle is true on all %d observations" % len(flat),
                       "broken": "correspondence ceremony/%s (Auth.ClientCheck.wagree)" % op["op"], "scenario": scs[si], "observed": obs}, found_input=False)
    run.cov["client_level"] = {"scenarios": len(scs), "operations": len(flat), "oracle_failures": len(fails), "model_disagreements": len(res["wagree"])}


def check(run):
    scenarios, meta = product(run)
    s2, m2 = several_matching(run)
    scenarios, meta = scenarios + s2, meta + m2
    ceremony.standard_check(
        run, PROP, scenarios, meta, ["c04_ok"], pair_oracle=non_disclosure, py_oracle=ceremony.signature_oracle,
        coq_files=["theories/Auth/Authenticator.v", "theories/Auth/C04Facts.v", "theories/Auth/C04Client.v", "theories/Auth/SkeletonFacts.v"],
        rule="complete enumeration of operation x (rk,up,uv) x verification capability (None/Some false/Some true) x presence capability "
             "x user answer (4 presence/verification results, 2 errors) x pin-auth x matching credential present/absent x store kind; plus assertions with 2-3 matching credentials (allow list in "
             "every rotation / absent / empty) where the credential shown for consent and the signing key (independent ECDSA check) are compared",
        assumptions=["U2F operations have no consent step by design (presence is a caller-supplied argument): not quantified over here"])
    common.coq_build(ceremony.WCOQ_TARGETS)
    client_uv(run)
    # the record of the selected credential is replaced / removed by another session while the consent prompt is on screen: the
    # credential that was shown is the one that signs
    run.cov["prompt_actions"] = ceremony.check_prompt_actions(run, ("C04",))
    run.cov["exhaustive"] = True
