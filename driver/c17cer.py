"""Ceremony half of C17: <Authenticator as U2fApi>::{register, authenticate} against the model Auth/U2f.v
(correspondence by replay of the trait-call log) and against an independent oracle: P-256/ECDSA verification in pure
Python over signature base strings rebuilt here, store snapshots, known/unknown key handles."""
import base64, json
import common, ceremony
from ceremony import blit, hb, c_log, c_queues, scenario, mk_passkey, ecdsa_verify, der_sig, on_curve, pub_of

PREAMBLE = "From PK Require Import Lib.Bytes Lib.Check Auth.U2fCheck.\nOpen Scope N_scope.\n"
COQ_TARGETS = ["theories/Auth/U2fCheck.vo", "theories/Auth/U2fFacts.vo"]
HARNESS_BINS = ["u2fcer"]
COQ_FILES = ["theories/Auth/U2f.v", "theories/Auth/U2fFacts.v"]
CONTRACT_STORES = ["ref", "option", "arc_mutex_ref", "arc_rwlock_ref"]        # filter lookups by RP ID
MEMORY_STORES = ["memory", "arc_mutex_memory", "arc_rwlock_memory", "mutex_memory", "rwlock_memory"]


def rp_of(app):
    return base64.urlsafe_b64encode(app).rstrip(b"=")


def rb(rng, n):
    return bytes(rng.randrange(256) for _ in range(n))


def reg(app, chal, handle):
    return {"op": "u2f_register", "application": app.hex(), "challenge": chal.hex(), "handle": handle.hex()}


def auth(app, chal, kh, counter=0, flags=1, parameter=3):
    return {"op": "u2f_authenticate", "application": app.hex(), "challenge": chal.hex(), "key_handle": kh.hex(),
            "counter": counter, "flags": flags, "parameter": parameter}


def gen(run):
    rng = run.rng
    n = 60 if run.tier == "quick" else 600
    scs = []
    hlens = [0, 1, 16, 32, 64, 255, 256, 300]
    counters = [0, 1, 181, 2**31 - 1, 2**31, 2**32 - 1]
    flagsets = [0x00, 0x01, 0x04, 0x05, 0x19, 0x1D, 0xDD]
    for i in range(n):
        kind = rng.choice(CONTRACT_STORES + MEMORY_STORES)
        contract = kind in CONTRACT_STORES
        apps = [rb(rng, 32) for _ in range(rng.randrange(1, 4))]
        # stored credentials that are NOT U2F registrations: another RP, no private scalar, wrong algorithm
        content = []
        if rng.random() < 0.5:
            for j in range(rng.randrange(1, 3)):
                p = mk_passkey(rng, "example.com", cred_id=rb(rng, 16), counter=rng.choice([None, 5]), keyidx=j)
                content.append(p)
        odd_handle = None
        if rng.random() < 0.25:
            # a credential under a U2F RP ID whose key cannot sign (no scalar / not ES256): authentication must fail
            odd_handle = rb(rng, 16)
            p = mk_passkey(rng, rp_of(apps[0]).decode(), cred_id=odd_handle, counter=0, keyidx=3)
            if rng.random() < 0.5: p["key"]["d"] = None
            else: p["key"]["es256"] = False
            content.append(p)
        ops, handles = [], []
        for _ in range(rng.randrange(1, 4)):
            app = rng.choice(apps)
            h = rb(rng, rng.choice(hlens)) if rng.random() < 0.8 else (handles[-1][1] if handles else rb(rng, 16))
            prior = [a for a, hh in handles if hh == h]
            if not contract and prior:
                # MemoryStore ignores the RP ID on lookup (C05 known finding memory-store-ignores-rp-id): the same key handle
                # under two applications is generated only for the stores that implement the lookup contract
                app = prior[-1]
            ops.append(reg(app, rb(rng, 32), h)); handles.append((app, h))
            if kind in ("option",):
                handles = handles[-1:]                      # a one-slot store keeps the last registration only
        for _ in range(rng.randrange(1, 5)):
            r = rng.random()
            ctr, fl, par = rng.choice(counters), rng.choice(flagsets), rng.choice([3, 7, 8])
            if r < 0.55 and handles:
                app, h = rng.choice(handles); ops.append(auth(app, rb(rng, 32), h, ctr, fl, par))
            elif r < 0.70:
                ops.append(auth(rng.choice(apps), rb(rng, 32), rb(rng, rng.choice([2, 17, 63])), ctr, fl, par))         # unknown handle (lengths never registered)
            elif r < 0.85 and handles and contract:
                app, h = rng.choice(handles); ops.append(auth(rb(rng, 32), rb(rng, 32), h, ctr, fl, par))                 # other application
            elif odd_handle is not None:
                ops.append(auth(apps[0], rb(rng, 32), odd_handle, ctr, fl, par))
            elif content and contract:
                ops.append(auth(rng.choice(apps), rb(rng, 32), bytes.fromhex(content[0]["cred_id"]), ctr, fl, par))      # a WebAuthn credential's id
            else:
                ops.append(auth(rng.choice(apps), rb(rng, 32), rb(rng, 17), ctr, fl, par))
        faults = None
        if rng.random() < 0.2:
            faults = [{"at": rng.randrange(0, len(ops)), "code": rng.choice([0x01, 0x28, 0x2E, 0x7F, 0xF0])}]
        sc = scenario(store_kind=kind, content=content, ops=ops, faults=faults)
        scs.append(sc)
    # the same key handle registered again for the same application (a token that is reset and enrolled again): the second
    # registration succeeds too, replaces the first key, and authentication then verifies under the NEW key - on every store kind
    for kind in CONTRACT_STORES + MEMORY_STORES:
        for hl in (16, 32, 64):
            app, h = rb(rng, 32), rb(rng, hl)
            scs.append(scenario(store_kind=kind, content=[], ops=[reg(app, rb(rng, 32), h), auth(app, rb(rng, 32), h, 1, 0x01, 3),
                                                                 reg(app, rb(rng, 32), h), auth(app, rb(rng, 32), h, 2, 0x01, 3),
                                                                 reg(app, rb(rng, 32), h), auth(app, rb(rng, 32), h, 3, 0x05, 8)]))
    # several key handles of ONE application (every U2F credential is stored without a user handle - they are different credentials),
    # and every boundary length of the key handle: each registration succeeds and each handle authenticates afterwards
    for kind in CONTRACT_STORES + MEMORY_STORES:
        if kind in ("option",):
            continue
        app = rb(rng, 32)
        hs = [rb(rng, 24), rb(rng, 16), rb(rng, 32)]
        ops = [reg(app, rb(rng, 32), h) for h in hs] + [auth(app, rb(rng, 32), h, 0x01020304, 0x01, 3) for h in hs]
        scs.append(scenario(store_kind=kind, content=[], ops=ops))
    for kind in ("option", "ref", "memory"):
        for hl in (0, 1, 15, 16, 127, 128, 254, 255):
            app, h = rb(rng, 32), rb(rng, hl)
            scs.append(scenario(store_kind=kind, content=[], ops=[reg(app, rb(rng, 32), h), auth(app, rb(rng, 32), h, 0xFF000001, 0x05, 3)]))
    return scs


# ------------------------------------------------------------------------------------------------
# Coq terms

def term(op, obs):
    log, res = obs["log"], obs["result"]
    if op["op"] == "u2f_register":
        keys, sigs = [], []
        save = next((e for e in log if e["c"] == "save"), None)
        if save is not None:
            k = save["p"]["key"]; keys.append((k["d"] or "", k["x"], k["y"]))
        if "ok" in res:
            o = res["ok"]; sigs.append(o["signature"])
            enc = "None" if res["encoded"] is None else "(Some %s)" % hb(res["encoded"])
            impl = "(Ok (RegResp (PubKey %s %s) %s %s %s, %s))" % (hb(o["x"]), hb(o["y"]), hb(o["key_handle"]), hb(o["cert"]), hb(o["signature"]), enc)
        else:
            impl = "(Err %d)" % res["err"]
        return "CUReg %s %s %s\n  %s\n  %s %s" % (hb(op["application"]), hb(op["challenge"]), hb(op["handle"]), c_log(log), c_queues([], keys, sigs, []), impl)
    sigs = []
    if "ok" in res:
        o = res["ok"]; sigs.append(o["signature"])
        impl = "(Ok (AuthResp %d %d %s, %s))" % (o["user_presence"], o["counter"], hb(o["signature"]), hb(res["encoded"]))
    else:
        impl = "(Err %d)" % res["err"]
    return "CUAuth %s %s %s %d %d\n  %s\n  %s %s" % (hb(op["application"]), hb(op["challenge"]), hb(op["key_handle"]), op["counter"], op["flags"],
                                                     c_log(log), c_queues([], [], sigs, []), impl)


# ------------------------------------------------------------------------------------------------
# independent oracle (no model): the property's wording on results, logs and store snapshots

def int_of(h):
    return int(h, 16) if h else 0


def oracle(sc, out):
    fails = []
    kind = sc["store"]["kind"]
    content = list(sc["store"]["content"])
    if kind in ("option", "arc_mutex_option"):
        content = content[-1:]
    registered = {}                                   # (application hex, handle hex) -> (x, y) returned at registration
    for op, obs in zip(sc["ops"], out["ops"]):
        res, after = obs["result"], obs["store_after"]
        canon = lambda l: sorted(json.dumps(p, sort_keys=True) for p in l)
        if op["op"] == "u2f_register":
            app, chal, h = bytes.fromhex(op["application"]), bytes.fromhex(op["challenge"]), bytes.fromhex(op["handle"])
            if "ok" in res:
                o = res["ok"]
                x, y, sig = bytes.fromhex(o["x"]), bytes.fromhex(o["y"]), bytes.fromhex(o["signature"])
                xi, yi = int.from_bytes(x, "big"), int.from_bytes(y, "big")
                if len(x) != 32 or len(y) != 32 or not on_curve(xi, yi):
                    fails.append("registration returned a public key that is not a P-256 point")
                target = b"\x00" + app + chal + h + b"\x04" + x + y
                rs = (int.from_bytes(sig[:32], "big"), int.from_bytes(sig[32:], "big")) if len(sig) == 64 else der_sig(sig)
                if not ecdsa_verify(xi, yi, target, rs):
                    fails.append("registration signature does not verify under the returned key over 0x00||application||challenge||key handle||public key")
                if bytes.fromhex(o["key_handle"]) != h:
                    fails.append("registration response carries another key handle")
                mine = [p for p in after if p["cred_id"] == op["handle"] and bytes.fromhex(p["rp_id"]) == rp_of(app)]
                if len(mine) != 1:
                    fails.append("registration did not store exactly one credential for that application and key handle")
                else:
                    k = mine[0]["key"]
                    if k["x"] != o["x"] or k["y"] != o["y"] or not k["d"] or pub_of(int(k["d"], 16)) != (xi, yi):
                        fails.append("the stored private key does not match the returned public key")
                    if mine[0]["counter"] != 0:
                        fails.append("U2F credential stored without counter 0")
                    # U2F registration saves with rk = false: on a store that is not forced-discoverable the credential is
                    # not discoverable and stores no user handle (C11's storage rule applied to this entry point)
                    if "ref" in kind and sc["store"].get("disc", "full") != "forced" and mine[0]["user_handle"] is not None:
                        fails.append("a U2F registration (rk=false) stored a user handle although the credential is not discoverable "
                                     "under the store's capability %s" % sc["store"].get("disc", "full"))
                # everything else in the store is untouched (one-slot store: replaced)
                if kind not in ("option", "arc_mutex_option"):
                    before_other = [p for p in content if p["cred_id"] != op["handle"]]
                    after_other = [p for p in after if p["cred_id"] != op["handle"]]
                    if canon(before_other) != canon(after_other):
                        fails.append("registration altered another stored credential")
                registered[(op["application"], op["handle"])] = (xi, yi)
                if kind in ("option", "arc_mutex_option"):
                    registered = {(op["application"], op["handle"]): (xi, yi)}
                # a later registration of the same handle under another application replaces it in id-keyed stores
                for key in list(registered):
                    if key[1] == op["handle"] and key[0] != op["application"]:
                        del registered[key]
                enc = res.get("encoded")
                if enc is not None:
                    want = b"\x05\x04" + x + y + bytes([len(h)]) + h + bytes.fromhex(o["cert"]) + sig + b"\x90\x00"
                    if bytes.fromhex(enc) != want:
                        fails.append("encoded registration response is not reserved byte||public key||length||key handle||certificate||signature||9000")
            else:
                if canon(after) != canon(content):
                    fails.append("failed registration changed the store")
                if not any(e["c"] == "save" and "err" in e["r"] for e in obs["log"]):
                    fails.append("registration failed although the store accepted the credential")
                elif not sc.get("faults") and sc["store"].get("capacity") is None:
                    fails.append("registration of key handle %s failed: the store refused to save the credential although no store call was made to fail"
                                 % op["handle"][:16])
        else:
            app, chal, kh = bytes.fromhex(op["application"]), bytes.fromhex(op["challenge"]), bytes.fromhex(op["key_handle"])
            if canon(after) != canon(content):
                fails.append("authentication changed the store")
            known = registered.get((op["application"], op["key_handle"]))
            faulted = any("err" in e.get("r", {}) for e in obs["log"] if e["c"] == "find") if isinstance(obs["log"], list) else False
            if "ok" in res:
                o = res["ok"]
                sig = bytes.fromhex(o["signature"])
                # the credential that answered: must be one stored for this application and key handle
                cands = [p for p in content if p["cred_id"] == op["key_handle"] and bytes.fromhex(p["rp_id"]) == rp_of(app)]
                if not cands:
                    fails.append("authentication succeeded for a key handle the store does not hold for this application")
                else:
                    k = cands[0]["key"]
                    xi, yi = int(k["x"], 16), int(k["y"], 16)
                    if known is not None and known != (xi, yi):
                        fails.append("the credential used is not the one registered under this key handle")
                    target = app + bytes([op["flags"]]) + op["counter"].to_bytes(4, "big") + chal
                    if not ecdsa_verify(xi, yi, target, der_sig(sig)):
                        fails.append("authentication signature does not verify under the registered key over application||presence||counter||challenge")
                if o["user_presence"] != op["flags"] or o["counter"] != op["counter"]:
                    fails.append("authentication response does not carry the presence byte / counter it signed")
                want = bytes([op["flags"]]) + op["counter"].to_bytes(4, "big") + sig + b"\x90\x00"
                if bytes.fromhex(res["encoded"]) != want:
                    fails.append("encoded authentication response is not presence||counter||signature||9000")
            else:
                if known is not None and not faulted:
                    fails.append("authentication with a registered key handle and its application failed")
        content = after
    return fails


# ------------------------------------------------------------------------------------------------

def meta(sc, out):
    sig = []
    for op, obs in zip(sc["ops"], out.get("ops", [])):
        r = obs["result"]
        sig.append((op["op"], len(op.get("handle", op.get("key_handle", ""))) // 2, op.get("flags"), op.get("counter"), "ok" if "ok" in r else r.get("err"),
                    tuple(e["c"] for e in obs["log"])))
    return (sc["store"]["kind"], len(sc["store"]["content"]), bool(sc.get("faults")), tuple(sig))


def check_ceremony(run, tag="C17-cer"):
    """runs the U2F ceremony correspondence for the calling run; reports violations on `run`, returns evidence counts"""
    common.coq_build(COQ_TARGETS)
    binary = common.harness_build("u2fcer")
    scs = ceremony.load_corpus("C17cer") + gen(run)
    outs = common.harness_run(binary, scs)
    flat, crashed = [], []
    for si, (sc, out) in enumerate(zip(scs, outs)):
        if "ops" not in out:
            crashed.append((si, out)); continue
        for oi, (op, obs) in enumerate(zip(sc["ops"], out["ops"])):
            flat.append((si, oi, op, obs, term(op, obs)))
    terms = [t for *_, t in flat]
    res = common.coq_eval(tag, PREAMBLE, terms, ["uagree", "uoracle"], shard=120)
    n_viol = 0
    for si, out in crashed[:3]:
        run.violation({"kind": "U2F ceremony crashed the process or panicked", "scenario": scs[si], "observed": out, "domain": "u2fcer"}); n_viol += 1
    for i in res["uoracle"][:3]:
        si, oi, op, obs, t = flat[i]
        run.violation({"kind": "U2F ceremony: property oracle (Auth.U2fCheck.uoracle) false on the implementation's observation",
                       "scenario": scs[si], "op_index": oi, "observed": obs, "domain": "u2fcer"}); n_viol += 1
    py_fail = []
    for si, (sc, out) in enumerate(zip(scs, outs)):
        if "ops" in out:
            for msg in oracle(sc, out):
                py_fail.append((si, msg))
    for si, msg in py_fail[:3]:
        run.violation({"kind": "U2F ceremony, independent oracle: " + msg, "scenario": scs[si], "observed": outs[si], "domain": "u2fcer"}); n_viol += 1
    if n_viol == 0 and res["uagree"]:
        si, oi, op, obs, t = flat[res["uagree"][0]]
        run.violation({"kind": "U2F ceremony model and implementation disagree; every oracle true on all %d observations" % len(terms),
                       "broken": "correspondence u2fcer/%s (Auth.U2fCheck.uagree, replay of the call log)" % op["op"],
                       "scenario": scs[si], "op_index": oi, "observed": obs, "domain": "u2fcer",
                       "model": common.coq_show(tag, PREAMBLE, "match (%s) with CUReg a c h log qs _ => inl (replay (u2f_register a c h) log qs 0) | CUAuth a c k n p log qs _ => inr (replay (u2f_authenticate a c k n p) log qs 0) end" % t)[-2500:]},
                      found_input=False)
    hist = {}
    for si, oi, op, obs, t in flat:
        r = obs["result"]; k = "%s/%s" % (op["op"], "ok" if "ok" in r else "err%d" % r["err"])
        hist[k] = hist.get(k, 0) + 1
    return {"evaluations": len(terms), "scenarios": len(scs), "distinct": len(set(meta(sc, out) for sc, out in zip(scs, outs))),
            "model_disagreements": len(res["uagree"]), "oracle_failures": len(res["uoracle"]), "python_oracle_failures": len(py_fail),
            "crashes": len(crashed), "outcome_histogram": hist, "lemmas": common.count_lemmas(COQ_FILES),
            "sample": terms[len(terms) // 2][:500] if terms else "",
            "rule": "1-3 registrations (key handles of 0,1,16,32,64,255,256,300 bytes, repeated handles, 1-3 applications) followed by 1-4 authentications "
                    "(registered handle, unknown handle, registered handle under another application [stores that filter by RP ID], a stored credential "
                    "that cannot sign, a WebAuthn credential's id; counters 0..2^32-1, flag sets, control bytes 3/7/8) on reference / Option / MemoryStore "
                    "and the four lock wrappers, pre-populated stores, store faults at one call"}


def replay_scenario(payload):
    binary = common.harness_build("u2fcer")
    print(json.dumps(common.harness_one(binary, payload["scenario"]))[:4000])
    return 0
