"""C03 - authentication returns a signature that verifies and is bound to the ceremony.

Theorems: coq/theories/Props/C03.v (proofs in Auth/C03Facts.v).  Tie: histories of registrations and
authentications through passkey_client::Client (harness `ceremony`, mode "client"), call logs replayed
against Auth/Client.v (ClientCheck.wagree).  Oracles on the implementation's observations:
Auth/C0203Check.c03_ok (Coq) and `history_oracle` below (Python): the relying party's view over a whole
history - it keeps the public keys it was given at registration (COSE key of the attested credential
data, or the initial store content) and verifies every assertion signature with the ECDSA verifier of
ceremony.py (own P-256 arithmetic; shares nothing with the p256 crate)."""
import json
import common, ceremony, c02
from ceremony import *
from c02 import Bad, parse_auth_data, b64url, expected_rp, check_client_data, cd_mode, ORIGINS, USER_OK

PROP = "C03"
COQ_TARGETS = c02.COQ_TARGETS
HARNESS_BINS = ceremony.HARNESS_BINS
replay = ceremony.replay


def eligible(content, rp, allow):
    ids = None if not allow else set(allow)
    return [p for p in content if bytes.fromhex(p["rp_id"]) == rp and (ids is None or p["cred_id"] in ids)]


def history_oracle(sc, out):
    fails = []
    before = sc["store"]["content"]
    if sc["store"]["kind"] in ("option", "arc_mutex_option"):
        before = before[-1:]
    # what relying parties know: credential id -> (x, y, rp)
    registered = {p["cred_id"]: (p["key"]["x"], p["key"]["y"], bytes.fromhex(p["rp_id"])) for p in before}
    # the user handle stored WITH the credential: the one it was registered with (an authentication must not change it)
    handles = {p["cred_id"]: p["user_handle"] for p in before}
    script = sc["user"]["script"]
    for oi, (op, obs) in enumerate(zip(sc["ops"], out["ops"])):
        if "origin_error" in obs:
            continue
        after = obs["store_after"]
        res = obs["result"]
        where = "op %d: " % oi
        rp = expected_rp(op)
        if op["op"] == "register":
            if "ok" in res:
                try:
                    f = parse_auth_data(bytes.fromhex(res["ok"]["auth_data"]))
                    kd = dict(f["acd"]["key"])
                    registered[res["ok"]["raw_id"]] = (kd[-2].hex(), kd[-3].hex(), rp)
                    for p in after:
                        if p["cred_id"] == res["ok"]["raw_id"]:
                            handles[p["cred_id"]] = p["user_handle"]
                except (Bad, TypeError, KeyError) as e:
                    fails.append(where + "registration response unreadable: %s" % e)
            before = after
            continue
        allow = op["req"]["allow"]
        elig = eligible(before, rp, allow)
        if "ok" in res:
            o = res["ok"]
            cdj = bytes.fromhex(o["client_data_json"]); ad = bytes.fromhex(o["auth_data"]); raw = o["raw_id"]
            fails += [where + f for f in check_client_data(op, cdj, "webauthn.get")]
            if bytes.fromhex(o["id"]).decode("ascii", "replace") != b64url(bytes.fromhex(raw)):
                fails.append(where + "id is not the base64url of rawId")
            try:
                f = parse_auth_data(ad)
                if f["rp_id_hash"] != sha256(rp):
                    fails.append(where + "rpIdHash is not SHA-256 of the effective RP ID %r" % rp.decode("utf-8", "replace"))
                if f["acd"] is not None or f["flags"] & 0x40:
                    fails.append(where + "assertion carries attested credential data")
            except Bad as e:
                fails.append(where + str(e))
            reg = registered.get(raw)
            if reg is None:
                fails.append(where + "assertion names credential id %s that was never registered" % raw)
            else:
                x, y, reg_rp = reg
                # MemoryStore resolves allow lists by id only (C05 known finding memory-store-ignores-rp-id): on it a foreign
                # credential can be selected; that is reported by C05, not here - every other clause is still judged
                memory_known = sc["store"]["kind"] not in CONTRACT_STORES and reg_rp != rp
                if reg_rp != rp and not memory_known:
                    fails.append(where + "credential %s was registered for %r, asserted for %r" % (raw, reg_rp, rp))
                cdh = bytes.fromhex(op["cd"]["hash"]) if op["cd"].get("mode") == "hash" else sha256(cdj)
                if not ecdsa_verify(int(x, 16), int(y, 16), ad + cdh, der_sig(bytes.fromhex(o["signature"]))):
                    fails.append(where + "signature does not verify under the registered public key over authenticatorData || clientDataHash")
            if raw not in [p["cred_id"] for p in elig] and not (reg is not None and sc["store"]["kind"] not in CONTRACT_STORES and reg[2] != rp):
                fails.append(where + "credential %s is not an eligible credential (RP %r, allow list %s)" % (raw, rp, allow))
            stored = [p for p in before if p["cred_id"] == raw]
            if stored and o["user_handle"] != stored[0]["user_handle"]:
                fails.append(where + "user handle %s returned, %s stored with the credential" % (o["user_handle"], stored[0]["user_handle"]))
            elif raw in handles and o["user_handle"] != handles[raw]:
                fails.append(where + "user handle %s returned, the credential was registered with %s (an earlier authentication altered the record)" % (o["user_handle"], handles[raw]))
        else:
            consent = ceremony_consent(obs["log"])
            not_found = res["err"] == {"kind": "CredentialNotFound"}
            if consent and not elig and "ok" in obs["domain"] and not not_found:
                fails.append(where + "user consented and no eligible credential exists, but the error is %s" % (res["err"],))
            if not_found and elig and sc["store"]["kind"] in CONTRACT_STORES:
                fails.append(where + "CredentialNotFound reported although %d eligible credential(s) exist for %r" % (len(elig), rp))
        before = after
    return fails


CONTRACT_STORES = ("ref", "option", "arc_mutex_ref", "arc_rwlock_ref", "arc_mutex_option")


def ceremony_consent(log):
    return c02.consent_in_log(log)


# --------------------------------------------------------------------------------------------
# scenarios

def gen_histories(run, n):
    rng = run.rng
    scs, meta = [], []
    for i in range(n):
        kind = rng.choice(["ref", "ref", "ref", "arc_mutex_ref", "arc_rwlock_ref", "option"])
        cfg = {"id_len": rng.choice([16, 16, 32, 64, 0, 255]), "counter": rng.random() < 0.5, "hmac": None,
               "aaguid": bytes(rng.randrange(256) for _ in range(16)).hex()}
        rps = ["example.com", "other.org", "login.example.com"][:rng.choice([1, 2, 3])]
        content = []
        for j in range(rng.choice([0, 1, 2, 3])):
            content.append(mk_passkey(rng, rng.choice(rps), cred_id=bytes([0xC0 + j]) * rng.choice([16, 20]), keyidx=j,
                                      user_handle=rng.choice([None, b"\x01\x02", bytes([j, j])]), counter=rng.choice([None, 0, 5, 2**32 - 1])))
        if kind == "option": content = content[:1]
        known = {}          # rp -> ids known at generation time (initial content); registered ids are added by position
        for p in content:
            known.setdefault(bytes.fromhex(p["rp_id"]).decode(), []).append(bytes.fromhex(p["cred_id"]))
        ops, script, sig = [], [], []
        for k in range(rng.choice([1, 2, 3, 4, 5, 6])):
            origin, rp = rng.choice([(o, r) for (o, r) in ORIGINS if (r or o.split("://")[1].split(":")[0]) in rps] or ORIGINS[:1])
            eff = rp or origin.split("://")[1].split(":")[0]
            cd = cd_mode(rng, (i + k) % 3)
            clen = rng.choice([0, 1, 31, 32, 33, 32, 32])
            if rng.random() < (0.45 if k == 0 and not known.get(eff) else 0.25):
                sel = rng.choice([None, {"rk": "required", "uv": "preferred"}, {"rk": "discouraged", "uv": "discouraged"}, {"rk": "preferred", "uv": "required"}])
                ops.append(reg_op(rng, origin=origin, rp_id=rp, challenge=bytes(rng.randrange(256) for _ in range(clen)), cd=cd, selection=sel,
                                  params=rng.choice([(), (-7,), (-257, -7)]), user_id=bytes(rng.randrange(256) for _ in range(rng.choice([1, 8, 64])))))
                sig.append(("reg", eff, json.dumps(sel), cd["mode"]))
            else:
                mine = known.get(eff, [])
                foreign = [x for r2, l in known.items() if r2 != eff for x in l]
                c = rng.randrange(7)
                if c == 0: allow = None
                elif c == 1: allow = []
                elif c == 2 and mine: allow = rng.sample(mine, rng.randrange(1, len(mine) + 1))
                elif c == 3: allow = [bytes([0xEE]) * 16]
                elif c == 4 and foreign: allow = [rng.choice(foreign)] + (mine[:1] if rng.random() < 0.5 else [])
                elif c == 5 and mine: allow = [bytes([0xEE]) * 16] + mine[:1]
                else: allow = None
                uv = rng.choice(["preferred", "required", "discouraged"])
                ops.append(auth_op(rng, origin=origin, rp_id=rp, challenge=bytes(rng.randrange(256) for _ in range(clen)), allow=allow, uv=uv, cd=cd))
                sig.append(("auth", eff, None if allow is None else len(allow), uv, cd["mode"], clen))
            last = ops[-1]
            disc_uv = (last["req"].get("uv") == "discouraged") or ((last["req"].get("selection") or {}).get("uv") == "discouraged")
            if disc_uv and rng.random() < 0.6:
                script.append({"presence": True, "verification": False})      # UV stays clear
            else:
                script.append(rng.choice([USER_OK] * 14 + [{"presence": True, "verification": False}, {"presence": False, "verification": True}, {"err": 0x27}]))
        sc = client_scenario(store_kind=kind, content=content, config=cfg, disc=rng.choice(["full", "full", "forced", "only_non"]),
                             empty_is_err=rng.random() < 0.5,
                             user={"verif_enabled": rng.choice([True] * 18 + [False, None]), "presence_enabled": True, "script": script}, ops=ops)
        scs.append(sc)
        meta.append((kind, json.dumps(cfg)[:60], len(content), tuple(sig)))
    return scs, meta


def directed(run):
    rng = run.rng
    scs, meta = [], []
    def add(tag, **kw):
        scs.append(client_scenario(**kw)); meta.append(("directed", tag))
    # register then authenticate (discoverable and not), all client-data modes, challenge lengths, uv requirements
    for k in range(3):
        for clen in (0, 1, 31, 32, 33, 1000):
            add("reg-auth/%d/%d" % (k, clen), store_kind="ref", config={"counter": clen % 2 == 0, "id_len": 16 + clen % 40}, user={"script": [USER_OK] * 3},
                ops=[reg_op(rng, selection={"rk": "required", "uv": "preferred"}, user_id=b"\x09\x08\x07"),
                     auth_op(rng, challenge=bytes((3 * j + 1) % 256 for j in range(clen)), cd=cd_mode(rng, k), uv=["preferred", "required", "discouraged"][k]),
                     auth_op(rng, challenge=bytes(clen % 7), cd=cd_mode(rng, (k + 1) % 3), origin="https://login.example.com:444", rp_id="example.com")])
    # several RPs and users in one store, allow lists hit / miss / foreign / unknown
    ids = {("example.com", 0): bytes([0xA1]) * 16, ("example.com", 1): bytes([0xA2]) * 20, ("other.org", 0): bytes([0xB1]) * 16}
    content = [mk_passkey(rng, rp, cred_id=cid, keyidx=n, user_handle=bytes([n + 1, 7]), counter=[None, 3, 2**32 - 1][n])
               for n, ((rp, _), cid) in enumerate(ids.items())]
    A1, A2, B1 = ids[("example.com", 0)], ids[("example.com", 1)], ids[("other.org", 0)]
    for tag, allow, rp_origin in [("none", None, 0), ("empty", [], 0), ("hit", [A2], 0), ("hit-second", [bytes(16), A2], 0), ("unknown", [bytes(16)], 0),
                                  ("foreign", [B1], 0), ("foreign+own", [B1, A1], 0), ("other", None, 5), ("other-foreign", [A1], 5)]:
        o, r = ORIGINS[rp_origin]
        add("allow/" + tag, store_kind="ref", content=content, user={"script": [USER_OK]}, ops=[auth_op(rng, origin=o, rp_id=r, allow=allow)])
    # allow lists whose descriptors carry a `type` other than "public-key": a non-empty list stays a non-empty list (an
    # unregistered id is "no eligible credential", never a fall-back to the RP's discoverable credential)
    for kind in ("ref", "option"):
        cont = content if kind == "ref" else content[:1]
        for tag, allow, tys in [("unknown-type-miss", [bytes(16)], [False]), ("unknown-type-misses", [bytes(16), bytes([1]) * 16], [False, False]),
                                ("unknown-type-hit", [A1], [False]), ("mixed-miss", [bytes(16), bytes([2]) * 16], [False, True])]:
            o1 = auth_op(rng, allow=allow); o1["req"]["allow_ty"] = tys
            o2 = auth_op(rng, allow=allow, cd=cd_mode(rng, 2)); o2["req"]["allow_ty"] = tys
            add("allow-typed/%s/%s" % (kind, tag), store_kind=kind, content=cont, user={"script": [USER_OK] * 2}, ops=[o1, o2])
    # MemoryStore and a foreign id first in the allow list (the store resolves by id only - a C05 known finding): whatever
    # credential is used, the authenticator data must carry the hash of THIS ceremony's effective RP ID
    for tag, allow, rp_origin in [("foreign-first", [A1, B1], 5), ("foreign-only", [A1], 5), ("own-first", [B1, A1], 5)]:
        o, r = ORIGINS[rp_origin]
        add("memory-cross-rp/" + tag, store_kind="memory", content=content, user={"script": [USER_OK] * 2},
            ops=[auth_op(rng, origin=o, rp_id=r, allow=allow), auth_op(rng, origin=o, rp_id=None, allow=allow, cd=cd_mode(rng, 2))])
    # the single-slot store (and its lock wrapper) holding RP A's credential, an authentication for RP B whose allow list names it
    for kind in ("option", "arc_mutex_option"):
        o5, r5 = ORIGINS[5]
        add("option-cross-rp/" + kind, store_kind=kind, content=content[:1], user={"script": [USER_OK] * 3},
            ops=[auth_op(rng, origin=o5, rp_id=r5, allow=[A1]), auth_op(rng, origin=o5, rp_id=r5, allow=[bytes(16), A1]), auth_op(rng, allow=[A1])])
    # stored keys whose private scalar is encoded in every way an imported COSE key may carry it: well-formed ones (32 octets,
    # leading zero kept, 24-31 octets with the leading zeros dropped) must sign under the true public point, the others
    # (shorter than 24, longer than 32, zero, the group order, empty) are an unusable credential - an error, never a signature
    for kind in ("ref", "memory"):
        for shape in SCALAR_SHAPES:
            cid = bytes([0xC0 + SCALAR_SHAPES.index(shape)]) * 16
            pk = mk_passkey(rng, "example.com", cred_id=cid, key=key_with_scalar_shape(rng, shape), counter=4, user_handle=b"\x05\x06")
            add("scalar/%s/%s" % (kind, shape), store_kind=kind, content=[pk], config={"counter": True}, user={"script": [USER_OK] * 2},
                ops=[auth_op(rng, allow=[cid]), auth_op(rng, allow=[cid], cd=cd_mode(rng, 2), uv="required")])
    # origins whose host has punycode labels: the client data carries the origin as the caller gave it (ASCII serialisation)
    for tag, o, r in (("idn", "https://xn--bcher-kva.example", None), ("idn-sub", "https://login.xn--mnchen-3ya.example", "xn--mnchen-3ya.example"),
                      ("idn-port", "https://xn--bcher-kva.example:8443", "xn--bcher-kva.example")):
        for k in range(3):
            add("origin/%s/%d" % (tag, k), store_kind="ref", user={"script": [USER_OK] * 2},
                ops=[reg_op(rng, origin=o, rp_id=r, selection={"rk": "required", "uv": "preferred"}, cd=cd_mode(rng, k)), auth_op(rng, origin=o, rp_id=r, cd=cd_mode(rng, k))])
    # the insecure-localhost exception and extra client data that looks like another ceremony type's: origin as given, type webauthn.get
    for o in ("http://localhost:8080", "http://localhost"):
        add("localhost/%s" % o, store_kind="ref", user={"script": [USER_OK] * 2},
            ops=[reg_op(rng, origin=o, rp_id=None, allow_localhost=True, selection={"rk": "required", "uv": "preferred"}), auth_op(rng, origin=o, rp_id=None, allow_localhost=True)])
    add("extra/payment", store_kind="ref", user={"script": [USER_OK] * 2},
        ops=[reg_op(rng, selection={"rk": "required", "uv": "preferred"}), auth_op(rng, cd={"mode": "extra", "extra": {"payment": {"total": 5}, "n": 1}})])
    # no credential at all / for this RP, with and without consent
    for tag, script in [("consent", USER_OK), ("denied", {"presence": False, "verification": False}), ("uv-missing", {"presence": True, "verification": False}), ("err", {"err": 0x27})]:
        add("empty/" + tag, store_kind="ref", user={"script": [script]}, ops=[auth_op(rng, uv="required")])
        add("other-rp/" + tag, store_kind="ref", content=content[:2], user={"script": [script]}, ops=[auth_op(rng, origin="https://other.org", rp_id=None, uv="required")])
        add("present/" + tag, store_kind="ref", content=content, user={"script": [script]}, ops=[auth_op(rng, uv="required")])
    # presence without verification where verification is discouraged (UV clear) / preferred / required
    add("uv-clear", store_kind="ref", content=content, user={"script": [{"presence": True, "verification": False}]},
        ops=[auth_op(rng, uv="discouraged"), auth_op(rng, uv="discouraged", allow=[A2], cd=cd_mode(rng, 2)), auth_op(rng, uv="required"),
             reg_op(rng, selection={"rk": "required", "uv": "discouraged"}), auth_op(rng, uv="discouraged")])
    # the store answers NoCredentials instead of an empty list
    add("empty-is-err", store_kind="ref", empty_is_err=True, user={"script": [USER_OK]}, ops=[auth_op(rng), reg_op(rng), auth_op(rng)])
    # six operations over three RPs
    add("six", store_kind="ref", config={"counter": True}, user={"script": [USER_OK] * 6},
        ops=[reg_op(rng, selection={"rk": "required", "uv": "required"}, user_id=b"u1"), reg_op(rng, origin="https://other.org", rp_id=None, user_id=b"u2"),
             auth_op(rng), auth_op(rng, origin="https://other.org", rp_id=None), reg_op(rng, user_id=b"u3", selection={"rk": "required", "uv": "preferred"}),
             auth_op(rng, origin="https://a.b.other.org:9000", rp_id="other.org")])
    return scs, meta


def check(run):
    n = 230 if run.tier == "quick" else 3500
    d_scs, d_meta = directed(run)
    g_scs, g_meta = gen_histories(run, n)
    scenarios, outs, live, res = ceremony.standard_check(
        run, PROP, d_scs + g_scs, d_meta + g_meta, ["c03_ok"], py_oracle=history_oracle, client=True,
        extra_targets=["theories/Auth/C0203Check.vo"], extra_preamble=c02.EXTRA_PREAMBLE,
        coq_files=["theories/Auth/Authenticator.v", "theories/Auth/Client.v", "theories/Auth/C0203Check.v", "theories/Auth/C02Facts.v",
                   "theories/Auth/C03Facts.v", "theories/Auth/StoreFacts.v", "theories/Auth/C05Facts.v", "theories/Auth/History.v"],
        rule="WebAuthn-level histories through passkey_client::Client on contract-following stores: directed (register then authenticate x client-data "
             "mode x challenge length {0,1,31,32,33,1000} x uv requirement; allow lists absent / empty / hit / second entry / unknown / foreign RP; no "
             "credential with consent, denial, missing verification, user error; store answering NoCredentials; stored private scalars in every encoding: full, leading zero kept, 1/2/8 octets short, 23 octets, 33 octets, zero, group order, order-1, empty) plus random histories of 1-6 "
             "registrations and authentications over 1-3 RPs with initial content 0-3 credentials, counters on/off/at maximum",
        assumptions=["ECDSA is not modelled arithmetically: the theorems identify the signing key and the signed message; that real signatures verify under "
                     "the public key handed out at registration is checked on every observed assertion by driver/ceremony.py's verifier (own P-256 arithmetic)",
                     "'registered for that RP' is stated for stores that follow the documented lookup contract (C05); MemoryStore's recorded departures "
                     "(KNOWN_FINDINGS: ignores rp_id, id-less lookup) are outside this check's scenarios",
                     "CredentialNotFound is also required NOT to be reported while an eligible credential exists (the converse reading of the last sentence)"])
    n_auth = sum(1 for (_, _, op, obs, _) in live if op["op"] == "authenticate" and "ok" in obs["result"])
    run.cov["verified_signatures"] = n_auth
    run.cov["trusted_base"].append("driver/c03.py + driver/c02.py: Python relying-party oracle (json, base64, hashlib, own CBOR / authenticator-data reader, ECDSA verifier of ceremony.py)")
