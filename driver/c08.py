"""C08 - signature counters strictly increase and equal what the store holds."""
import json
import common, ceremony
from ceremony import *

PROP = "C08"
COQ_TARGETS = ceremony.COQ_TARGETS
HARNESS_BINS = ceremony.HARNESS_BINS
replay = ceremony.replay
MAXC = 2**32 - 1


def counter_oracle(sc, out):
    fails = []
    content = sc["store"]["content"]
    if sc["store"]["kind"] in ("option", "arc_mutex_option"):
        content = content[-1:]
    stored = {p["cred_id"]: p["counter"] for p in content}
    last_report = {}
    dirty = set()     # credentials with a failed assertion since their last successful one
    for op, obs in zip(sc["ops"], out["ops"]):
        res = obs["result"]
        after = {p["cred_id"]: p["counter"] for p in obs["store_after"]}
        if op["op"] == "make_credential" and "ok" in res:
            cid = res["ok"]["auth_data"]["acd"]["cred_id"]
            want = 0 if sc["config"].get("counter") else None
            if res["ok"]["auth_data"]["counter"] != want or after.get(cid, "missing") != want:
                fails.append("registration must report/store counter %s, got report %s store %s" % (want, res["ok"]["auth_data"]["counter"], after.get(cid, "missing")))
            last_report.pop(cid, None)
        elif op["op"] == "get_assertion":
            if "ok" in res:
                cid = res["ok"]["cred_id"]
                rep = res["ok"]["auth_data"]["counter"]
                prev = stored.get(cid)
                if prev is None:
                    if rep is not None or after.get(cid) is not None or any(e["c"] == "update" for e in obs["log"]):
                        fails.append("credential without a counter must report zero and never be rewritten")
                else:
                    want = prev + 1 if prev < MAXC else MAXC
                    if rep != want:
                        fails.append("assertion reported counter %s, the store held %s" % (rep, prev))
                    if after.get(cid) != rep:
                        fails.append("reported counter %s differs from the value then held in the store %s" % (rep, after.get(cid)))
                    if rep < prev:
                        fails.append("counter wrapped to a smaller value")
                    if cid in last_report and cid not in dirty and prev < MAXC and rep != last_report[cid] + 1:
                        fails.append("consecutive successful assertions differ by %s" % (rep - last_report[cid]))
                    last_report[cid] = rep
                dirty.discard(cid)
            else:
                for cid in after:
                    if after[cid] != stored.get(cid):
                        dirty.add(cid)
            for cid, v in after.items():
                if cid in stored and stored[cid] is not None and (v is None or v < stored[cid]):
                    fails.append("a stored counter decreased")
        stored = after
    return fails


def counter_histories(run, n):
    rng = run.rng
    scs = []
    starts = [0, 1, 2**31 - 1, 2**31, 2**32 - 2, 2**32 - 1, None]
    for i in range(n):
        kind = rng.choice(["ref", "memory", "arc_mutex_memory", "arc_rwlock_memory"])
        creds = [mk_passkey(rng, "example.com", cred_id=bytes([0xA0 + j]) * 16, counter=rng.choice(starts), keyidx=j,
                            hmac=(b"\x05" * 32, b"\x06" * 32)) for j in range(rng.randrange(1, 4))]
        ops = []
        for _ in range(rng.randrange(2, 8)):
            if rng.random() < 0.15:
                ops.append({"op": "make_credential", "req": mc_req(rng, rk=True)})
            else:
                c = rng.choice(creds)
                ext = prf_ext_ga(first=b"\x07" * 32) if rng.random() < 0.3 else None
                ops.append({"op": "get_assertion", "req": ga_req(rng, allow=[bytes.fromhex(c["cred_id"])], uv=rng.random() < 0.5, ext=ext)})
        script = [rng.choice([{"presence": True, "verification": True}] * 8 + [{"presence": False, "verification": False}]) for _ in ops]
        # every fourth history: the store refuses one call (any lookup, save or counter update of the history) with some status;
        # "equal to the value then held in the store" must survive a refused write
        faults = None
        if i % 4 == 3:
            faults = [{"at": rng.randrange(0, 2 * len(ops)), "code": rng.choice([0x01, 0x28, 0x2E, 0x7F, 0xF0])}]
        scs.append(scenario(store_kind=kind, content=creds, config={"counter": rng.random() < 0.7, "hmac": rng.choice([None, {"without_uv": False, "on_mc": False}])},
                            user={"script": script}, ops=ops, faults=faults))
    return scs


def check(run):
    n = 200 if run.tier == "quick" else 3000
    scenarios = counter_histories(run, n) + [gen_history(run.rng, run.tier, max_ops=6) for _ in range(n // 2)]
    scenarios, outs, live, res = ceremony.standard_check(
        run, PROP, scenarios, [history_meta(s) for s in scenarios], ["store_ok"],
        # the counter that is reported is the one inside the SIGNED authenticator data: the signature is verified over the
        # returned bytes (independent ECDSA), so a counter patched into the response after signing is seen
        py_oracle=lambda sc, out: counter_oracle(sc, out) + ceremony.signature_oracle(sc, out),
        coq_files=["theories/Auth/Authenticator.v", "theories/Auth/StoreFacts.v", "theories/Auth/History.v"],
        rule="histories of 2-7 assertions interleaved over 1-3 credentials with and without counters, start values "
             "{0, 1, 2^31-1, 2^31, 2^32-2, 2^32-1, none}, with and without extension requests, some failing assertions and registrations, "
             "every fourth history with one store call refused (fault injection at a random call index, 5 status codes); "
             "run on the release AND the debug (overflow-checking) build of the implementation")
    # the same scenarios on the overflow-checking profile
    dbg = common.harness_build("ceremony", profile="debug")
    outs_dbg = ceremony.run_scenarios(dbg, scenarios)
    n_dbg_fail = 0
    for sc, out in zip(scenarios, outs_dbg):
        if "ops" not in out:
            run.violation({"kind": "debug (overflow-checking) build: ceremony panicked or crashed", "scenario": sc, "observed": out}); n_dbg_fail += 1
            continue
        for msg in counter_oracle(sc, out):
            run.violation({"kind": "debug build, independent oracle: " + msg, "scenario": sc, "observed": out}); n_dbg_fail += 1
    run.cov["debug_profile_scenarios"] = len(outs_dbg)
    run.cov["debug_profile_failures"] = n_dbg_fail
