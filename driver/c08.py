"""C08 - signature counters strictly increase and equal what the store holds."""
import json, base64
import common, ceremony
from ceremony import *

PROP = "C08"
COQ_TARGETS = ceremony.COQ_TARGETS + list(ceremony.WCOQ_TARGETS)
HARNESS_BINS = ceremony.HARNESS_BINS
replay = ceremony.replay
MAXC = 2**32 - 1


def counter_oracle(sc, out):
    fails = []
    content = sc["store"]["content"]
    if sc["store"]["kind"] in ("option", "arc_mutex_option"):
        content = content[-1:]
    stored = {p["cred_id"]: p["counter"] for p in content}
    last_report = {}
    dirty = set()     # credentials with a failed assertion since their last successful one
    for op, obs in zip(sc["ops"], out["ops"]):
        res = obs["result"]
        after = {p["cred_id"]: p["counter"] for p in obs["store_after"]}
        if op["op"] == "make_credential" and "ok" in res:
            cid = res["ok"]["auth_data"]["acd"]["cred_id"]
            want = 0 if sc["config"].get("counter") else None
            if res["ok"]["auth_data"]["counter"] != want or after.get(cid, "missing") != want:
                fails.append("registration must report/store counter %s, got report %s store %s" % (want, res["ok"]["auth_data"]["counter"], after.get(cid, "missing")))
            last_report.pop(cid, None)
        elif op["op"] == "get_assertion":
            if "ok" in res:
                cid = res["ok"]["cred_id"]
                rep = res["ok"]["auth_data"]["counter"]
                prev = stored.get(cid)
                if prev is None:
                    if rep is not None or after.get(cid) is not None or any(e["c"] == "update" for e in obs["log"]):
                        fails.append("credential without a counter must report zero and never be rewritten")
                else:
                    want = prev + 1 if prev < MAXC else MAXC
                    if rep != want:
                        fails.append("assertion reported counter %s, the store held %s" % (rep, prev))
                    if after.get(cid) != rep:
                        fails.append("reported counter %s differs from the value then held in the store %s" % (rep, after.get(cid)))
                    if rep < prev:
                        fails.append("counter wrapped to a smaller value")
                    if cid in last_report and cid not in dirty and prev < MAXC and rep != last_report[cid] + 1:
                        fails.append("consecutive successful assertions differ by %s" % (rep - last_report[cid]))
                    last_report[cid] = rep
                dirty.discard(cid)
            else:
                for cid in after:
                    if after[cid] != stored.get(cid):
                        dirty.add(cid)
            for cid, v in after.items():
                if cid in stored and stored[cid] is not None and (v is None or v < stored[cid]):
                    fails.append("a stored counter decreased")
        stored = after
    return fails


def counter_histories(run, n):
    rng = run.rng
    scs = []
    starts = [0, 1, 2**31 - 1, 2**31, 2**32 - 2, 2**32 - 1, None]
    for i in range(n):
        kind = rng.choice(["ref", "memory", "arc_mutex_memory", "arc_rwlock_memory"])
        creds = [mk_passkey(rng, "example.com", cred_id=bytes([0xA0 + j]) * 16, counter=rng.choice(starts), keyidx=j,
                            hmac=(b"\x05" * 32, b"\x06" * 32)) for j in range(rng.randrange(1, 4))]
        ops = []
        for _ in range(rng.randrange(2, 8)):
            if rng.random() < 0.15:
                ops.append({"op": "make_credential", "req": mc_req(rng, rk=True)})
            else:
                c = rng.choice(creds)
                ext = prf_ext_ga(first=b"\x07" * 32) if rng.random() < 0.3 else None
                ops.append({"op": "get_assertion", "req": ga_req(rng, allow=[bytes.fromhex(c["cred_id"])], uv=rng.random() < 0.5, ext=ext)})
        script = [rng.choice([{"presence": True, "verification": True}] * 8 + [{"presence": False, "verification": False}]) for _ in ops]
        # every fourth history: the store refuses one call (any lookup, save or counter update of the history) with some status;
        # "equal to the value then held in the store" must survive a refused write
        faults = None
        if i % 4 == 3:
            faults = [{"at": rng.randrange(0, 2 * len(ops)), "code": rng.choice([0x01, 0x28, 0x2E, 0x7F, 0xF0])}]
        scs.append(scenario(store_kind=kind, content=creds, config={"counter": rng.random() < 0.7, "hmac": rng.choice([None, {"without_uv": False, "on_mc": False}])},
                            user={"script": script}, ops=ops, faults=faults))
    return scs


def client_level(run):
    """the WebAuthn entry point (Client::authenticate): one ceremony moves the selected credential's counter by exactly one
    (failed ceremonies: by at most one), the value reported inside the signed authenticator data is previous+1 and equals the
    stored value afterwards - with and without the prf extension requested, on credentials with and without hmac-secret, on
    authenticators with and without the extension."""
    rng = run.rng
    scs = []
    ids = [bytes([0x81]) * 16, bytes([0x82]) * 16, bytes([0x83]) * 16]
    for kind in ("ref", "memory", "arc_mutex_ref"):
        for hm in (None, {"without_uv": True, "on_mc": True}):
            for start in (0, 1, 9000, 2**32 - 3):
                content = [mk_passkey(rng, "example.com", cred_id=ids[0], counter=start, keyidx=0, hmac=None),
                           mk_passkey(rng, "example.com", cred_id=ids[1], counter=start, keyidx=1, hmac=(b"\x11" * 32, b"\x12" * 32)),
                           mk_passkey(rng, "example.com", cred_id=ids[2], counter=None, keyidx=2, hmac=None)]
                prf = wext(prf=((b"\x01" * 8, None), None))
                prf_by = wext(prf=(None, [(base64.urlsafe_b64encode(ids[1]).rstrip(b"=").decode(), b"\x02" * 4, b"\x03")]))
                ops = [auth_op(rng, allow=[ids[0]]), auth_op(rng, allow=[ids[0]], ext=prf), auth_op(rng, allow=[ids[0]], ext=prf, uv="required"),
                       auth_op(rng, allow=[ids[1]], ext=prf), auth_op(rng, allow=[ids[1]], ext=prf_by), auth_op(rng, allow=[ids[0]]),
                       auth_op(rng, allow=[ids[2]], ext=prf), auth_op(rng, allow=[ids[1]])]
                scs.append(client_scenario(store_kind=kind, content=content, config={"counter": True, "hmac": hm},
                                           user={"script": [{"presence": True, "verification": True}] * len(ops)}, ops=ops))
    binary = common.harness_build("ceremony")
    outs = ceremony.run_scenarios(binary, scs)
    fails, n_ok, n_err = [], 0, 0
    for sc, out in zip(scs, outs):
        if "ops" not in out:
            fails.append((sc, out, "the client ceremony crashed the process")); continue
        before = {p["cred_id"]: p["counter"] for p in sc["store"]["content"]}
        for op, obs in zip(sc["ops"], out["ops"]):
            after = {p["cred_id"]: p["counter"] for p in obs["store_after"]}
            res, why = obs["result"], None
            sel = op["req"]["allow"][0]
            for cid in before:
                if cid != sel and after.get(cid) != before[cid]:
                    why = "the counter of credential %s, which is not the selected one, moved from %s to %s" % (cid, before[cid], after.get(cid))
            b, a = before[sel], after.get(sel)
            if "ok" in res:
                n_ok += 1
                reported = int.from_bytes(bytes.fromhex(res["ok"]["auth_data"])[33:37], "big")
                if b is None:
                    if reported != 0 or a is not None: why = why or "a credential without a counter reported %d / stores %s" % (reported, a)
                else:
                    want = min(b + 1, 2**32 - 1)
                    if reported != want: why = why or "a successful authentication reported counter %d, the credential held %d before (expected %d)" % (reported, b, want)
                    elif a != reported: why = why or "reported counter %d but the store holds %s afterwards" % (reported, a)
            else:
                n_err += 1
                if b is not None and a not in (b, min(b + 1, 2**32 - 1)):
                    why = why or "a failed authentication moved the counter from %d to %s" % (b, a)
                if b is None and a is not None:
                    why = why or "a failed authentication gave a counter (%s) to a credential that had none" % a
            if why:
                fails.append((sc, obs, why))
            before = after
    for sc, obs, why in fails[:3]:
        run.violation({"kind": "client level: " + why, "scenario": sc, "observed": obs})
    common.coq_build(list(ceremony.WCOQ_TARGETS))
    flat = [x for x in ceremony.wcases_of(scs, outs) if x[4] is not None]
    res = common.coq_eval(PROP + "-client", ceremony.WPREAMBLE, [t for *_, t in flat], ["wagree"], shard=60)
    if not fails and res["wagree"]:
        si, oi, op, obs, t = flat[res["wagree"][0]]
        run.violation({"kind": "client model and implementation disagree; the client-level counter oracle is true on all %d observations" % len(flat),
                       "broken": "correspondence ceremony/%s (Auth.ClientCheck.wagree)" % op["op"], "scenario": scs[si], "observed": obs}, found_input=False)
    run.cov["client_level"] = {"scenarios": len(scs), "successful_authentications": n_ok, "failed_authentications": n_err, "oracle_failures": len(fails),
                               "model_disagreements": len(res["wagree"]),
                               "rule": "Client::authenticate x store kind x hmac-secret configured or not x start counter {0,1,9000,2^32-3} x 8 ceremonies "
                                       "(prf requested or not, credential with / without hmac-secret, with / without counter)"}


def check(run):
    n = 200 if run.tier == "quick" else 3000
    scenarios = counter_histories(run, n) + [gen_history(run.rng, run.tier, max_ops=6) for _ in range(n // 2)]
    scenarios, outs, live, res = ceremony.standard_check(
        run, PROP, scenarios, [history_meta(s) for s in scenarios], ["store_ok"],
        # the counter that is reported is the one inside the SIGNED authenticator data: the signature is verified over the
        # returned bytes (independent ECDSA), so a counter patched into the response after signing is seen
        py_oracle=lambda sc, out: counter_oracle(sc, out) + ceremony.signature_oracle(sc, out),
        coq_files=["theories/Auth/Authenticator.v", "theories/Auth/StoreFacts.v", "theories/Auth/History.v"],
        rule="histories of 2-7 assertions interleaved over 1-3 credentials with and without counters, start values "
             "{0, 1, 2^31-1, 2^31, 2^32-2, 2^32-1, none}, with and without extension requests, some failing assertions and registrations, "
             "every fourth history with one store call refused (fault injection at a random call index, 5 status codes); "
             "run on the release AND the debug (overflow-checking) build of the implementation")
    # the same scenarios on the overflow-checking profile
    dbg = common.harness_build("ceremony", profile="debug")
    outs_dbg = ceremony.run_scenarios(dbg, scenarios)
    n_dbg_fail = 0
    for sc, out in zip(scenarios, outs_dbg):
        if "ops" not in out:
            run.violation({"kind": "debug (overflow-checking) build: ceremony panicked or crashed", "scenario": sc, "observed": out}); n_dbg_fail += 1
            continue
        for msg in counter_oracle(sc, out):
            run.violation({"kind": "debug build, independent oracle: " + msg, "scenario": sc, "observed": out}); n_dbg_fail += 1
    client_level(run)
    run.cov["debug_profile_scenarios"] = len(outs_dbg)
    run.cov["debug_profile_failures"] = n_dbg_fail
