"""C17 - U2F messages well-formed and verifiable: the raw-message wire layer
(passkey-types/src/u2f.rs, u2f/{commands,register,authenticate,version}.rs).

Also exposes `u2f_robust_cases(run)` / `check_u2f_robust(run)` for the C15 driver: the no-panic and
bounded-allocation correspondence of the U2F parsers."""
import json, os
import common
from common import blit

PROP = "C17"
PREAMBLE = "From PK Require Import Lib.Bytes Lib.Check Wire.U2fWire Wire.U2fCheck.\nOpen Scope N_scope.\n"
import c17cer
COQ_TARGETS = ["theories/Wire/U2fCheck.vo", "theories/Wire/U2fWireFacts.vo"] + c17cer.COQ_TARGETS
HARNESS_BINS = ["u2fwire"] + c17cer.HARNESS_BINS
COQ_FILES = ["theories/Wire/U2fWire.v", "theories/Wire/U2fWireFacts.v", "theories/Props/C17.v"] + c17cer.COQ_FILES
CTRL = (3, 7, 8)
FLAG_BITS = 0xDD          # defined bits of passkey_types::ctap2::Flags


# ---------------------------------------------------------------------------------------------
# an encoder of request frames written from the FIDO U2F raw message format (independent of
# both the Rust code, which has none, and the Coq specification encoder)

def frame(ins, p1, data, le=b"", cla=0, p2=0, marker=0, lc=None):
    lc = len(data) if lc is None else lc
    return bytes([cla, ins, p1, p2, marker, (lc >> 8) & 0xFF, lc & 0xFF]) + bytes(data) + bytes(le)


def rb(rng, n):
    return bytes(rng.randrange(256) for _ in range(n))


def field32(rng):
    s = rng.randrange(4)
    if s == 0: return rb(rng, 32)
    if s == 1: return bytes(range(32))
    if s == 2: return bytes([0xFF]) * 32
    return bytes(rng.choice([0, 3, 7, 8, 64, 65, 255]) for _ in range(32))


def auth_payload(rng, khlen, declared=None):
    kh = rb(rng, khlen)
    return field32(rng) + field32(rng) + bytes([khlen if declared is None else declared]) + kh


def le_variants(rng):
    return [b"", b"\x00\x00", bytes([rng.randrange(256), rng.randrange(256)])]


def gen_wellformed(run):
    """~1k (quick) strictly laid out frames of the three commands."""
    rng, out = run.rng, []
    big = run.tier != "quick"
    khlens = [0, 1, 16, 64, 255]
    # authenticate: every listed key-handle length x control byte x Le variant
    for khlen in khlens + ([2, 31, 32, 33, 63, 65, 127, 128, 200, 254] if big else []):
        for p1 in CTRL:
            for le in le_variants(rng):
                out.append(frame(2, p1, auth_payload(rng, khlen), le))
    lens = range(256) if big else [rng.randrange(0, 90) if rng.random() < 0.85 else rng.randrange(90, 256) for _ in range(560)]
    for khlen in lens:
        for _ in range(6 if big else 1):
            out.append(frame(2, rng.choice(CTRL), auth_payload(rng, khlen), rng.choice(le_variants(rng))))
    # register: P1 is not interpreted by the format (0, or 3 with some clients)
    for i in range(2400 if big else 240):
        p1 = 0 if i % 3 else rng.choice([0, 3, 0x80, rng.randrange(256)])
        out.append(frame(1, p1, field32(rng) + field32(rng), rng.choice(le_variants(rng))))
    # version
    for i in range(600 if big else 120):
        p1 = 0 if i % 4 else rng.randrange(256)
        out.append(frame(3, p1, b"", le_variants(rng)[i % 3]))
    return out


def gen_malformed(run):
    """~2k (quick) frames off the format: truncations, wrong header bytes, lying lengths, random."""
    rng, out = run.rng, []
    big = run.tier != "quick"
    valid = [frame(1, 0, field32(rng) + field32(rng)),
             frame(2, 3, auth_payload(rng, 16), b"\x00\x00"),
             frame(2, 7, auth_payload(rng, 0)),
             frame(3, 0, b"", b"\x00\x00")]
    if big:
        valid += [frame(2, 8, auth_payload(rng, 255), b"\x01\x00"), frame(2, 8, auth_payload(rng, 64))]
    # every truncation and a few extensions of valid frames
    for v in valid:
        for n in range(len(v)):
            out.append(v[:n])
        for extra in (1, 2, 3, 4, 9):
            out.append(v + rb(rng, extra))
    reg, auth, ver = valid[0], valid[1], valid[3]
    # CLA, INS, P1, P2, marker: every byte value in each position of a valid authenticate frame,
    # INS and P1 also on the other commands
    for b in range(256):
        for pos in (0, 1, 2, 3, 4):
            if big or pos in (1, 2) or b < 8 or b % 17 == 0 or b > 250:
                f = bytearray(auth); f[pos] = b; out.append(bytes(f))
        if big or b < 6 or b % 23 == 0:
            for base in (reg, ver):
                f = bytearray(base); f[2] = b; out.append(bytes(f))
                f = bytearray(base); f[0] = b; out.append(bytes(f))
    # declared length larger / smaller than what follows; u32 extremes in the four length bytes
    for base in (reg, auth, ver, valid[2]):
        have = len(base) - 7
        for lc in sorted(v for v in {0, 1, have - 1, have + 1, have + 2, have + 3, 63, 64, 65, 66, 255, 256, 0xFFFF} if v >= 0):
            f = bytearray(base); f[5], f[6] = (lc >> 8) & 0xFF, lc & 0xFF; out.append(bytes(f))
        for four in ("ffffffff", "7fffffff", "80000000", "0000ffff", "00010000", "00ffffff", "01000000",
                     "fffffff9", "fffffff8", "000000ff", "ff000000", "00000000"):
            f = bytearray(base); f[3:7] = bytes.fromhex(four); out.append(bytes(f))
    # payloads of the wrong size behind a truthful length
    for n in list(range(0, 70)) + [127, 128, 129, 200]:
        if big or n % 3 == 0 or 60 <= n <= 68:
            out.append(frame(1, 0, rb(rng, n)))
            out.append(frame(2, rng.choice(CTRL), rb(rng, n)))
            out.append(frame(3, 0, rb(rng, n)))
    # key-handle length byte against the bytes that follow it (short: error; long: slack ignored)
    for khlen in (0, 1, 5, 16, 64, 200, 255):
        for declared in sorted(d for d in {0, 1, khlen - 1, khlen + 1, khlen + 2, 255} if 0 <= d <= 255 and d != khlen):
            out.append(frame(2, rng.choice(CTRL), auth_payload(rng, khlen, declared), rng.choice([b"", b"\x00\x00"])))
    # control byte outside the specification with a perfect payload (the guarded path)
    for p1 in (0, 1, 2, 4, 5, 6, 9, 0x0B, 0x80, 0xFF):
        out.append(frame(2, p1, auth_payload(rng, rng.choice([0, 7, 32]))))
    # random byte strings, and random strings behind a plausible header
    for _ in range(20000 if big else 850):
        r = rng.random()
        n = rng.randrange(0, 12) if r < 0.3 else rng.randrange(12, 120) if r < 0.9 else rng.randrange(120, 400)
        s = bytearray(rb(rng, n))
        if n >= 7 and rng.random() < 0.7:
            s[0] = 0 if rng.random() < 0.9 else rng.randrange(256)
            s[1] = rng.choice([1, 2, 3, 3, 2, 1, rng.randrange(256)])
            s[2] = rng.choice([0, 3, 7, 8, rng.randrange(256)])
            s[3] = 0 if rng.random() < 0.9 else rng.randrange(256)
            s[4] = 0 if rng.random() < 0.9 else rng.randrange(256)
            s[5] = 0 if rng.random() < 0.8 else rng.randrange(2)
            s[6] = rng.choice([n - 7, n - 9, 64, 65, rng.randrange(256)]) & 0xFF
            if s[1] == 2 and n > 72 and rng.random() < 0.6:
                s[71] = max(0, min(255, n - 72 - rng.choice([0, 0, 2, 1, 5])))
        out.append(bytes(s))
    return out


def gen_direct(run):
    """the public payload parsers called directly"""
    rng, cases = run.rng, []
    big = run.tier != "quick"
    for n in list(range(0, 70)) + [96, 127, 128, 129, 255, 256]:
        cases.append({"op": "reg", "payload": rb(rng, n).hex()})
    for n in list(range(0, 70)) + [80, 100, 320, 321]:
        for p1 in (CTRL if (big or n % 4 == 0 or 62 <= n <= 67) else (rng.choice(CTRL),)):
            p = bytearray(rb(rng, n))
            if n > 64 and rng.random() < 0.7:
                p[64] = max(0, min(255, n - 65 - rng.choice([0, 0, 0, 1, 3])))
            cases.append({"op": "auth", "payload": bytes(p).hex(), "p1": p1})
    for khlen in (0, 1, 16, 64, 255):
        for p1 in CTRL:
            cases.append({"op": "auth", "payload": auth_payload(rng, khlen).hex(), "p1": p1})
        cases.append({"op": "auth", "payload": (auth_payload(rng, khlen) + rb(rng, 3)).hex(), "p1": 3})
    # parameter bytes outside {3,7,8}: error on a short payload, the known panic on a laid out one
    for p1 in (range(256) if big else [0, 1, 2, 4, 5, 6, 9, 10, 11, 0x0F, 0x80, 0xFE, 0xFF]):
        if p1 in CTRL: continue
        cases.append({"op": "auth", "payload": auth_payload(rng, rng.choice([0, 4])).hex(), "p1": p1})
        cases.append({"op": "auth", "payload": rb(rng, rng.choice([0, 31, 64])).hex(), "p1": p1})
        cases.append({"op": "auth", "payload": auth_payload(rng, 4, declared=9).hex(), "p1": p1})
    return cases


def gen_encodings(run):
    rng, cases = run.rng, []
    big = run.tier != "quick"
    khlens = [0, 1, 16, 64, 255, 256, 257, 300, 511, 512] + [rng.randrange(0, 256) for _ in range(300 if big else 60)]
    for i, khlen in enumerate(khlens):
        certlen = rng.choice([0, 1, 32, 200, 333, 600]) if i % 2 else rng.randrange(0, 400)
        siglen = rng.choice([0, 8, 64, 70, 71, 72])
        x, y = rb(rng, 32), rb(rng, 32)
        if i % 7 == 0: x, y = bytes([4]) * 32, bytes([5]) * 32    # values that look like the magic bytes
        cases.append({"op": "enc_reg", "x": x.hex(), "y": y.hex(), "kh": rb(rng, khlen).hex(),
                      "cert": rb(rng, certlen).hex(), "sig": rb(rng, siglen).hex()})
    counters = [0, 1, 2, 255, 256, 257, 65535, 65536, 0x01020304, 0x04030201, 0x00FF00FF, 0xFF00FF00,
                2 ** 24, 2 ** 31 - 1, 2 ** 31, 2 ** 32 - 2, 2 ** 32 - 1]
    counters += [rng.randrange(2 ** 32) for _ in range(1000 if big else 140)]
    flag_sets = [f for f in range(256) if f & ~FLAG_BITS == 0]
    for i, c in enumerate(counters):
        fl = [0, 1, 5, 0x1D][i % 4] if i < 24 else rng.choice(flag_sets)
        cases.append({"op": "enc_auth", "flags": fl, "counter": c,
                      "sig": rb(rng, rng.choice([0, 1, 8, 64, 70, 71, 72])).hex()})
    cases.append({"op": "enc_version"})
    cases.append({"op": "status"})
    return cases


# ---------------------------------------------------------------------------------------------
# observation -> Coq term

def _h(o, k):
    return blit(bytes.fromhex(o[k]))


def _allocs(o):
    a = o.get("allocs") or {"count": 0, "max": 0}
    return "(%d, %d)" % (a["count"], a["max"])


def term(case, o):
    """Coq term of type ucase for a harness case and its observation; None if the process crashed."""
    if o.get("crash"):
        return None
    op = case["op"]
    pan = bool(o.get("panic"))
    if op == "parse":
        if pan: impl = "PPanic"
        elif "err" in o: impl = "(PErr %d)" % o["err"]
        else:
            r = o["ok"]; d = r["data"]
            if d["t"] == "register":
                pl = "(ORegister %s %s)" % (_h(d["v"], "challenge"), _h(d["v"], "application"))
            elif d["t"] == "authenticate":
                v = d["v"]
                pl = "(OAuthenticate %d %s %s %s)" % (v["parameter"], _h(v, "challenge"), _h(v, "application"), _h(v, "key_handle"))
            else:
                pl = "OVersion"
            impl = "(PVal %d %d %d %d %s)" % (r["cla"], r["ins"], r["p1"], r["data_len"], pl)
        return "CParse %s %s %s" % (blit(bytes.fromhex(case["bytes"])), impl, _allocs(o))
    if op == "auth":
        if pan: impl = "APanic"
        elif "err" in o: impl = "AErr"
        else:
            v = o["ok"]
            impl = "(AVal %d %s %s %s)" % (v["parameter"], _h(v, "challenge"), _h(v, "application"), _h(v, "key_handle"))
        return "CAuth %s %d %s %s" % (blit(bytes.fromhex(case["payload"])), case["p1"], impl, _allocs(o))
    if op == "reg":
        if pan: impl = "RPanic"
        elif "err" in o: impl = "RErr"
        else: impl = "(RVal %s %s)" % (_h(o["ok"], "challenge"), _h(o["ok"], "application"))
        return "CReg %s %s %s" % (blit(bytes.fromhex(case["payload"])), impl, _allocs(o))
    if pan:
        return None        # the encoders cannot panic; reported as a crash by the caller
    if op == "enc_reg":
        return "CEncReg %s %s %s %s %s %s" % tuple([_h(case, k) for k in ("x", "y", "kh", "cert", "sig")] + [_h(o, "bytes")])
    if op == "enc_auth":
        return "CEncAuth %d %d %s %s" % (case["flags"], case["counter"], _h(case, "sig"), _h(o, "bytes"))
    if op == "enc_version":
        return "CEncVersion %s" % _h(o, "bytes")
    if op == "status":
        return "CStatus [%s]" % "; ".join(str(v) for v in o["values"])
    raise common.Tie("unknown u2fwire op %r" % op)


def signature(case, o):
    """which branch of the model / which shape of input a case exercises (for the evidence)"""
    op = case["op"]
    if o.get("panic"): out = "panic"
    elif "err" in o: out = "err%s" % o["err"]
    else: out = "ok"
    def bucket(n):
        for b in (0, 1, 6, 7, 16, 32, 64, 65, 71, 72, 128, 255, 256, 400):
            if n <= b: return b
        return 1 << 20
    if op == "parse":
        f = bytes.fromhex(case["bytes"])
        if len(f) < 7:
            return (op, "short", len(f), out)
        dl = int.from_bytes(f[3:7], "big")
        rel = "eq" if dl == len(f) - 7 else "le2" if dl == len(f) - 9 else "slack" if dl < len(f) - 7 else "over"
        kh = None
        if "ok" in o and o["ok"]["data"]["t"] == "authenticate":
            kh = bucket(len(o["ok"]["data"]["v"]["key_handle"]) // 2)
        return (op, f[0] == 0, f[1] if f[1] < 5 else "x", f[2] if f[2] in CTRL else "o", f[3] == 0, f[4] == 0,
                rel, bucket(min(dl, 1 << 19)), kh, out)
    if op in ("auth", "reg"):
        p = bytes.fromhex(case["payload"])
        hl = p[64] if len(p) > 64 else None
        fit = None if hl is None else ("eq" if 65 + hl == len(p) else "slack" if 65 + hl < len(p) else "over")
        return (op, bucket(len(p)), case.get("p1") in CTRL if op == "auth" else None, fit, out)
    if op == "enc_reg":
        return (op, bucket(len(case["kh"]) // 2), bucket(len(case["cert"]) // 2), len(case["sig"]) // 2)
    if op == "enc_auth":
        return (op, case["flags"], bucket(case["counter"].bit_length()), len(case["sig"]) // 2)
    return (op,)


# ---------------------------------------------------------------------------------------------

def corpus():
    d = os.path.join(common.VERIF, "corpus", PROP)
    out = []
    if os.path.isdir(d):
        for f in sorted(os.listdir(d)):
            if f.endswith(".json"):
                c = json.load(open(os.path.join(d, f)))
                out.append(c.get("case", c))
    return out


def case_size(c):
    return sum(len(c[k]) for k in ("bytes", "payload", "x", "y", "kh", "cert", "sig") if k in c)


def evaluate(run, binary, cases, funcs, tag):
    """harness + Coq evaluation of `funcs` on `cases`; returns (terms, kept cases/obs, results, crashed)"""
    outs = common.harness_run(binary, cases)
    terms, kept, crashed = [], [], []
    for c, o in zip(cases, outs):
        t = term(c, o)
        if t is None:
            crashed.append((c, o))
        else:
            terms.append(t); kept.append((c, o))
    res = common.coq_eval(tag, PREAMBLE, terms, funcs, shard=250, shard_chars=120000) if terms else {f: [] for f in funcs}
    return terms, kept, res, crashed


def smallest(idx, kept):
    return min(idx, key=lambda i: case_size(kept[i][0]))


def model_view(t):
    return common.coq_show(PROP, PREAMBLE,
        "match (%s) with CParse i _ _ => (Some (request_to_obs (request_try_from i)), None, None, @nil N) "
        "| CAuth d p _ _ => (None, Some (auth_to_obs (authentication_request_try_from d p)), None, []) "
        "| CReg d _ _ => (None, None, Some (reg_to_obs (register_request_try_from d)), []) "
        "| CEncReg x y k c s _ => (None, None, None, register_response_encode (RegResp (PubKey x y) k c s)) "
        "| CEncAuth p c s _ => (None, None, None, authentication_response_encode (AuthResp p c s)) "
        "| CEncVersion _ => (None, None, None, version_encode) "
        "| CStatus _ => (None, None, None, map sw_value all_status_words) end" % t) if len(t) < 20000 else "(large)"


def check(run):
    bad = common.hygiene_gate()
    if bad:
        raise common.Tie("hygiene gate: " + "; ".join(bad))
    common.coq_build(COQ_TARGETS)
    thms, assum = common.props_check(PROP)
    coqchk = "not run (quick tier)"
    if run.tier != "quick":
        with common.Lock("coq", shared=True):
            rc, out = common.sh(["coqchk", "-silent", "-o", "-Q", "theories", "PK", "PK.Props.C17"], cwd=common.COQ, timeout=1800)
        if rc != 0 or "Axioms: <none>" not in out:
            raise common.Tie("coqchk does not accept the compiled closure of Props/C17 without axioms", out[-2000:])
        coqchk = "coqchk -o: accepted, Axioms: <none>"
    binary = common.harness_build("u2fwire")

    wf = [{"op": "parse", "bytes": f.hex()} for f in gen_wellformed(run)]
    mal = [{"op": "parse", "bytes": f.hex()} for f in gen_malformed(run)]
    direct = gen_direct(run)
    enc = gen_encodings(run)
    cases = corpus() + wf + mal + direct + enc
    terms, kept, res, crashed = evaluate(run, binary, cases, ["agree", "oracle"], PROP)

    # ---- verdict
    for c, o in crashed[:3]:
        run.violation({"kind": "the implementation crashed or an encoder panicked", "case": c, "observed": o})
    if res["oracle"]:
        i = smallest(res["oracle"], kept)
        c, o = kept[i]
        run.violation({"kind": "property oracle false on the implementation's observation (%s)" % c["op"],
                       "case": c, "observed": o, "model": model_view(terms[i]),
                       "others": len(res["oracle"]) - 1})
    if not res["oracle"] and not crashed and res["agree"]:
        i = smallest(res["agree"], kept)
        c, o = kept[i]
        run.violation({"kind": "model and implementation disagree (%s); oracle true on all %d cases of this run" % (c["op"], len(terms)),
                       "broken": "correspondence u2fwire/%s (Wire.U2fCheck.agree)" % c["op"],
                       "case": c, "observed": o, "model": model_view(terms[i]), "others": len(res["agree"]) - 1},
                      found_input=False)

    # ---- ceremony half: U2fApi::register / authenticate against Auth/U2f.v and the independent signature oracle
    cer = c17cer.check_ceremony(run)

    # ---- evidence
    n_lem = common.count_lemmas(COQ_FILES)
    sigs = set(signature(c, o) for c, o in kept)
    hist = {}
    for c, o in kept:
        k = c["op"] + ":" + ("panic" if o.get("panic") else ("err%s" % o["err"]) if "err" in o else "ok")
        hist[k] = hist.get(k, 0) + 1
    wf_ids = set(id(c) for c in wf)
    accepted_wf = sum(1 for c, o in kept if id(c) in wf_ids and "ok" in o)
    known = [c for c, o in kept if c["op"] == "auth" and o.get("panic") and c["p1"] not in CTRL]
    iso_version = common.harness_one(binary, {"op": "parse", "bytes": "00030000000006"})
    run.cov.update({
        "obligations": n_lem, "discharged": n_lem,
        "checker_cmd": "make -C coq theories/Props/C17.vo (coqc 8.16.1, full .vo build) + hygiene gate + Print Assumptions",
        "trusted_base": ["Coq 8.16.1 kernel, vm_compute",
                         "hand-written model Wire/U2fWire.v tied by the differential run only (no translator): correspondence harness (pkharness u2fwire, counting allocator) + driver/c17.py",
                         "hand-written ceremony model Auth/U2f.v tied by replay of the trait-call log of the real U2fApi calls (pkharness u2fcer, instrumented store) + driver/c17cer.py",
                         "ECDSA/P-256 (p256 crate) not modelled: theorems are for any scheme with verify(pub(d), m, sign(d, m)); real signatures verified by independent pure-Python P-256 arithmetic (driver/ceremony.py)",
                         "specification encoder encode_request (FIDO U2F raw message formats, extended length) cross-checked against the driver's own encoder on every strictly laid out frame",
                         "usize is 64 bits on the check platform",
                         "coqchk: " + coqchk,
                         "Print Assumptions: %d closed under the global context, axioms: %s" % (assum["closed"], assum["with_allowed_axioms"] or "none")],
        "theorems": thms,
        "evaluations": len(terms) + cer["evaluations"], "distinct_nontrivial": len(sigs) + cer["distinct"],
        "ceremony": cer,
        "rule": "ceremony: " + cer["rule"] + " || wire: parse: strictly laid out frames of the three commands (key handle 0,1,16,64,255 and random, control 3/7/8, no Le / 00 00 / random Le, "
                "P1 variants) + every truncation and some extensions of valid frames, every byte value at CLA/INS/P1/P2/marker, lying and extreme "
                "length bytes, wrong payload sizes, key-handle length byte vs. remaining bytes, random strings; direct payload parsers incl. parameter "
                "bytes outside {3,7,8}; response encoders over key-handle/certificate/signature lengths, flag sets and counters; status words. "
                "distinct = (op, header byte classes, declared-vs-available relation, length buckets, outcome)",
        "samples": [terms[0][:300], terms[len(wf) + 5][:300] if len(terms) > len(wf) + 5 else "", terms[-3][:300], cer["sample"]],
        "model_disagreements": len(res["agree"]), "oracle_failures": len(res["oracle"]), "crashes": len(crashed),
        "wellformed_frames": len(wf), "wellformed_accepted": accepted_wf, "malformed_frames": len(mal),
        "direct_parser_cases": len(direct), "encoding_cases": len(enc), "outcome_histogram": hist,
        "known_class_panics_observed": len(known),
        "observations": ["AuthenticationRequest::try_from(payload, p1) panics (unreachable!) for p1 outside {3,7,8} with a laid out payload: "
                         "%d such cases observed, model agrees (C15 known finding; not part of C17)" % len(known),
                         "ISO 7816-4 strict U2F_VERSION frame 00 03 00 00 00 00 06 (Lc omitted, Le=6) is answered %s; only Le=00 00 00 parses "
                         "(theorem c17_version_iso_short_le_is_rejected)" % json.dumps({k: v for k, v in iso_version.items() if k != "allocs"})],
    })
    run.assumptions += ["request frames use the extended length encoding with the three Lc bytes always present (the only form the parser reads)",
                        "the same key handle registered under two applications is generated only for stores that filter lookups by RP ID "
                        "(MemoryStore ignores the RP ID: C05 known finding memory-store-ignores-rp-id, not re-reported here)",
                        "registration signatures are fixed-width r||s (Signature::to_vec), authentication signatures DER: both accepted as 'a signature that verifies'; the model records which"]


# ---------------------------------------------------------------------------------------------
# hooks for C15 (decoders never crash / allocate out of proportion): the U2F part

def u2f_robust_cases(run):
    """harness cases (op parse/auth/reg) for the robustness correspondence of the U2F parsers"""
    cases = [{"op": "parse", "bytes": f.hex()} for f in gen_malformed(run)]
    wf = gen_wellformed(run)
    cases += [{"op": "parse", "bytes": f.hex()} for f in wf[:: (1 if run.tier != "quick" else 4)]]
    # mutations of valid frames: bit flips and length-field rewrites
    rng = run.rng
    for f in wf[:: (3 if run.tier != "quick" else 12)]:
        g = bytearray(f)
        for _ in range(rng.randrange(1, 4)):
            g[rng.randrange(len(g))] ^= 1 << rng.randrange(8)
        cases.append({"op": "parse", "bytes": bytes(g).hex()})
        g = bytearray(f); g[3:7] = rng.choice([b"\xff\xff\xff\xff", b"\x00\x00\xff\xff", rb(rng, 4), b"\x00\x01\x00\x00"])
        cases.append({"op": "parse", "bytes": bytes(g).hex()})
    return cases + gen_direct(run)


def check_u2f_robust(run, binary=None, tag=None):
    """Runs the U2F parsers' robustness correspondence for the calling property's run (C15):
    model = implementation (outcome class and allocation requests) and `robust` (no panic outside
    the known class, largest allocation <= input length) on the implementation's observations.
    Reports violations / the known finding on `run`; returns counts for the caller's evidence.
    The caller must have built theories/Wire/U2fCheck.vo (see COQ_TARGETS)."""
    binary = binary or common.harness_build("u2fwire")
    cases = u2f_robust_cases(run)
    terms, kept, res, crashed = evaluate(run, binary, cases, ["agree", "robust", "known_class"], tag or (run.prop + "-u2f"))
    for c, o in crashed[:3]:
        run.violation({"kind": "U2F parser crashed the process", "case": c, "observed": o})
    if res["robust"]:
        i = smallest(res["robust"], kept)
        c, o = kept[i]
        run.violation({"kind": "U2F parser panicked or requested an allocation larger than its input (%s)" % c["op"],
                       "case": c, "observed": o, "others": len(res["robust"]) - 1})
    elif res["agree"] and not crashed:
        i = smallest(res["agree"], kept)
        c, o = kept[i]
        run.violation({"kind": "U2F wire model and implementation disagree (%s); robust on all %d cases" % (c["op"], len(terms)),
                       "broken": "correspondence u2fwire/%s (Wire.U2fCheck.agree)" % c["op"], "case": c, "observed": o,
                       "model": model_view(terms[i])}, found_input=False)
    # `failing known_class` lists the cases that are NOT in the class; the class is the complement
    not_known = set(res["known_class"])
    known = [kept[i][0] for i in range(len(kept)) if i not in not_known]
    if known:
        w = min(known, key=case_size)
        run.known_finding("u2f-auth-parameter-unreachable",
                          "AuthenticationRequest::try_from(payload, p1) panics (unreachable!) for p1 outside {3,7,8}, "
                          "e.g. p1=%d with a %d-byte laid out payload (%d cases)" % (w["p1"], len(w["payload"]) // 2, len(known)))
    return {"evaluations": len(terms), "distinct": len(set(signature(c, o) for c, o in kept)),
            "model_disagreements": len(res["agree"]), "robust_failures": len(res["robust"]),
            "crashes": len(crashed), "known_class_cases": len(known),
            "known_witness": min(known, key=case_size) if known else None,
            "theorems": ["c17_parser_total", "c17_parser_cost", "c17_parser_reads_frame", "c17_register_parser_total",
                         "c17_authenticate_parser_total_on_control_bytes", "c17_authenticate_parser_panic_class",
                         "c17_authenticate_parser_panic_witness"]}


def replay(payload):
    if payload.get("domain") == "u2fcer":
        return c17cer.replay_scenario(payload)
    binary = common.harness_build("u2fwire")
    c = payload["case"]
    o = common.harness_one(binary, c)
    print(json.dumps(o)[:3000])
    t = term(c, o)
    if t is not None and len(t) < 200000:
        print(common.coq_show(PROP, PREAMBLE, "let c := %s in (agree c, oracle c)" % t))
    return 0
