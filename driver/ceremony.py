"""Shared machinery of the ceremony-level properties (C02-C09, C11, C18, C19): scenario building
blocks, translation of the harness' observations (call logs, results) into Coq case terms for
Auth/CeremonyCheck.v, and the independent Python oracles (P-256 arithmetic, ECDSA verification,
SHA-256 / HMAC via hashlib) that share no code with the implementation's signing path."""
import hashlib, hmac as pyhmac, json
import common
from common import blit

PREAMBLE = ("From PK Require Import Lib.Bytes Lib.Check Lib.Sha256 Auth.CeremonyCheck.\n"
            "Open Scope N_scope.\n")
COQ_TARGETS = ["theories/Auth/CeremonyCheck.vo"]
HARNESS_BINS = ["ceremony"]

# --------------------------------------------------------------------------------------------
# P-256 (independent arithmetic for the oracle)

P = 0xffffffff00000001000000000000000000000000ffffffffffffffffffffffff
A = P - 3
B = 0x5ac635d8aa3a93e7b3ebbd55769886bc651d06b0cc53b0f63bce3c3e27d2604b
N_ORD = 0xffffffff00000000ffffffffffffffffbce6faada7179e84f3b9cac2fc632551
GX = 0x6b17d1f2e12c4247f8bce6e563a440f277037d812deb33a0f4a13945d898c296
GY = 0x4fe342e2fe1a7f9b8ee7eb4a7c0f9e162bce33576b315ececbb6406837bf51f5


def on_curve(x, y):
    return 0 <= x < P and 0 <= y < P and (y * y - (x * x * x + A * x + B)) % P == 0


def padd(p1, p2):
    if p1 is None: return p2
    if p2 is None: return p1
    x1, y1 = p1; x2, y2 = p2
    if x1 == x2 and (y1 + y2) % P == 0:
        return None
    if p1 == p2:
        l = (3 * x1 * x1 + A) * pow(2 * y1, -1, P) % P
    else:
        l = (y2 - y1) * pow(x2 - x1, -1, P) % P
    x3 = (l * l - x1 - x2) % P
    return (x3, (l * (x1 - x3) - y1) % P)


def pmul(k, pt):
    r = None
    while k:
        if k & 1: r = padd(r, pt)
        pt = padd(pt, pt); k >>= 1
    return r


def pub_of(d):
    return pmul(d, (GX, GY))


def der_sig(sig):
    """strict DER ECDSA-Sig-Value -> (r, s) or None"""
    try:
        if sig[0] != 0x30 or sig[1] != len(sig) - 2: return None
        i = 2
        out = []
        for _ in range(2):
            if sig[i] != 0x02: return None
            ln = sig[i + 1]; v = sig[i + 2:i + 2 + ln]
            if len(v) != ln or ln == 0: return None
            out.append(int.from_bytes(v, "big")); i += 2 + ln
        if i != len(sig): return None
        return tuple(out)
    except IndexError:
        return None


def ecdsa_verify(x, y, msg, rs):
    if rs is None: return False
    r, s = rs
    if not (0 < r < N_ORD and 0 < s < N_ORD) or not on_curve(x, y): return False
    e = int.from_bytes(hashlib.sha256(msg).digest(), "big")
    w = pow(s, -1, N_ORD)
    pt = padd(pmul(e * w % N_ORD, (GX, GY)), pmul(r * w % N_ORD, (x, y)))
    return pt is not None and pt[0] % N_ORD == r


def spki_der(x, y):
    """SubjectPublicKeyInfo of an uncompressed P-256 point (RFC 5480)"""
    return bytes.fromhex("3059301306072a8648ce3d020106082a8648ce3d030107034200" + "04") + x + y


def sha256(b):
    return hashlib.sha256(b).digest()


def hmac_sha256(k, m):
    return pyhmac.new(k, m, hashlib.sha256).digest()


# --------------------------------------------------------------------------------------------
# deterministic key material for scenarios

def keypair(rng):
    d = rng.randrange(1, N_ORD)
    x, y = pub_of(d)
    return {"es256": True, "ec2": True, "d": d.to_bytes(32, "big").hex(),
            "x": x.to_bytes(32, "big").hex(), "y": y.to_bytes(32, "big").hex()}


_KEYPOOL = {}
def pool_key(rng, i):
    """point multiplication in pure Python is slow (~10 ms): reuse a small pool per run"""
    if i not in _KEYPOOL:
        _KEYPOOL[i] = keypair(rng)
    return dict(_KEYPOOL[i])


def mk_passkey(rng, rp, cred_id=None, user_handle=b"\x01\x02", counter=None, hmac=None, key=None, keyidx=None):
    return {"key": key or pool_key(rng, keyidx if keyidx is not None else rng.randrange(6)),
            "cred_id": (cred_id if cred_id is not None else bytes(rng.randrange(256) for _ in range(16))).hex(),
            "rp_id": rp.encode().hex(), "user_handle": None if user_handle is None else user_handle.hex(),
            "counter": counter,
            "hmac": None if hmac is None else {"w": hmac[0].hex(), "wo": None if hmac[1] is None else hmac[1].hex()}}


def mc_req(rng, rp="example.com", rk=False, up=True, uv=False, params=(-7,), exclude=None, ext=None, pin_auth=False,
           user_id=None, cdh=None, rp_name="Example", name="wendy", display="Wendy A."):
    return {"cdh": (cdh or bytes(rng.randrange(256) for _ in range(32))).hex(),
            "rp": {"id": rp.encode().hex(), "name": None if rp_name is None else rp_name.encode().hex()},
            "user": {"id": (user_id if user_id is not None else bytes(rng.randrange(256) for _ in range(8))).hex(),
                     "name": name.encode().hex(), "display": display.encode().hex()},
            "params": list(params), "exclude": None if exclude is None else [e.hex() if isinstance(e, bytes) else e for e in exclude],
            "ext": ext, "opts": {"rk": rk, "up": up, "uv": uv}, "pin_auth": pin_auth}


def ga_req(rng, rp="example.com", allow=None, rk=False, up=True, uv=False, ext=None, pin_auth=False, cdh=None):
    return {"rp_id": rp.encode().hex(), "cdh": (cdh or bytes(rng.randrange(256) for _ in range(32))).hex(),
            "allow": None if allow is None else [e.hex() if isinstance(e, bytes) else e for e in allow],
            "ext": ext, "opts": {"rk": rk, "up": up, "uv": uv}, "pin_auth": pin_auth}


def prf_ext_mc(first=None, second=None, hmac_secret=None, mc=False, with_prf=True):
    prf = None
    if with_prf:
        prf = {"eval": None if first is None else {"first": first.hex(), "second": None if second is None else second.hex()},
               "by_cred": None}
    return {"hmac_secret": hmac_secret, "hmac_secret_mc": mc, "prf": prf}


def prf_ext_ga(first=None, second=None, by_cred=None, hmac_secret=False, with_prf=True):
    prf = None
    if with_prf:
        prf = {"eval": None if first is None else {"first": first.hex(), "second": None if second is None else second.hex()},
               "by_cred": None if by_cred is None else [[k.hex(), {"first": f.hex(), "second": None if s is None else s.hex()}] for k, f, s in by_cred]}
    return {"hmac_secret": hmac_secret, "prf": prf}


def scenario(store_kind="memory", content=(), config=None, user=None, ops=(), disc="full", empty_is_err=False, faults=None, yield_=False):
    cfg = {"aaguid": "00" * 16, "counter": False, "id_len": 16, "hmac": None}
    cfg.update(config or {})
    usr = {"verif_enabled": True, "presence_enabled": True, "script": [{"presence": True, "verification": True}]}
    usr.update(user or {})
    s = {"mode": "sequential", "config": cfg,
         "store": {"kind": store_kind, "disc": disc, "empty_is_err": empty_is_err, "content": list(content)},
         "user": usr, "ops": list(ops)}
    if faults: s["faults"] = faults
    if yield_: s["yield"] = True
    return s


# --------------------------------------------------------------------------------------------
# Coq term printers

def hb(h):
    return blit(bytes.fromhex(h))

def copt(v, f):
    return "None" if v is None else "(Some %s)" % f(v)

def cbool(b):
    return "true" if b else "false"

def scalar_well_formed(dhex):
    """Python twin of Auth/Scalar.v's [scalar_well_formed] (what SecretKey::from_slice accepts: 24 to 32 octets read as a
    big-endian integer, shorter inputs padded on the LEFT, non-zero and below the group order); used by generators and
    oracles only - the model is handed the D parameter as stored and normalises it itself ([scalar_of_stored])"""
    if dhex is None:
        return None
    d = bytes.fromhex(dhex)
    if not 24 <= len(d) <= 32:
        return None
    v = int.from_bytes(d, "big")
    if not 0 < v < N_ORD:
        return None
    return v.to_bytes(32, "big").hex()


def c_key(k):
    return "(Build_keymat %s %s (scalar_of_stored %s) %s %s)" % (cbool(k["es256"]), cbool(k["ec2"]), copt(k["d"], hb), hb(k["x"]), hb(k["y"]))


# encodings of the private scalar a stored (imported, synced) COSE key may carry; the public point is always the true one
SCALAR_SHAPES = ["full", "lead0-kept", "short-1", "short-2", "short-8", "too-short-23", "long-33", "zero", "order", "order-1", "empty"]

def key_with_scalar_shape(rng, shape):
    if shape in ("lead0-kept", "short-1"):
        v = rng.randrange(1, 1 << 247) | (1 << 246)          # 31 significant octets
    elif shape == "short-2":
        v = rng.randrange(1, 1 << 239) | (1 << 238)
    elif shape == "short-8":
        v = rng.randrange(1, 1 << 191) | (1 << 190)          # 24 significant octets
    elif shape == "too-short-23":
        v = rng.randrange(1, 1 << 183) | (1 << 182)          # 23 significant octets
    elif shape == "order-1":
        v = N_ORD - 1
    else:
        v = rng.randrange(1 << 255, N_ORD)
    x, y = pub_of(v)
    enc = {"full": lambda: v.to_bytes(32, "big"), "lead0-kept": lambda: v.to_bytes(32, "big"), "short-1": lambda: v.to_bytes(31, "big"),
           "short-2": lambda: v.to_bytes(30, "big"), "short-8": lambda: v.to_bytes(24, "big"), "too-short-23": lambda: v.to_bytes(23, "big"),
           "long-33": lambda: b"\x00" + v.to_bytes(32, "big"), "zero": lambda: bytes(32), "order": lambda: N_ORD.to_bytes(32, "big"),
           "order-1": lambda: v.to_bytes(32, "big"), "empty": lambda: b""}[shape]()
    return {"es256": True, "ec2": True, "d": enc.hex(), "x": x.to_bytes(32, "big").hex(), "y": y.to_bytes(32, "big").hex()}

def c_passkey(p):
    hm = "None" if p["hmac"] is None else "(Some (%s, %s))" % (hb(p["hmac"]["w"]), copt(p["hmac"]["wo"], hb))
    return "(Build_passkey %s %s %s %s %s %s)" % (c_key(p["key"]), hb(p["cred_id"]), hb(p["rp_id"]),
                                                 copt(p["user_handle"], hb), copt(p["counter"], str), hm)

def c_status(r, okf):
    if "err" in r:
        return "(Err %d)" % r["err"]
    return "(Ok %s)" % okf(r["ok"])

DISC = {"full": "Full", "only_non": "OnlyNonDiscoverable", "forced": "ForcedDiscoverable"}

def c_opts(o):
    return "(Build_options %s %s %s)" % (cbool(o["rk"]), cbool(o["up"]), cbool(o["uv"]))

def c_log_entry(e):
    c = e["c"]
    if c == "find":
        ids = "None" if e["ids"] is None else "(Some [%s])" % "; ".join(hb(i) for i in e["ids"])
        return "(EFind %s %s, AFind %s)" % (ids, hb(e["rp"]), c_status(e["r"], lambda l: "[%s]" % "; ".join(c_passkey(p) for p in l)))
    if c == "save":
        u, rp = e["user"], e["rp"]
        return "(ESave %s (Build_user_entity %s %s %s) (Build_rp_entity %s %s) %s, AUnit %s)" % (
            c_passkey(e["p"]), hb(u["id"]), copt(u["name"], hb), copt(u["display"], hb), hb(rp["id"]), copt(rp["name"], hb),
            c_opts(e["opts"]), c_status(e["r"], lambda _: "tt"))
    if c == "update":
        return "(EUpdate %s, AUnit %s)" % (c_passkey(e["p"]), c_status(e["r"], lambda _: "tt"))
    if c == "info":
        return "(EStoreInfo, AInfo %s)" % DISC[e["r"]]
    if c == "verif":
        return "(EVerifEnabled, AOptBool %s)" % copt(e["r"], cbool)
    if c == "presence":
        return "(EPresenceEnabled, ABool %s)" % cbool(e["r"])
    if c == "check":
        return "(ECheckUser %s %s %s, ACheck %s)" % (copt(e["cred"], c_passkey), cbool(e["up"]), cbool(e["uv"]),
                                                     c_status(e["r"], lambda pv: "(%s, %s)" % (cbool(pv[0]), cbool(pv[1]))))
    raise ValueError(c)

def c_log(log):
    return "[%s]" % ";\n   ".join(c_log_entry(e) for e in log)

def c_config(cfg):
    hm = "None" if cfg.get("hmac") is None else "(Some (Build_hmac_cfg %s %s))" % (cbool(cfg["hmac"].get("without_uv", False)), cbool(cfg["hmac"].get("on_mc", False)))
    return "(Build_config %s [(-7)%%Z] %s (clamp_id_len %d) %s)" % (hb(cfg["aaguid"]), cbool(cfg.get("counter", False)), (cfg.get("id_len") if cfg.get("id_len") is not None else 16) % 256, hm)

def c_prf_values(v):
    return "(Build_prf_values %s %s)" % (hb(v["first"]), copt(v["second"], hb))

def c_prf_inputs(p):
    by = "None" if p["by_cred"] is None else "(Some [%s])" % "; ".join("(%s, %s)" % (hb(k), c_prf_values(v)) for k, v in p["by_cred"])
    return "(Build_prf_inputs %s %s)" % (copt(p["eval"], c_prf_values), by)

def c_mc_req(q):
    ext = "None"
    if q["ext"] is not None:
        e = q["ext"]
        ext = "(Some (Build_mc_ext_in %s %s %s))" % (copt(e["hmac_secret"], cbool), cbool(e.get("hmac_secret_mc", False)), copt(e["prf"], c_prf_inputs))
    u = q["user"]
    return "(Build_mc_request %s (Build_rp_entity %s %s) (Build_user_entity %s (Some %s) (Some %s)) [%s] %s %s %s %s)" % (
        hb(q["cdh"]), hb(q["rp"]["id"]), copt(q["rp"]["name"], hb), hb(u["id"]), hb(u["name"]), hb(u["display"]),
        "; ".join("(%d)%%Z" % a for a in q["params"]),
        "None" if q["exclude"] is None else "(Some [%s])" % "; ".join(hb(i) for i in q["exclude"]),
        ext, c_opts(q["opts"]), cbool(q.get("pin_auth", False)))

def c_ga_req(q):
    ext = "None"
    if q["ext"] is not None:
        e = q["ext"]
        ext = "(Some (Build_ga_ext_in %s %s))" % (cbool(e.get("hmac_secret", False)), copt(e["prf"], c_prf_inputs))
    return "(Build_ga_request %s %s %s %s %s %s)" % (
        hb(q["rp_id"]), hb(q["cdh"]),
        "None" if q["allow"] is None else "(Some [%s])" % "; ".join(hb(i) for i in q["allow"]),
        ext, c_opts(q["opts"]), cbool(q.get("pin_auth", False)))

def c_auth_data(ad, rp_hex):
    acd = "None"
    if ad["acd"] is not None:
        a = ad["acd"]
        acd = "(Some (Build_acd %s %s %s %s (%d)%%Z))" % (hb(a["aaguid"]), hb(a["cred_id"]), hb(a["x"]), hb(a["y"]), a["alg"] if a["alg"] is not None else 0)
    return "(Build_auth_data %s %d %s %s)" % (hb(rp_hex), ad["flags"], copt(ad["counter"], str), acd)

def c_queues(rand=(), keys=(), sigs=(), hmacs=()):
    return "(Build_queues [%s] [%s] [%s] [%s])" % ("; ".join(hb(r) for r in rand),
                                                  "; ".join("(%s, %s, %s)" % (hb(d), hb(x), hb(y)) for d, x, y in keys),
                                                  "; ".join(hb(s) for s in sigs), "; ".join(hb(h) for h in hmacs))

def c_hash_table(rps):
    return "[%s]" % "; ".join("(%s, %s)" % (hb(r), blit(sha256(bytes.fromhex(r)))) for r in sorted(set(rps)))


def op_case(cfg, op, obs):
    """One harness observation of one operation -> Coq `ccase` term."""
    kind = op["op"].replace("trait_", "")
    log = obs["log"]
    res = obs["result"]
    if kind == "get_info":
        o = res["ok"]
        return "CInfo %s %s (Build_info_response %s %s %s %s %s)" % (
            c_config(cfg), c_log(log), cbool(o["prf_ext"]), hb(o["aaguid"]), cbool(o["rk"]), copt(o["uv"], cbool), cbool(o["up"]))
    q = op["req"]
    if kind == "make_credential":
        rand, keys, hmacs = [], [], []
        save = next((e for e in log if e["c"] == "save"), None)
        if save is not None:
            p = save["p"]
            rand.append(p["cred_id"])
            if p["hmac"] is not None:
                rand.append(p["hmac"]["w"])
                if p["hmac"]["wo"] is not None: rand.append(p["hmac"]["wo"])
            k = p["key"]
            keys.append((k["d"] or "", k["x"], k["y"]))
        if "ok" in res and res["ok"]["prf"] and res["ok"]["prf"]["results"]:
            r = res["ok"]["prf"]["results"]
            hmacs.append(r["first"])
            if r["second"] is not None: hmacs.append(r["second"])
        elif save is not None and save["p"]["hmac"] is not None:
            # HMACs computed but not observable (the ceremony failed afterwards): recompute
            hmacs += _expected_hmacs_mc(cfg, q, save["p"])
        if res.get("cancelled"):
            impl = "Cancelled"
        elif "err" in res:
            impl = "(Finished (Err %d))" % res["err"]
        else:
            o = res["ok"]
            prf = "None" if o["prf"] is None else "(Some (Build_prf_make_out %s %s))" % (cbool(o["prf"]["enabled"]), copt(o["prf"]["results"], c_prf_values))
            impl = "(Finished (Ok (Build_mc_obs (Build_mc_response %s %s) %s)))" % (c_auth_data(o["auth_data"], q["rp"]["id"]), prf, hb(o["auth_data"]["bytes"]))
        return "CMake %s %s\n  %s\n  %s %s %s" % (c_config(cfg), c_mc_req(q), c_log(log), c_queues(rand, keys, [], hmacs),
                                                  c_hash_table([q["rp"]["id"]]), impl)
    if kind == "get_assertion":
        sigs, hmacs = [], []
        if "ok" in res:
            sigs.append(res["ok"]["signature"])
            if res["ok"]["prf"]:
                hmacs.append(res["ok"]["prf"]["first"])
                if res["ok"]["prf"]["second"] is not None: hmacs.append(res["ok"]["prf"]["second"])
        else:
            hmacs += _expected_hmacs_ga(cfg, q, log, res)
        if res.get("cancelled"):
            impl = "Cancelled"
        elif "err" in res:
            impl = "(Finished (Err %d))" % res["err"]
        else:
            o = res["ok"]
            impl = "(Finished (Ok (Build_ga_obs (Build_ga_response %s %s %s %s %s) %s)))" % (
                hb(o["cred_id"] or ""), c_auth_data(o["auth_data"], q["rp_id"]), hb(o["signature"]), copt(o["user_handle"], hb),
                copt(o["prf"], c_prf_values), hb(o["auth_data"]["bytes"]))
        return "CGet %s %s\n  %s\n  %s %s %s" % (c_config(cfg), c_ga_req(q), c_log(log), c_queues([], [], sigs, hmacs),
                                                 c_hash_table([q["rp_id"]]), impl)
    raise ValueError(kind)


def _expected_hmacs_mc(cfg, q, saved):
    """HMAC outputs a failing registration would have computed (they never surface): any value will
    do for the replay, the real ones keep the event list meaningful."""
    out = []
    try:
        ev = q["ext"]["prf"]["eval"]
        hc = cfg["hmac"]
        if ev is None or not hc.get("on_mc"): return out
        key = saved["hmac"]["w"] if q["opts"]["uv"] else saved["hmac"]["wo"]
        if key is None: return out
        out.append(hmac_sha256(bytes.fromhex(key), bytes.fromhex(ev["first"])).hex())
        if ev["second"] is not None and hc.get("without_uv"):
            out.append(hmac_sha256(bytes.fromhex(key), bytes.fromhex(ev["second"])).hex())
    except (TypeError, KeyError, AttributeError):   # AttributeError: a secret saved although the configuration has no hmac-secret
        pass
    return out


def _expected_hmacs_ga(cfg, q, log, res):
    return ["00" * 32, "00" * 32]   # unobservable on failing assertions; the replay accepts any value


# --------------------------------------------------------------------------------------------
# running

def run_scenarios(binary, scenarios):
    """returns per scenario the harness output (dict with "ops") or a crash record"""
    return common.harness_run(binary, scenarios)


def cases_of(scenarios, outputs):
    """flatten to (scenario index, op index, op, obs, coq term)"""
    flat = []
    for si, (sc, out) in enumerate(zip(scenarios, outputs)):
        if "ops" not in out:
            flat.append((si, None, None, out, None))
            continue
        for oi, (op, obs) in enumerate(zip(sc["ops"], out["ops"])):
            flat.append((si, oi, op, obs, op_case(sc["config"], op, obs)))
    return flat


# --------------------------------------------------------------------------------------------
# the standard flow of a ceremony-level property check

def standard_check(run, prop, scenarios, meta, coq_oracles, py_oracle=None, coq_files=(), rule="", extra_targets=(),
                   pair_oracle=None, assumptions=(), client=False, extra_preamble="", shard=200):
    """scenarios: harness cases; meta: one hashable signature per scenario (distinctness measure);
    coq_oracles: names of `ccase -> bool` functions (besides `agree`) evaluated on the implementation's
    observations; py_oracle(sc, out) -> list of failure strings (independent Python checks: signatures,
    hashes, point arithmetic); pair_oracle(scenarios, outs) -> list of (payload) relational failures."""
    common.run_translator("status")
    common.run_translator("ceremony_skeleton")
    common.run_translator("client_skeleton")
    bad = common.hygiene_gate()
    if bad:
        raise common.Tie("hygiene gate: " + "; ".join(bad))
    # client=True: WebAuthn-level scenarios (mode "client": ops register/authenticate through passkey_client::Client),
    # compared with Auth/Client.v by ClientCheck.wagree; otherwise CTAP2-level scenarios compared by CeremonyCheck.agree
    preamble = (WPREAMBLE if client else PREAMBLE) + extra_preamble
    agree_fn = "wagree" if client else "agree"
    common.coq_build(list(WCOQ_TARGETS if client else COQ_TARGETS) + list(extra_targets))
    thms, assum = common.props_check(prop)
    binary = common.harness_build("ceremony")
    corpus = load_corpus(prop)
    scenarios = corpus + scenarios
    meta = [("corpus", i) for i in range(len(corpus))] + list(meta)
    outs = run_scenarios(binary, scenarios)
    flat = wcases_of(scenarios, outs) if client else cases_of(scenarios, outs)
    crashed = [(si, obs) for (si, oi, op, obs, t) in flat if t is None]
    live = [(si, oi, op, obs, t) for (si, oi, op, obs, t) in flat if t is not None]
    terms = [t for (_, _, _, _, t) in live]
    funcs = [agree_fn] + list(coq_oracles)
    res = common.coq_eval(prop, preamble, terms, funcs, shard=shard)
    res["agree"] = res[agree_fn]
    n_viol = 0
    for si, obs in crashed[:3]:
        run.violation({"kind": "ceremony crashed the process (abort / stack overflow / timeout)", "scenario": scenarios[si], "observed": obs}); n_viol += 1
    for fn in coq_oracles:
        for i in res[fn][:3]:
            si, oi, op, obs, t = live[i]
            run.violation({"kind": "property oracle %s false on the implementation's observation" % fn,
                           "scenario": scenarios[si], "op_index": oi, "observed": obs}); n_viol += 1
    py_fail, n_known = [], {}
    if py_oracle is not None:
        for si, (sc, out) in enumerate(zip(scenarios, outs)):
            if "ops" in out:
                for msg in py_oracle(sc, out):
                    if isinstance(msg, tuple) and msg[0] == "known":
                        # a departure inside a class recorded in KNOWN_FINDINGS.json
                        if any(k.get("id") == msg[1] for k in run.known_findings):
                            run.known_finding(msg[1], msg[2]); n_known[msg[1]] = n_known.get(msg[1], 0) + 1
                        else:
                            py_fail.append((si, "unlisted finding class %s: %s" % (msg[1], msg[2])))
                    else:
                        py_fail.append((si, msg))
        for si, msg in py_fail[:3]:
            run.violation({"kind": "independent oracle: " + msg, "scenario": scenarios[si], "observed": outs[si]}); n_viol += 1
    pair_fail = pair_oracle(scenarios, outs) if pair_oracle is not None else []
    for payload in pair_fail[:3]:
        run.violation(payload); n_viol += 1
    if n_viol == 0:
        for i in res["agree"][:1]:
            si, oi, op, obs, t = live[i]
            run.violation({"kind": "model and implementation disagree; every oracle true on all %d observations of this run" % len(terms),
                           "broken": "correspondence ceremony/%s (%s, replay of the call log)" % (op["op"], "Auth.ClientCheck.wagree" if client else "Auth.CeremonyCheck.agree"),
                           "scenario": scenarios[si], "op_index": oi, "observed": obs,
                           "model": common.coq_show(prop, preamble,
                               ("match (%s) with CRegister c dm o q cd log qs _ => inl (replay (register c dm o q cd) log qs 0) | CAuthenticate c dm o q cd log qs _ => inr (replay (authenticate c dm o q cd) log qs 0) end" if client else
                                "match (%s) with CMake c q log qs ht _ => inl (replay (make_credential c q) log qs 0) | CGet c q log qs ht _ => inr (inl (replay (get_assertion (ad_bytes Sha256.sha256) c q) log qs 0)) | CInfo c log _ => inr (inr (replay (get_info c) log (Build_queues [] [] [] []) 0)) end") % t)[-3000:]},
                          found_input=False)
    files = ["theories/Auth/Prog.v", "theories/Auth/Monitor.v", "theories/Auth/Effects.v", "theories/Props/%s.v" % prop] + list(coq_files)
    n_lem = common.count_lemmas(files)
    kinds = {}
    for si, oi, op, obs, t in live:
        r = obs["result"]
        k = (op["op"], "ok" if "ok" in r else "cancelled" if r.get("cancelled") else
             ("err%d" % r["err"] if not isinstance(r["err"], dict) else "err:%s%s" % (r["err"].get("kind"), r["err"].get("code", ""))))
        kinds[k] = kinds.get(k, 0) + 1
    run.cov.update({
        "obligations": n_lem, "discharged": n_lem,
        "checker_cmd": "make -C coq theories/Props/%s.vo (coqc 8.16.1, full .vo build) + hygiene gate + Print Assumptions" % prop,
        "trusted_base": ["Coq 8.16.1 kernel, vm_compute", "translators/status.py", "translators/ceremony_skeleton.py and translators/client_skeleton.py (source order of calls; used by the properties whose Props file states a source-order theorem)",
                         "correspondence: harness/src/bin/ceremony.rs + harness/src/instr.rs (instrumented CredentialStore / UserValidationMethod), driver/ceremony.py (term printer, Python P-256/ECDSA/SHA-256/HMAC oracles)",
                         "each .await on a trait object = one effect call (async_trait desugaring); rand/p256/sha2/hmac crates are answers of internal events",
                         "Print Assumptions: %d closed under the global context, axioms: %s" % (assum["closed"], assum["with_allowed_axioms"] or "none")],
        "theorems": thms,
        "evaluations": len(terms), "distinct_nontrivial": len(set(meta)),
        "rule": rule + "; distinct = distinct scenario signatures (request shape, capabilities, user answers, store kind/content class)",
        "samples": [json.dumps(scenarios[len(corpus)])[:600]] + [terms[len(terms) // 2][:400]],
        "outcome_histogram": {"%s/%s" % k: v for k, v in sorted(kinds.items())},
        "model_disagreements": len(res["agree"]), "oracle_failures": {fn: len(res[fn]) for fn in coq_oracles},
        "python_oracle_failures": len(py_fail), "relational_oracle_failures": len(pair_fail), "crashes": len(crashed),
        "scenarios": len(scenarios), "corpus": len(corpus), "known_finding_hits": n_known,
    })
    run.assumptions += list(assumptions)
    return scenarios, outs, live, res


def load_corpus(prop):
    import os
    d = os.path.join(common.VERIF, "corpus", prop)
    out = []
    if os.path.isdir(d):
        for f in sorted(os.listdir(d)):
            if f.endswith(".json"):
                c = json.load(open(os.path.join(d, f)))
                out.append(c.get("scenario", c))
    return out


def replay(payload):
    binary = common.harness_build("ceremony")
    sc = payload.get("scenario")
    out = common.harness_one(binary, sc)
    print(json.dumps(out)[:4000])
    # scenarios judged on the observation alone carry their tag: judge again
    verdicts = []
    if isinstance(sc, dict) and sc.get("prompt_tag"):
        verdicts = judge_prompt_action(sc, out)
    elif isinstance(sc, dict) and sc.get("held_tag"):
        import c19
        verdicts = c19.judge_held(sc, out)
    for clause, msg in verdicts:
        print("REPLAY: %s: %s" % (clause, msg))
    return 1 if verdicts else 0


# --------------------------------------------------------------------------------------------
# random multi-operation histories (shared generator)

RPS = ["example.com", "login.example.com", "other.org", "xn--bcher-kva.example", "Future.1Password.COM"]   # the last one: CTAP2 callers may send any spelling
COUNTERS = [None, 0, 1, 5, 2**31 - 1, 2**31, 2**32 - 2, 2**32 - 1]
STORE_KINDS = ["ref", "ref", "memory", "option", "arc_mutex_memory", "arc_rwlock_memory", "mutex_memory", "rwlock_memory",
               "arc_mutex_option", "arc_rwlock_ref", "arc_mutex_ref"]


def gen_content(rng, kind, n_rps=3, with_hmac=False, contract_only=False):
    content = []
    if kind in ("option", "arc_mutex_option"):
        n = rng.choice([0, 1, 1])
    else:
        n = rng.randrange(0, 7)
    for i in range(n):
        rp = RPS[rng.randrange(n_rps)]
        hm = None
        if with_hmac and rng.random() < 0.7:
            hm = (bytes(rng.randrange(256) for _ in range(32)), bytes(rng.randrange(256) for _ in range(32)) if rng.random() < 0.6 else None)
        uh = rng.choice([b"\x01\x02", b"\x01\x02", bytes([i]), None])      # identical user handles across RPs on purpose
        content.append(mk_passkey(rng, rp, cred_id=bytes([0xC0 + i]) * rng.choice([16, 16, 20, 1]), user_handle=uh,
                                  counter=rng.choice(COUNTERS), hmac=hm, keyidx=i % 6))
    return content


def gen_history(rng, tier="quick", kinds=None, with_hmac=False, faults=False, cancel=False, contract_only=False, max_ops=5):
    kind = rng.choice(kinds or STORE_KINDS)
    content = gen_content(rng, kind, with_hmac=with_hmac)
    ids_by_rp = {}
    for p in content:
        ids_by_rp.setdefault(bytes.fromhex(p["rp_id"]).decode(), []).append(bytes.fromhex(p["cred_id"]))
    all_ids = [bytes.fromhex(p["cred_id"]) for p in content]
    cfg = {"counter": rng.random() < 0.5, "id_len": rng.choice([0, 15, 16, 17, 32, 63, 64, 65, 255]),
           "hmac": rng.choice([None, None, {"without_uv": False, "on_mc": False}, {"without_uv": True, "on_mc": False},
                               {"without_uv": False, "on_mc": True}, {"without_uv": True, "on_mc": True}]) if with_hmac else None,
           "aaguid": bytes(rng.randrange(256) for _ in range(16)).hex()}
    verif = rng.choice([True] * 7 + [False, None])
    script = []
    ops = []
    for _ in range(rng.randrange(1, max_ops + 1)):
        r = rng.random()
        rp = RPS[rng.randrange(3)]
        uv = rng.random() < 0.5
        script.append(rng.choice([{"presence": True, "verification": True}] * 6 + [{"presence": True, "verification": False},
                                  {"presence": False, "verification": True}, {"err": 0x27}]))
        def idlist(own):
            c = rng.randrange(6)
            mine = ids_by_rp.get(rp, [])
            foreign = [i for i in all_ids if i not in mine]
            if c == 0: return None
            if c == 1: return []
            if c == 2 and mine: return rng.sample(mine, rng.randrange(1, len(mine) + 1))
            if c == 3: return [bytes([0xEE]) * 16]
            if c == 4 and foreign and not contract_only: return [rng.choice(foreign)] + (mine[:1] if rng.random() < 0.5 else [])
            return (mine[:1] + [bytes([0xEE]) * 16]) if mine else [bytes([0xEE]) * 16]
        if r < 0.4:
            ext = None
            if with_hmac and rng.random() < 0.7:
                f = bytes(rng.randrange(256) for _ in range(32)); s = bytes(rng.randrange(256) for _ in range(32))
                ext = prf_ext_mc(first=rng.choice([f, None]), second=rng.choice([s, None]), hmac_secret=rng.choice([None, True, False]),
                                 mc=rng.random() < 0.1, with_prf=rng.random() < 0.8)
                if ext["prf"] and ext["prf"]["eval"] is None: pass
                if ext["prf"] and ext["prf"]["eval"] and ext["prf"]["eval"]["first"] is None: ext["prf"]["eval"] = None
            ops.append({"op": "make_credential",
                        "req": mc_req(rng, rp=rp, rk=rng.random() < 0.5, uv=uv, up=rng.random() < 0.95,
                                      params=rng.choice([(-7,), (-257, -7), (-8, -7, -257), (-257,), ()]),
                                      exclude=idlist(False), ext=ext, pin_auth=rng.random() < 0.03,
                                      user_id=rng.choice([b"\x01\x02", bytes(rng.randrange(256) for _ in range(rng.choice([1, 16, 64])))]),
                                      rp_name=rng.choice([None, "Example", "Éxämple ✓"]), name=rng.choice(["wendy", "", "名前"]))})
        elif r < 0.92:
            ext = None
            if with_hmac and rng.random() < 0.7:
                f = bytes(rng.randrange(256) for _ in range(32)); s = bytes(rng.randrange(256) for _ in range(32))
                by = None
                if rng.random() < 0.4 and all_ids:
                    ks = rng.sample(all_ids, min(len(all_ids), rng.randrange(1, 3)))
                    by = [(k, bytes(rng.randrange(256) for _ in range(32)), rng.choice([None, s])) for k in ks]
                ext = prf_ext_ga(first=rng.choice([f, f, None]), second=rng.choice([s, None]), by_cred=by,
                                 hmac_secret=rng.random() < 0.1, with_prf=rng.random() < 0.85)
                if ext["prf"] and ext["prf"]["eval"] and ext["prf"]["eval"]["first"] is None: ext["prf"]["eval"] = None
            ops.append({"op": "get_assertion",
                        "req": ga_req(rng, rp=rp, allow=idlist(True), uv=uv, up=rng.random() < 0.9, rk=rng.random() < 0.03,
                                      ext=ext, pin_auth=rng.random() < 0.03)})
        else:
            ops.append({"op": "get_info"})
    sc = scenario(store_kind=kind, content=content, config=cfg, disc=rng.choice(["full", "only_non", "forced"]),
                  empty_is_err=rng.random() < 0.5,
                  user={"verif_enabled": verif, "presence_enabled": rng.random() < 0.9, "script": script}, ops=ops)
    if faults and rng.random() < 0.7:
        sc["faults"] = [{"at": rng.randrange(0, 8), "code": rng.choice([0x01, 0x28, 0x2E, 0x7F, 0xF0, 0x19, 0x27])}
                        for _ in range(rng.choice([1, 1, 2]))]
    if cancel and rng.random() < 0.6:
        cand = [o for o in sc["ops"] if o["op"] != "get_info"]
        if cand:
            sc["yield"] = True
            rng.choice(cand)["cancel_after"] = rng.randrange(1, 9)
    return sc


def history_meta(sc):
    return (sc["store"]["kind"], len(sc["store"]["content"]), json.dumps(sc["config"], sort_keys=True)[:80],
            tuple((o["op"], json.dumps(o.get("req", {}).get("opts")), str(o.get("req", {}).get("allow", o.get("req", {}).get("exclude")))[:40],
                   o.get("cancel_after")) for o in sc["ops"]), json.dumps(sc.get("faults")))


# --------------------------------------------------------------------------------------------
# independent Python oracles over a whole history

def registered_keys(sc, out):
    """credential id -> (x, y) as registered: initial content plus every successful registration"""
    keys = {p["cred_id"]: (p["key"]["x"], p["key"]["y"]) for p in sc["store"]["content"]}
    return keys


def signature_oracle(sc, out):
    """every successful assertion carries a DER ECDSA signature that verifies, under the public key
    registered for the returned credential id, over the returned authenticator data followed by the
    client data hash; every successful registration returns a valid P-256 point that is d*G for the
    stored scalar"""
    fails = []
    keys = registered_keys(sc, out)
    for op, obs in zip(sc["ops"], out["ops"]):
        res = obs["result"]
        kind = op["op"].replace("trait_", "")
        if kind == "make_credential" and "ok" in res:
            a = res["ok"]["auth_data"]["acd"]
            x, y = int(a["x"], 16), int(a["y"], 16)
            if len(a["x"]) != 64 or len(a["y"]) != 64 or not on_curve(x, y):
                fails.append("registration returned a point that is not on P-256")
            saved = [p for p in obs["store_after"] if p["cred_id"] == a["cred_id"]]
            if saved and saved[0]["key"]["d"]:
                if pub_of(int(saved[0]["key"]["d"], 16)) != (x, y):
                    fails.append("stored private scalar does not match the returned public key")
            keys[a["cred_id"]] = (a["x"], a["y"])
        if kind == "get_assertion" and "ok" in res:
            o = res["ok"]
            xy = keys.get(o["cred_id"])
            if xy is None:
                fails.append("assertion names a credential id that was never registered")
                continue
            msg = bytes.fromhex(o["auth_data"]["bytes"]) + bytes.fromhex(op["req"]["cdh"])
            if not ecdsa_verify(int(xy[0], 16), int(xy[1], 16), msg, der_sig(bytes.fromhex(o["signature"]))):
                fails.append("signature does not verify over authenticatorData || clientDataHash under the registered key")
            if o["auth_data"]["rp_id_hash"] != sha256(bytes.fromhex(op["req"]["rp_id"])).hex():
                fails.append("rpIdHash is not SHA-256 of the RP ID")
    return fails


def matching(content, ids, rp_hex):
    return sorted(p["cred_id"] for p in content if p["rp_id"] == rp_hex and (ids is None or p["cred_id"] in ids))


def find_contract_oracle(sc, out):
    """each lookup answer = exactly the stored credentials for that RP (and id list).
    returns (violations, known) where known lists departures inside the recorded MemoryStore classes"""
    viol, known = [], []
    content = sc["store"]["content"]
    if sc["store"]["kind"] in ("option", "arc_mutex_option"):
        content = content[-1:]
    mem = "memory" in sc["store"]["kind"]
    faulted = bool(sc.get("faults"))
    for op, obs in zip(sc["ops"], out["ops"]):
        for e in obs["log"]:
            if e["c"] != "find":
                continue
            want = matching(content, e["ids"], e["rp"])
            if faulted and "err" in e["r"]:
                continue          # an injected refusal (any status, NoCredentials included) is not the store's own answer
            got = sorted(p["cred_id"] for p in e["r"]["ok"]) if "ok" in e["r"] else ([] if e["r"]["err"] == 0x2E else None)
            if got is None:
                if not faulted:
                    viol.append("lookup failed with status %d on a store that holds %s" % (e["r"]["err"], want))
                continue
            if got != want:
                if mem and e["ids"] is None and want and not got:
                    known.append(("memory-store-idless-lookup", "MemoryStore::find_credentials(None, rp) answers NoCredentials although it holds credentials for that RP"))
                elif mem and e["ids"] is not None and set(want) <= set(got) and all(
                        any(p["cred_id"] == g and p["rp_id"] != e["rp"] for p in content) for g in set(got) - set(want)):
                    known.append(("memory-store-ignores-rp-id", "MemoryStore::find_credentials returns a credential whose rp_id differs from the requested RP ID"))
                else:
                    viol.append("lookup for rp=%s ids=%s returned %s, contract says %s" % (e["rp"], e["ids"], got, want))
        content = obs["store_after"]
    return viol, known


# --------------------------------------------------------------------------------------------
# the store changes while a ceremony waits in the consent prompt (shared stores; harness: "during" actions of a user script entry)

def prompt_action_scenarios(run):
    rng = run.rng
    scs = []
    cid = bytes([0xD1]) * 16
    shown = mk_passkey(rng, "example.com", cred_id=cid, counter=5, keyidx=0, user_handle=b"\x0a\x0b")
    other = mk_passkey(rng, "example.com", cred_id=cid, counter=9, keyidx=1, user_handle=b"\x0c\x0d\x0e")
    bystander = mk_passkey(rng, "example.com", cred_id=bytes([0xD2]) * 16, counter=2, keyidx=2)
    ok = {"presence": True, "verification": True}
    for kind in ("arc_mutex_ref", "arc_rwlock_ref", "arc_mutex_memory", "arc_rwlock_memory", "arc_mutex_option"):
        content = [shown] if "option" in kind else [bystander, shown]
        for tag, acts in (("replace", [{"act": "replace", "p": other}]), ("remove", [{"act": "remove", "id": cid.hex()}]),
                          ("remove-bystander", [{"act": "remove", "id": bystander["cred_id"]}]), ("none", [])):
            for uv in (False, True):
                sc = scenario(store_kind=kind, content=content, config={"counter": True},
                              user={"script": [dict(ok, during=acts), ok]},
                              ops=[{"op": "get_assertion", "req": ga_req(rng, allow=[cid], uv=uv)}, {"op": "get_assertion", "req": ga_req(rng, allow=[cid], uv=uv)}])
                sc["prompt_tag"] = "assert/" + tag
                scs.append(sc)
    for kind in ("arc_mutex_ref", "arc_rwlock_ref"):
        for d0 in ("full", "only_non", "forced"):
            for d1 in ("full", "only_non", "forced"):
                for rk in (False, True):
                    sc = scenario(store_kind=kind, disc=d0, content=[bystander], config={"counter": True},
                                  user={"script": [dict(ok, during=[{"act": "set_disc", "disc": d1}]), ok]},
                                  ops=[{"op": "make_credential", "req": mc_req(rng, rk=rk, uv=True, user_id=b"\x55\x66")}])
                    sc["prompt_tag"] = "register/capability"; sc["disc_after"] = d1
                    scs.append(sc)
    return scs


def judge_prompt_action(sc, out):
    """(clause, message) failures of one scenario"""
    if "ops" not in out:
        return [("crash", "the worker crashed: %s" % json.dumps(out)[:200])]
    fails = []
    tag = sc["prompt_tag"]
    op, obs = sc["ops"][0], out["ops"][0]
    res, after = obs["result"], obs["store_after"]
    if tag.startswith("assert/"):
        check = next((e for e in obs["log"] if e["c"] == "check"), None)
        if "ok" not in res:
            fails.append(("C07", "an assertion failed because the store changed during the consent prompt (%s): %s" % (tag, json.dumps(res)[:80])))
        elif check is None or check["cred"] is None:
            fails.append(("C04", "the validation step was not shown the credential"))
        else:
            o, shown = res["ok"], check["cred"]
            msg = bytes.fromhex(o["auth_data"]["bytes"]) + bytes.fromhex(op["req"]["cdh"])
            if not ecdsa_verify(int(shown["key"]["x"], 16), int(shown["key"]["y"], 16), msg, der_sig(bytes.fromhex(o["signature"]))):
                fails.append(("C04", "the assertion is not signed by the credential that was shown to the user for consent (the record was %s while the prompt "
                                     "was on screen)" % tag.split("/")[1]))
            if o["user_handle"] != shown["user_handle"]:
                fails.append(("C04", "the user handle returned is not the one of the credential shown to the user"))
            stored = next((p for p in after if p["cred_id"] == o["cred_id"]), None)
            if stored is None or stored["counter"] != o["auth_data"]["counter"]:
                fails.append(("C07", "an assertion with counter %s was returned, the store holds %s for that credential afterwards: the store never accepted "
                                     "the counter value (%s during the prompt)" % (o["auth_data"]["counter"], None if stored is None else stored["counter"], tag.split("/")[1])))
    else:
        d1, rk = sc["disc_after"], op["req"]["opts"]["rk"]
        if rk and d1 == "only_non":
            if res.get("err") != 0x2B:
                fails.append(("C11", "a resident key was required and the store (capability changed to non-discoverable-only during the prompt) cannot hold one, "
                                     "but the registration answered %s" % json.dumps(res)[:80]))
            elif len(after) != len(sc["store"]["content"]):
                fails.append(("C11", "a refused registration stored something"))
        elif "ok" not in res:
            fails.append(("C11", "registration failed although the store's capability (%s when the credential is saved) allows it: %s" % (d1, json.dumps(res)[:80])))
        else:
            new = [p for p in after if p["cred_id"] == res["ok"]["auth_data"]["acd"]["cred_id"]]
            want = (rk and d1 != "only_non") or d1 == "forced"
            if not new:
                fails.append(("C07", "a successful registration is not in the store"))
            elif (new[0]["user_handle"] is not None) != want:
                fails.append(("C11", "the store's capability is %s when the credential is saved (it changed during the consent prompt), rk=%s: the user handle "
                                     "must %sbe stored, the saved record has %s" % (d1, rk, "" if want else "not ", new[0]["user_handle"])))
    return fails


def check_prompt_actions(run, clauses, binary=None):
    binary = binary or common.harness_build("ceremony")
    scs = prompt_action_scenarios(run)
    outs = run_scenarios(binary, scs)
    n = 0
    for sc, out in zip(scs, outs):
        for clause, msg in judge_prompt_action(sc, out):
            if clause in clauses or clause == "crash":
                n += 1
                if n <= 2:
                    run.violation({"kind": msg, "scenario": sc, "observed": out})
    return {"prompt_action_scenarios": len(scs), "prompt_action_failures": n}


# --------------------------------------------------------------------------------------------
# WebAuthn client level (Auth/ClientCheck.v)

WPREAMBLE = ("From PK Require Import Lib.Bytes Lib.Check Lib.Sha256 Auth.ClientCheck.\n"
             "Open Scope N_scope.\n")
WCOQ_TARGETS = ["theories/Auth/ClientCheck.vo"]

def c_werr(e):
    if e["kind"] == "AuthenticatorError":
        return "(WAuthenticatorError %d)" % e["code"]
    return "W" + e["kind"]

def c_wvalues(v):
    return "(Build_wprf_values %s %s)" % (hb(v["first"]), copt(v["second"], hb))

def c_wprf(p):
    by = "None" if p["by_cred"] is None else "(Some [%s])" % "; ".join("(%s, %s)" % (hb(k), c_wvalues(v)) for k, v in p["by_cred"])
    return "(Build_wprf_inputs %s %s)" % (copt(p["eval"], c_wvalues), by)

def c_wext(e):
    if e is None: return "None"
    return "(Some (Build_wext %s %s %s))" % (copt(e.get("cred_props"), cbool), copt(e.get("prf"), c_wprf), copt(e.get("prf_hashed"), c_wprf))

RK = {"discouraged": "RkDiscouraged", "preferred": "RkPreferred", "required": "RkRequired"}
UV = {"required": "UvRequired", "preferred": "UvPreferred", "discouraged": "UvDiscouraged", None: "UvPreferred"}

def c_selection(s):
    if s is None: return "None"
    return "(Some (Build_selection %s %s %s))" % ("None" if s.get("rk") is None else "(Some %s)" % RK[s["rk"]], cbool(s.get("require_rk", False)), UV[s.get("uv")])

def c_reg_request(q):
    u = q["user"]
    return "(Build_reg_request %s %s (Build_user_entity %s (Some %s) (Some %s)) %s [%s] %s %s %s)" % (
        copt(q["rp_id"], hb), hb(q["rp_name"]), hb(u["id"]), hb(u["name"]), hb(u["display"]), hb(q["challenge"]),
        "; ".join("(%d)%%Z" % a for a in q["params"]),
        "None" if q["exclude"] is None else "(Some [%s])" % "; ".join(hb(i) for i in q["exclude"]),
        c_selection(q["selection"]), c_wext(q["ext"]))

def c_auth_request(q):
    return "(Build_auth_request %s %s %s %s %s)" % (
        copt(q["rp_id"], hb), hb(q["challenge"]),
        "None" if q["allow"] is None else "(Some [%s])" % "; ".join(hb(i) for i in q["allow"]),
        UV[q.get("uv")], c_wext(q["ext"]))

def cd_tail(extra):
    if not extra: return b""
    return ("," + json.dumps(extra, separators=(",", ":"), ensure_ascii=False)[1:-1]).encode()

def c_cd(cd):
    m = cd.get("mode", "default")
    if m == "extra": return "(CdExtra %s)" % blit(cd_tail(cd["extra"]))
    if m == "hash": return "(CdHash %s)" % hb(cd["hash"])
    return "CdDefault"

def c_prf_out(p):
    return "(Build_prf_client_out %s %s)" % (copt(p["enabled"], cbool), copt(p["results"], c_wvalues))

def wop_case(cfg, op, obs):
    log, res = obs["log"], obs["result"]
    dom = obs["domain"]
    domain = "(Ok %s)" % hb(dom["ok"]) if "ok" in dom else "(Err %s)" % c_werr(dom["err"])
    if op["op"] == "register":
        rand, keys, hmacs = [], [], []
        save = next((e for e in log if e["c"] == "save"), None)
        if save is not None:
            p = save["p"]; rand.append(p["cred_id"])
            if p["hmac"] is not None:
                rand.append(p["hmac"]["w"])
                if p["hmac"]["wo"] is not None: rand.append(p["hmac"]["wo"])
            k = p["key"]; keys.append((k["d"] or "", k["x"], k["y"]))
        if "ok" in res and res["ok"]["prf"] and res["ok"]["prf"]["results"]:
            r = res["ok"]["prf"]["results"]; hmacs.append(r["first"])
            if r["second"] is not None: hmacs.append(r["second"])
        if "err" in res:
            impl = "(Err %s)" % c_werr(res["err"])
        else:
            o = res["ok"]
            cp = "None" if o["cred_props"] is None else "(Some %s)" % copt(o["cred_props"]["rk"], cbool)
            impl = "(Ok (Build_created %s %s %s %s %s (%d)%%Z %s %s %s))" % (
                hb(o["id"]), hb(o["raw_id"]), hb(o["client_data_json"]), hb(o["auth_data"]), copt(o["public_key"], hb), o["alg"],
                hb(o["att_obj"]), cp, copt(o["prf"], c_prf_out))
        return "CRegister %s %s %s %s %s\n  %s\n  %s %s" % (c_config(cfg), domain, hb(obs["origin_str"]), c_reg_request(op["req"]), c_cd(op["cd"]),
                                                          c_log(log), c_queues(rand, keys, [], hmacs), impl)
    sigs, hmacs = [], []
    if "ok" in res:
        sigs.append(res["ok"]["signature"])
        if res["ok"]["prf"] and res["ok"]["prf"]["results"]:
            r = res["ok"]["prf"]["results"]; hmacs.append(r["first"])
            if r["second"] is not None: hmacs.append(r["second"])
        o = res["ok"]
        impl = "(Ok (Build_authenticated %s %s %s %s %s %s %s))" % (
            hb(o["id"]), hb(o["raw_id"]), hb(o["client_data_json"]), hb(o["auth_data"]), hb(o["signature"]),
            copt(o["user_handle"], hb), copt(o["prf"], c_prf_out))
    else:
        hmacs += ["00" * 32, "00" * 32]
        impl = "(Err %s)" % c_werr(res["err"])
    return "CAuthenticate %s %s %s %s %s\n  %s\n  %s %s" % (c_config(cfg), domain, hb(obs["origin_str"]), c_auth_request(op["req"]), c_cd(op["cd"]),
                                                          c_log(log), c_queues([], [], sigs, hmacs), impl)


def reg_op(rng, origin="https://www.example.com", rp_id="example.com", challenge=None, params=(), exclude=None, selection=None, ext=None,
           cd=None, user_id=None, name="wendy", display="Wendy A.", rp_name="Example", allow_localhost=False, android=None):
    return {"op": "register", "origin": origin, "android": android, "allow_localhost": allow_localhost,
            "req": {"rp_id": None if rp_id is None else rp_id.encode().hex(), "rp_name": rp_name.encode().hex(),
                    "user": {"id": (user_id if user_id is not None else bytes(rng.randrange(256) for _ in range(8))).hex(),
                             "name": name.encode().hex(), "display": display.encode().hex()},
                    "challenge": (challenge if challenge is not None else bytes(rng.randrange(256) for _ in range(32))).hex(),
                    "params": list(params), "exclude": None if exclude is None else [e.hex() if isinstance(e, bytes) else e for e in exclude],
                    "selection": selection, "ext": ext},
            "cd": cd or {"mode": "default"}}


def auth_op(rng, origin="https://www.example.com", rp_id="example.com", challenge=None, allow=None, uv="preferred", ext=None, cd=None,
            allow_localhost=False, android=None):
    return {"op": "authenticate", "origin": origin, "android": android, "allow_localhost": allow_localhost,
            "req": {"rp_id": None if rp_id is None else rp_id.encode().hex(),
                    "challenge": (challenge if challenge is not None else bytes(rng.randrange(256) for _ in range(32))).hex(),
                    "allow": None if allow is None else [e.hex() if isinstance(e, bytes) else e for e in allow], "uv": uv, "ext": ext},
            "cd": cd or {"mode": "default"}}


# members of the WebAuthn options the client does not act on (it never waits, never attests, has one authenticator): the
# ceremony must be the same whatever they say; values as the JSON a relying party sends (an unknown string is ignored)
IGNORED_MEMBERS = {
    "attestation": [None, "none", "indirect", "direct", "enterprise", "something-new"],
    "timeout": [None, 0, 1, 60000, 2**32 - 1],
    "hints": [None, [], ["security-key"], ["client-device", "hybrid"], ["something-new"]],
    "attestation_formats": [None, [], ["none"], ["packed"], ["tpm", "apple", "android-key"]],
}

def with_ignored(op, **members):
    """the same operation with some of the ignored members set ("attachment" goes into the registration's selection)"""
    op = json.loads(json.dumps(op))
    for k, v in members.items():
        if v is None:
            continue
        if k == "attachment":
            if op["op"] == "register":
                op["req"]["selection"] = dict(op["req"]["selection"] or {"rk": None, "require_rk": False, "uv": "preferred"}, attachment=v)
        else:
            op["req"][k] = v
    return op

def random_ignored(rng, op):
    if rng.random() < 0.5:
        return op
    return with_ignored(op, attachment=rng.choice([None, "platform", "cross-platform"]),
                        **{k: rng.choice(v) for k, v in IGNORED_MEMBERS.items() if rng.random() < 0.6})


def wext(cred_props=None, prf=None, prf_hashed=None):
    def inp(p):
        if p is None: return None
        ev, by = p
        return {"eval": None if ev is None else {"first": ev[0].hex(), "second": None if ev[1] is None else ev[1].hex()},
                "by_cred": None if by is None else [[k.encode().hex() if isinstance(k, str) else k.hex(), {"first": f.hex(), "second": None if s is None else s.hex()}] for k, f, s in by]}
    return {"cred_props": cred_props, "prf": inp(prf), "prf_hashed": inp(prf_hashed)}


def client_scenario(store_kind="memory", content=(), config=None, user=None, ops=(), disc="full", empty_is_err=False, faults=None):
    sc = scenario(store_kind=store_kind, content=content, config=config, user=user, ops=ops, disc=disc, empty_is_err=empty_is_err, faults=faults)
    sc["mode"] = "client"
    return sc


def wcases_of(scenarios, outputs):
    flat = []
    for si, (sc, out) in enumerate(zip(scenarios, outputs)):
        if "ops" not in out:
            flat.append((si, None, None, out, None)); continue
        for oi, (op, obs) in enumerate(zip(sc["ops"], out["ops"])):
            if "origin_error" in obs:
                continue
            flat.append((si, oi, op, obs, wop_case(sc["config"], op, obs)))
    return flat
