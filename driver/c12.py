"""C12 - authenticator data encoding/decoding (passkey-types/src/ctap2/attestation_fmt.rs, flags.rs, aaguid.rs)."""
import hashlib, itertools, json, os
import common
from common import blit

PROP = "C12"
PREAMBLE = ("From PK Require Import Lib.Bytes Lib.Check Lib.Cbor Wire.AuthData Wire.AuthDataSpec Wire.AuthDataCheck.\n"
            "Open Scope N_scope.\n")
COQ_TARGETS = ["theories/Wire/AuthDataCheck.vo"]
HARNESS_BINS = ["authdata"]
COQ_FILES = ["theories/Wire/AuthDataFacts.v", "theories/Props/C12.v"]

ID_LENS = [0, 1, 16, 64, 255, 256, 1023, 1024, 65535, 65536]
ALGS = [-65535, -260, -259, -258, -257, -47, -46, -45, -44, -43, -42, -41, -40, -39, -38, -37, -36, -35,
        -34, -33, -32, -31, -30, -29, -28, -27, -26, -25, -18, -17, -16, -15, -14, -13, -12, -11, -10,
        -8, -7, -6, -5, -4, -3, 0, 1, 2, 3, 4, 5, 6, 7, 10, 11, 12, 13, 14, 15, 24, 25, 26, 30, 31, 32, 33, 34]
CURVES = [1, 2, 3, 4, 5, 6, 7, 8, 0]
USER_BITS = [1, 4, 8, 16]


# ------------------------------------------------------------------------------------------------
# a small CBOR encoder (definite lengths, shortest heads) for crafted inputs

def cb_head(mt, n):
    if n < 24: return bytes([mt * 32 + n])
    if n < 256: return bytes([mt * 32 + 24, n])
    if n < 65536: return bytes([mt * 32 + 25]) + n.to_bytes(2, "big")
    if n < 1 << 32: return bytes([mt * 32 + 26]) + n.to_bytes(4, "big")
    return bytes([mt * 32 + 27]) + n.to_bytes(8, "big")


def cb(v):
    if v is True: return b"\xf5"
    if v is False: return b"\xf4"
    if v is None: return b"\xf6"
    if isinstance(v, int): return cb_head(0, v) if v >= 0 else cb_head(1, -1 - v)
    if isinstance(v, (bytes, bytearray)): return cb_head(2, len(v)) + bytes(v)
    if isinstance(v, str): return cb_head(3, len(v.encode())) + v.encode()
    if isinstance(v, list): return cb_head(4, len(v)) + b"".join(cb(x) for x in v)
    if isinstance(v, tuple):  # a map given as a tuple of pairs (order and duplicates kept)
        return cb_head(5, len(v)) + b"".join(cb(k) + cb(x) for k, x in v)
    raise ValueError(v)


# ------------------------------------------------------------------------------------------------
# Coq term printers

def blit_rle(b):
    """byte string literal with long constant runs written as [rep x n]"""
    b = bytes(b)
    parts, i, lit = [], 0, bytearray()
    while i < len(b):
        j = i
        while j < len(b) and b[j] == b[i]:
            j += 1
        if j - i >= 48:
            if lit:
                parts.append(blit(lit)); lit = bytearray()
            parts.append("rep %d %d" % (b[i], j - i))
        else:
            lit += b[i:j]
        i = j
    if lit or not parts:
        parts.append(blit(lit))
    return parts[0] if len(parts) == 1 and parts[0].startswith("[") else "(" + " ++ ".join(parts) + ")"


def zlit(n):
    return "(%d)%%Z" % n


def opt(o, f):
    return "None" if o is None else "(Some %s)" % f(o)


def hexlit(h):
    return blit_rle(bytes.fromhex(h))


def step_term(s):
    (name, arg), = s.items()
    if name == "flags":
        return "KFlags %d" % arg
    if name in ("acd", "acd_raw"):
        k = arg["key"]
        return ("KAcd" if name == "acd" else "KAcdRaw") + " %s %s %s %s %s %s" % (hexlit(arg["aaguid"]), hexlit(arg["id"]), zlit(k["crv"]),
                                           hexlit(k["x"]), hexlit(k["y"]), opt(k["alg"], zlit))
    if name == "mc":
        return "KMc %s" % opt(arg, lambda a: "(%s, %s)" % (
            opt(a["hmac_secret"], lambda b: "true" if b else "false"), opt(a["hmac_secret_mc"], hexlit)))
    if name == "ga":
        return "KGa %s" % opt(arg, lambda a: opt(a["hmac_secret"], hexlit))
    if name == "raw":
        return "KRaw %s" % opt(arg, hexlit)
    raise ValueError(name)


def enc_obs_term(o):
    if o.get("panic") or o.get("crash"):
        return "EPanic"
    if o.get("acd_err"):
        return "EAcdErr"
    if "bytes" not in o:
        return "EPanic"
    return "(EBytes %s %d %s)" % (hexlit(o["bytes"]), o["flags"], opt(o["ext"], hexlit))


def dec_obs_term(o, short=False):
    if o.get("panic") or o.get("crash"):
        return "DPanic"
    if not o["ok"]:
        return "dE" if short else "DErr"
    if o["same"]:
        return ("(dS %d %d)" if short else "(DSame %d %d)") % (o["flags"], o["counter"])
    if o.get("re_prefix") is not None:
        return ("(dP %d %d %d)" if short else "(DPrefix %d %d %d)") % (o["re_prefix"], o["flags"], o["counter"])
    a = o["acd"]
    return "(DVal %s %d %d %s %s %s)" % (
        hexlit(o["hash"]), o["flags"], o["counter"],
        opt(a, lambda a: "(%s, %s, %s)" % (hexlit(a["aaguid"]), hexlit(a["id"]), hexlit(a["key"]))),
        opt(o["ext"], hexlit), "true" if o["ext_float"] else "false")


def enc_term(c, o):
    h = hashlib.sha256(c["rp"].encode("utf-8")).digest()   # independent of the sha2 crate
    return "CEnc %s %s [%s] %s" % (blit(h), opt(c["counter"], str), "; ".join(step_term(s) for s in c["steps"]),
                                   enc_obs_term(o))


# ------------------------------------------------------------------------------------------------
# generators

def rbytes(rng, n):
    return bytes(rng.randrange(256) for _ in range(n))


def gen_key(rng, xy_len=32):
    r = rng.random()
    alg = -7 if r < 0.5 else None if r < 0.6 else rng.choice(ALGS)
    crv = 1 if rng.random() < 0.6 else rng.choice(CURVES)
    n = xy_len if rng.random() < 0.8 else rng.choice([0, 1, 23, 24, 31, 33, 66, 255, 256])
    return {"crv": crv, "x": rbytes(rng, n).hex(), "y": rbytes(rng, n if rng.random() < 0.9 else 32).hex(), "alg": alg}


def gen_acd(rng, id_len, fill=None):
    ident = bytes([fill]) * id_len if fill is not None else rbytes(rng, id_len)
    aaguid = bytes(16) if rng.random() < 0.3 else rbytes(rng, 16)
    return {"acd": {"aaguid": aaguid.hex(), "id": ident.hex(), "key": gen_key(rng)}}


EXT_VARIANTS = ["none", "mc_true", "mc_false", "mc_bytes", "mc_both", "mc_null", "mc_empty", "ga_bytes", "ga_null", "ga_empty"]


def gen_ext(rng, variant):
    sec = lambda: rbytes(rng, rng.choice([0, 1, 16, 32, 48, 64, 80])).hex()
    return {
        "none": [],
        "mc_true": [{"mc": {"hmac_secret": True, "hmac_secret_mc": None}}],
        "mc_false": [{"mc": {"hmac_secret": False, "hmac_secret_mc": None}}],
        "mc_bytes": [{"mc": {"hmac_secret": None, "hmac_secret_mc": sec()}}],
        "mc_both": [{"mc": {"hmac_secret": rng.random() < 0.5, "hmac_secret_mc": sec()}}],
        "mc_null": [{"mc": None}],
        "mc_empty": [{"mc": {"hmac_secret": None, "hmac_secret_mc": None}}],
        "ga_bytes": [{"ga": {"hmac_secret": sec()}}],
        "ga_null": [{"ga": None}],
        "ga_empty": [{"ga": {"hmac_secret": None}}],
    }[variant]


RPS = ["example.com", "Example.COM", "EXAMPLE.com", "com.Example.App", "", "a", "future.1password.com", "xn--bcher-kva.example", "bücher.example", "localhost",
       "x" * 55, "x" * 56, "x" * 64, "x" * 119, "x" * 120, "漢字.jp"]
COUNTERS = [None, 0, 1, 255, 256, 65536, 0x01020304, 0x7FFFFFFF, 0x80000000, 0xFFFFFFFF]


def gen_encode_cases(run):
    rng = run.rng
    cases = []
    # systematic: every id length (or no attested data) x all 16 user flag sets; extension variant,
    # counter, RP ID and setter order cycle through
    k = 0
    for id_len in [None] + ID_LENS:
        for bits in range(16):
            uf = sum(b for i, b in enumerate(USER_BITS) if bits >> i & 1)
            steps = []
            if uf or bits % 3 == 0:
                steps.append({"flags": uf})
            if id_len is not None:
                big = id_len >= 65535
                # 65535-byte ids: constant fill (run-length literal) except one with random content
                fill = None if (not big or (id_len == 65535 and bits == 5)) else 0xA0 + bits
                if id_len == 65536 and bits >= 4:
                    continue
                steps.append(gen_acd(rng, id_len, fill))
            steps += gen_ext(rng, EXT_VARIANTS[k % len(EXT_VARIANTS)])
            order = k % 4
            if order == 1: steps.reverse()
            elif order == 2: rng.shuffle(steps)
            cases.append({"op": "encode", "rp": RPS[k % len(RPS)], "counter": COUNTERS[k % len(COUNTERS)], "steps": steps})
            k += 1
    # random: small ids, repeated setters, split flag calls
    n_rand = 800 if run.tier == "quick" else 19000
    for _ in range(n_rand):
        steps = []
        for _ in range(rng.choice([0, 1, 1, 2, 2, 3])):
            steps.append({"flags": rng.choice([0, 1, 4, 5, 8, 16, 24, 29, rng.randrange(32) & 29])})
        r = rng.random()
        if r < 0.65:
            steps.append(gen_acd(rng, rng.choice([0, 1, 2, 15, 16, 17, 32, 64, 100, 255, 256, 257, 300])))
            if rng.random() < 0.08:
                steps.append(gen_acd(rng, rng.choice([0, 16, 33])))       # a second one replaces the first
        for _ in range(rng.choice([0, 1, 1, 1, 2])):
            steps += gen_ext(rng, rng.choice(EXT_VARIANTS[1:]))
        rng.shuffle(steps)
        rp = rng.choice(RPS) if rng.random() < 0.5 else "".join(rng.choice("abcxyz.-0189") for _ in range(rng.randrange(0, 70)))
        counter = rng.choice(COUNTERS) if rng.random() < 0.5 else rng.randrange(1 << 32)
        cases.append({"op": "encode", "rp": rp, "counter": counter, "steps": steps})
    # outside the property's quantifier (model correspondence only): AT/ED through set_flags, pub field assignment
    raws = [cb((("credProtect", 2),)), cb(((1, 2), (3, [1, 2]))), cb(5), cb([1, b"ab"]), cb(()), cb("x"), cb(None)]
    for i in range(40 if run.tier == "quick" else 300):
        steps = []
        if i % 2 == 0:
            steps.append({"flags": rng.choice([64, 128, 192, 65, 129, 221])})
        if i % 3 != 2:
            steps.append({"raw": raws[i % len(raws)].hex() if i % 7 else None})
        if rng.random() < 0.5:
            steps.append(gen_acd(rng, rng.choice([0, 16])))
        elif rng.random() < 0.6:
            steps.append({"acd_raw": gen_acd(rng, rng.choice([0, 16, 65536 if i % 9 == 0 else 20]), 0x33)["acd"]})
        if rng.random() < 0.4:
            steps += gen_ext(rng, rng.choice(EXT_VARIANTS[1:]))
        rng.shuffle(steps)
        cases.append({"op": "encode", "rp": "example.com", "counter": rng.choice(COUNTERS), "steps": steps})
    return cases


YUBIKEY = ("74a6ea9213c99c2f74b22492b320cf40262a94c1a950a0397f29250b60841ef0c500000001"
           "000000000000000000000000000000000030"
           "0c9851dc8bd1ef2d084b201cbf5e4c14044ff88704115e6c5894b869bb453c3fe21eb12244c6e7e96abed30f181b9f86"
           "a50102032620012158200c9851dc8bd1ef2d084b201cbfadd9a697bb48d9d7ff910f0a6ac10b912be958"
           "22582046786f2a9576698c9f3ae2523b4eb94b8e074c35abc4df688fcd85d29a01abba"
           "a16b6372656450726f7465637402")


def gen_decode_inputs(run, encodings):
    """crafted and random inputs for from_slice (beyond cuts and flips)"""
    rng = run.rng
    ins = [bytes.fromhex(YUBIKEY)]
    hdr = lambda fl, cnt=7: bytes(range(32)) + bytes([fl]) + cnt.to_bytes(4, "big")
    key = cb(((1, 2), (3, -7), (-1, 1), (-2, bytes(range(32))), (-3, bytes(range(32, 64)))))
    acd = lambda k, ident=b"\x01\x02\x03": bytes(16) + len(ident).to_bytes(2, "big") + ident + k
    ext = cb((("credProtect", 2),))
    # every flag byte on: a bare header, header+acd+ext, header+ext, header+acd
    for fl in range(256):
        ins += [hdr(fl), hdr(fl) + acd(key) + ext, hdr(fl) + ext, hdr(fl) + acd(key)]
    # length boundary
    for n in (0, 1, 31, 32, 33, 35, 36, 37, 38):
        ins += [bytes([0x18]) * n, bytes([0x00]) * n, bytes([0xFF]) * n]
    # trailing bytes, swapped sections, non-map items
    ins += [hdr(0x18) + b"\x00", hdr(0x18) + ext, hdr(0x58) + acd(key) + b"\xff\xff", hdr(0xD8) + ext + acd(key),
            hdr(0xD8) + acd(key) + ext + b"\x00", hdr(0x98) + cb(5), hdr(0x98) + cb([1, 2]), hdr(0x98) + cb(b"abc"),
            hdr(0x98) + b"\xf9\x3c\x00", hdr(0x98) + b"\xfb" + bytes(8), hdr(0x98) + b"\xbf\x61a\x01\xff",
            hdr(0x98) + b"\xa1\x61a", hdr(0x98) + b"\xff", hdr(0x98) + b"\x1c", hdr(0x98) + b"\xc2\x41\x05"]
    # keys that coset normalises or rejects
    x, y = bytes(range(32)), bytes(range(32, 64))
    variants = [
        ((-3, y), (-2, x), (-1, 1), (3, -7), (1, 2)),                    # reversed order: re-encoded canonically
        ((3, -7), (1, 2), (-1, 1), (-2, x), (-3, y)),
        ((1, 2), (3, -7), (-1, 1), (-2, x), (-3, y), (1, 2)),            # duplicate label
        ((1, 2), (-1, 1), (-1, 1)),
        ((3, -7), (-1, 1), (-2, x), (-3, y)),                            # no kty
        ((1, 0), (3, -7)),                                               # kty Reserved
        ((1, 7),), ((1, 1), (-1, 6), (-2, x)), ((1, 3), (3, -257), (-1, b"\x01\x00\x01"), (-2, b"\x05")),
        ((1, "EC2"), (3, "ES256")), ((1, 2), (3, -9)), ((1, 2), (3, -65536)), ((1, 2), (3, -65537)),
        ((1, 2), (2, b"kid"), (3, -7)), ((1, 2), (2, b"")), ((1, 2), (2, "kid")),
        ((1, 2), (4, [2, 1])), ((1, 2), (4, [1, 1])), ((1, 2), (4, [])), ((1, 2), (4, [11])), ((1, 2), (4, ["zz", "b", 10, 2, "a"])),
        ((1, 2), (5, b"iv")), ((1, 2), (5, b"")), ((1, 2), ("a", 1), ("a", 2)), ((1, 2), ("b", 1), ("a", 2), (6, [1, (("k", None),)])),
        ((1, 2), (1 << 63, 0)), ((1, 2), ((1 << 63) - 1, 0)), ((1, 2), (-(1 << 63) - 1, 0)), ((1, 2), (-(1 << 63), 0)),
        ((1, 2), (b"k", 0)), ((1, 2), (None, 0)), ((1, 1 << 63),), ((1, 2), (3, (1 << 64) - 1)),
    ]
    for v in variants:
        ins += [hdr(0x58) + acd(cb(v)), hdr(0xD8) + acd(cb(v)) + ext]
    ins += [hdr(0x58) + acd(cb([1, 2])), hdr(0x58) + acd(cb(7)), hdr(0x58) + acd(b"\xbf\x01\x02\x03\x26\xff"),
            hdr(0x58) + acd(b"\xb8\x01\x01\x02"), hdr(0x58) + acd(b"\xa1\x18\x01\x02"), hdr(0x58) + acd(b"\xa1\x01\x18\x02")]
    # id length field vs what follows
    for ln in (0, 1, 2, 3, 4, 255, 256, 65535):
        ins.append(hdr(0x58) + bytes(16) + ln.to_bytes(2, "big") + b"\x01\x02\x03" + key)
    # random strings
    for _ in range(150 if run.tier == "quick" else 3000):
        n = rng.choice([36, 37, 38, 40, 55, 56, 60, 100, 140])
        b = bytearray(rbytes(rng, n))
        if n > 32 and rng.random() < 0.8:
            b[32] = rng.choice([0x18, 0x58, 0x98, 0xD8, 0x41, 0x81, 0xC5])
        ins.append(bytes(b))
    # mutations of real encodings: splice, duplicate a section, drop a byte, insert a byte
    for e in encodings[: (30 if run.tier == "quick" else 300)]:
        b = bytes.fromhex(e)
        i = rng.randrange(len(b))
        ins += [b + b[37:], b[:i] + b[i + 1:], b[:i] + bytes([rng.randrange(256)]) + b[i:], b + bytes([rng.randrange(256)])]
    return ins


def gen_cose_inputs(run):
    rng = run.rng
    labels = [1, 2, 3, 4, 5, -1, -2, -3, -4, 6, 0, 24, -25, "a", "kid", (1 << 63) - 1, 1 << 63, -(1 << 63), -(1 << 63) - 1]
    def val_for(l):
        r = rng.random()
        if r < 0.12:
            return rng.choice([0, -1, b"", b"x", "t", [], [1], None, True, ((1, 2),), (1 << 64) - 1, -(1 << 64)])
        if l == 1: return rng.choice([1, 2, 3, 4, 5, 6, 0, 7, -1, "EC2", 2, 2, 2])
        if l == 2 or l == 5: return rng.choice([b"k", b"kid", b"", rbytes(rng, 16)])
        if l == 3: return rng.choice(ALGS + [-7, -7, -9, 8, 9, 35, -65536, -65537, -70000, -(1 << 63), -(1 << 63) - 1, "ES256", ""])
        if l == 4:
            ops = [rng.choice([1, 2, 3, 4, 5, 6, 7, 8, 9, 10, 10, 0, 11, "a", "b", "ab", "", "zz", "é"]) for _ in range(rng.randrange(0, 5))]
            return ops
        return rng.choice([1, rbytes(rng, 32), rbytes(rng, 2), "v", [1, [2]], (("n", 1),), None, False])
    out = []
    for _ in range(400 if run.tier == "quick" else 5000):
        n = rng.choice([0, 1, 2, 3, 4, 5, 5, 6, 8])
        ls = [rng.choice(labels) for _ in range(n)]
        if rng.random() < 0.75 and 1 not in ls:
            ls.insert(rng.randrange(len(ls) + 1), 1)
        if rng.random() < 0.7:
            ls = list(dict.fromkeys(ls))   # mostly without duplicates
        out.append(cb(tuple((l, val_for(l)) for l in ls)))
    out += [cb(5), cb([1]), cb("x"), b"", b"\xa1\x01", b"\xbf\x01\x02\xff", b"\xbf\x03\x26\x01\x02\xff", b"\xa1\x01\xc2\x41\x02",
            b"\xa2\x01\x02\xc2\x41\x03\x26", b"\xa1\x18\x01\x02", b"\xa2\x01\x02\x04\x9f\x02\x01\xff"]
    return out


def key_payload_positions(b, case):
    """positions of an encoding that are plain payload (hash, aaguid, id, x, y, counter): flipping them
    cannot change the structure"""
    plain = set(range(0, 32)) | set(range(33, 37))
    acds = [s["acd"] for s in case["steps"] if "acd" in s]
    if acds:
        a = acds[-1]
        idl = len(a["id"]) // 2
        plain |= set(range(37, 53)) | set(range(55, 55 + idl))
        for coord in (a["key"]["x"], a["key"]["y"]):
            raw = bytes.fromhex(coord)
            if len(raw) >= 8:
                at = b.find(raw, 55 + idl)
                if at >= 0:
                    plain |= set(range(at, at + len(raw)))
    for st in case["steps"]:       # extension secrets
        for name in ("mc", "ga"):
            if st.get(name):
                for v in st[name].values():
                    if isinstance(v, str) and len(v) >= 16:
                        at = b.rfind(bytes.fromhex(v))
                        if at >= 37:
                            plain |= set(range(at, at + len(v) // 2))
    return plain


def pick_encodings(run, enc_cases, enc_out, n):
    """a spread of valid, in-scope encodings for the cut / corruption sweeps (small ones: the sweeps are quadratic)"""
    seen, picks = set(), []
    for c, o in zip(enc_cases, enc_out):
        if "bytes" not in o or len(o["bytes"]) > 2 * 420:
            continue
        if any("raw" in s or "acd_raw" in s or ("flags" in s and s["flags"] & ~29) for s in c["steps"]):
            continue
        acds = [s["acd"] for s in c["steps"] if "acd" in s]
        sig = (bool(acds), len(acds[-1]["id"]) // 2 if acds else -1, acds[-1]["key"]["alg"] is None if acds else None,
               tuple(k for s in c["steps"] for k in s if k in ("mc", "ga")) if o["ext"] else (), o["flags"] & 0xC0)
        if sig in seen:
            continue
        seen.add(sig); picks.append((c, o))
    # prefer variety in sections first
    picks.sort(key=lambda co: (-(co[1]["flags"] >> 6), len(co[1]["bytes"])))
    by_sec = {}
    for co in picks:
        by_sec.setdefault(co[1]["flags"] >> 6, []).append(co)
    out, i = [], 0
    while len(out) < n and any(by_sec.values()):
        for sec in (3, 1, 2, 0):
            if by_sec.get(sec) and len(out) < n and (sec != 0 or i == 0):
                out.append(by_sec[sec].pop(0))
        i += 1
        if all(not v for k, v in by_sec.items() if k != 0):
            break
    return out


# ------------------------------------------------------------------------------------------------

def check(run):
    bad = common.hygiene_gate()
    if bad:
        raise common.Tie("hygiene gate: " + "; ".join(bad))
    common.coq_build(COQ_TARGETS)
    thms, assum = common.props_check(PROP)
    binary = common.harness_build("authdata")
    rng = run.rng
    quick = run.tier == "quick"

    terms, all_cases = [], []
    def add(kind, case, obs, term):
        terms.append(term); all_cases.append((kind, case, obs))

    # ---- corpus first
    for c in corpus():
        o = common.harness_one(binary, c)
        if c["op"] == "encode": add("encode", c, o, enc_term(c, o))
        elif c["op"] == "decode": add("decode", c, o, "CDec %s %s" % (hexlit(c["input"]), dec_obs_term(o)))
        elif c["op"] == "cose": add("cose", c, o, cose_term(c, o))

    # ---- phase 1: encoder
    enc_cases = gen_encode_cases(run)
    enc_out = common.harness_run(binary, enc_cases)
    for c, o in zip(enc_cases, enc_out):
        add("encode", c, o, enc_term(c, o))

    # ---- phase 1b: decode(encode(v)) for EVERY value built with the constructor and setters in this run (all id
    # lengths up to 65535, every section combination): the implementation must accept its own encoding and give the
    # value back.  Judged without the model (re-encoding equals the input, flags and counter read back, attested id
    # and extension bytes are those put in); the model is compared on the same inputs (CDec).
    rt_cases, rt_seen = [], set()
    for c, o in zip(enc_cases, enc_out):
        if "bytes" not in o or o["bytes"] in rt_seen:
            continue
        if any("raw" in s_ or "acd_raw" in s_ or ("flags" in s_ and s_["flags"] & ~29) for s_ in c["steps"]):
            continue
        rt_seen.add(o["bytes"]); rt_cases.append((c, o))
    rt_out = common.harness_run(binary, [{"op": "decode", "input": o["bytes"]} for _, o in rt_cases])
    rt_fail = []
    for (c, o), d in zip(rt_cases, rt_out):
        acds = [s_["acd"] for s_ in c["steps"] if "acd" in s_]
        why = None
        if d.get("panic") or d.get("crash"): why = "from_slice panicked on the library's own encoding"
        elif not d.get("ok"): why = "from_slice rejects the library's own encoding"
        elif not (d["same"] or d.get("ext_float")): why = "decoding and re-encoding does not give the same bytes"
        elif d["flags"] != o["flags"]: why = "flags read back differ"
        elif d["counter"] != (c["counter"] or 0): why = "counter reads back as %s" % d["counter"]
        elif bool(acds) != (d["acd"] is not None): why = "attested credential data presence differs"
        elif acds and d["acd"]["id"] != acds[-1]["id"]: why = "credential id reads back differently"
        elif (o["ext"] is None) != (d["ext"] is None): why = "extension section presence differs"
        if why:
            rt_fail.append(({"op": "decode", "input": o["bytes"] if len(o["bytes"]) < 6000 else o["bytes"][:6000] + "...",
                             "built_by": c if len(json.dumps(c)) < 6000 else {"rp": c["rp"], "counter": c["counter"], "steps": "(%d steps, id of %d bytes)" % (len(c["steps"]), len(acds[-1]["id"]) // 2 if acds else 0)},
                             "note": why}, d))
        add("decode", {"op": "decode", "input": o["bytes"]}, d, "CDec %s %s" % (hexlit(o["bytes"]), dec_obs_term(d)))
    for c2, d in rt_fail[:3]:
        run.violation({"kind": "round trip: " + c2["note"], "case": c2, "observed": trim(d)})

    # ---- phase 2: every truncation and single-byte corruptions of a spread of encodings
    picks = pick_encodings(run, enc_cases, enc_out, 20 if quick else 200)
    cut_in = [{"op": "cuts", "input": o["bytes"]} for _, o in picks]
    flip_picks = picks if quick else picks[:60]
    sweep_picks = picks[:6] if quick else picks[:30]
    flip_in, sweep_in = [], []
    for c, o in flip_picks:
        b = bytes.fromhex(o["bytes"])
        plain = key_payload_positions(b, c)
        flips = []
        for pos in range(len(b)):
            if pos in plain:   # payload byte: one bit, all bits, a random value
                vals = {b[pos] ^ (1 << rng.randrange(8)), b[pos] ^ 0xFF, rng.randrange(256)}
            else:              # structural byte: every single-bit corruption and two random values
                vals = {b[pos] ^ (1 << k) for k in range(8)} | {rng.randrange(256), rng.randrange(256)}
            flips += [[pos, v] for v in sorted(vals) if v != b[pos]]
        flip_in.append({"op": "flips", "input": o["bytes"], "flips": flips})
    for c, o in sweep_picks:   # structural bytes: every value
        b = bytes.fromhex(o["bytes"])
        plain = key_payload_positions(b, c)
        struct = [p for p in range(len(b)) if p not in plain]
        if len(struct) > 40:
            struct = struct[:25] + rng.sample(struct[25:], 15)
        sweep_in += [{"op": "sweep", "input": o["bytes"], "pos": p} for p in struct]
    sweep_out = common.harness_run(binary, cut_in + flip_in + sweep_in, nproc=common.NPROC)
    n_cuts = n_flips = 0
    for c, o in zip(cut_in, sweep_out[:len(cut_in)]):
        outs = o.get("outs")
        if outs is None:
            add("cuts", c, o, "CCuts %s [DPanic]" % hexlit(c["input"])); continue
        n_cuts += len(outs)
        add("cuts", c, {"accepted_lengths": [i for i, x in enumerate(outs) if x.get("ok")],
                        "panic_lengths": [i for i, x in enumerate(outs) if x.get("panic")]},
            "CCuts %s [%s]" % (hexlit(c["input"]), "; ".join(dec_obs_term(x, True) for x in outs)))
    for c, o in zip(flip_in, sweep_out[len(cut_in):len(cut_in) + len(flip_in)]):
        outs = o.get("outs")
        if outs is None:
            add("flips", c, o, "CFlips %s [(0, 0, DPanic)]" % hexlit(c["input"])); continue
        # split into chunks so that a failing case is small
        for i in range(0, len(outs), 400):
            fl, ou = c["flips"][i:i + 400], outs[i:i + 400]
            n_flips += len(fl)
            add("flips", {"op": "flips", "input": c["input"], "flips": fl}, {"outs": ou},
                "CFlips %s [%s]" % (hexlit(c["input"]), "; ".join("(%d, %d, %s)" % (p, v, dec_obs_term(x, True)) for (p, v), x in zip(fl, ou))))
    for c, o in zip(sweep_in, sweep_out[len(cut_in) + len(flip_in):]):
        outs = o.get("outs")
        if outs is None:
            add("sweep", c, o, "CSweep %s %d [DPanic]" % (hexlit(c["input"]), c["pos"])); continue
        n_flips += 255
        add("flips", {"op": "flips", "input": c["input"], "flips": [[c["pos"], v] for v in range(256)]}, {"outs": outs},
            "CSweep %s %d [%s]" % (hexlit(c["input"]), c["pos"], "; ".join(dec_obs_term(x, True) for x in outs)))

    # ---- phase 3: crafted / random decoder inputs, COSE keys, the constructor's length guard
    dec_in = [{"op": "decode", "input": b.hex()} for b in gen_decode_inputs(run, [o["bytes"] for _, o in picks])]
    cose_in = [{"op": "cose", "input": b.hex()} for b in gen_cose_inputs(run)]
    new_in = [{"op": "acd_new", "len": n} for n in (0, 1, 255, 65534, 65535, 65536, 65537, 70000, 131072)]
    out3 = common.harness_run(binary, dec_in + cose_in + new_in)
    for c, o in zip(dec_in, out3[:len(dec_in)]):
        add("decode", c, o, "CDec %s %s" % (hexlit(c["input"]), dec_obs_term(o)))
    for c, o in zip(cose_in, out3[len(dec_in):len(dec_in) + len(cose_in)]):
        add("cose", c, o, cose_term(c, o))
    for c, o in zip(new_in, out3[len(dec_in) + len(cose_in):]):
        add("acd_new", c, o, "CAcdNew %d %s" % (c["len"], "true" if o.get("ok") else "false"))

    res = common.coq_eval(PROP, PREAMBLE, terms, ["agree", "oracle"], shard=100, shard_chars=200000)

    # ---- verdict
    for i in res["oracle"][:3]:
        kind, c, o = all_cases[i]
        c, o = narrow(binary, kind, c, o)
        run.violation({"kind": "property oracle false on the implementation's observation (%s)" % kind,
                       "case": c, "observed": trim(o)})
    if not res["oracle"] and not rt_fail:
        for i in res["agree"][:1]:
            kind, c, o = all_cases[i]
            run.violation({"kind": "model and implementation disagree (%s); oracle true on all %d cases of this run" % (kind, len(terms)),
                           "broken": "correspondence authdata/%s (Wire.AuthDataCheck.agree)" % kind,
                           "case": c, "observed": trim(o)}, found_input=False)

    n_lem = common.count_lemmas(COQ_FILES)
    sig = set()
    for kind, c, o in all_cases:
        if kind == "encode":
            acds = [s["acd"] for s in c["steps"] if "acd" in s]
            idl = len(acds[-1]["id"]) // 2 if acds else -1
            sig.add(("enc", idl if idl < 70 or idl in ID_LENS else idl // 50, o.get("flags"), tuple(sorted(k for s in c["steps"] for k in s)),
                     c["counter"] is None, len(o.get("ext") or "") // 2))
        elif kind == "decode":
            b = bytes.fromhex(c["input"])
            sig.add(("dec", min(len(b), 38), b[32] if len(b) > 32 else -1, o.get("ok"), o.get("same"), len(b) // 16))
        elif kind == "cuts":
            sig.add(("cuts", len(c["input"]) // 2))
        elif kind == "flips":
            for (p, v), x in zip(c["flips"], o["outs"]):
                sig.add(("flip", len(c["input"]) // 2, p, x.get("ok"), x.get("same")))
        elif kind == "cose":
            sig.add(("cose", c["input"][:12], o.get("ok"), o.get("re") == c["input"]))
        else:
            sig.add((kind, json.dumps(c)))
    lit_bytes = sum(t.count(";") for t in terms)
    run.cov.update({
        "obligations": n_lem, "discharged": n_lem,
        "checker_cmd": "make -C coq theories/Props/C12.vo (coqc 8.16.1, full .vo build) + hygiene gate + Print Assumptions",
        "trusted_base": ["Coq 8.16.1 kernel, vm_compute", "Lib/Cbor.v as the specification of ciborium 0.2.2 and Wire/AuthData.v (cose_*) as the specification of coset 0.3.8 CoseKey<->Value, both tied by differential runs",
                         "correspondence harness (pkharness authdata) + driver/c12.py; SHA-256 of the RP ID computed by Python hashlib",
                         "Print Assumptions: %d closed under the global context, axioms: %s" % (assum["closed"], assum["with_allowed_axioms"] or "none")],
        "theorems": thms,
        "evaluations": len(enc_cases) + n_cuts + n_flips + len(dec_in) + len(cose_in) + len(new_in),
        "distinct_nontrivial": len(sig),
        "rule": "encode: id lengths %s x all 16 user flag sets x extension variants %s x counters incl. None/0/2^32-1, setter orders, repeated setters, random; "
                "plus out-of-scope builders (AT/ED via set_flags, pub-field assignment) for model correspondence only; "
                "decode: every truncation of %d encodings, single-byte corruptions of %d (structural bytes: all 8 single-bit flips + 2 random values, and every value 0..255 on %d (position, encoding) pairs; payload bytes: 3 values), "
                "all 256 flag bytes on 4 bodies, length boundary, crafted COSE keys (order, duplicates, registries, kid/iv/key_ops), trailing bytes, random; "
                "cose: random key maps through CoseKey::from_cbor_value/to_vec; distinct = structural signature per kind"
                % (ID_LENS, EXT_VARIANTS, len(cut_in), len(flip_in), len(sweep_in)),
        "samples": [terms[len(corpus())][:300], next((t for t in terms if t.startswith("CCuts")), "")[:300], terms[-20][:300]],
        "model_disagreements": len(res["agree"]), "oracle_failures": len(res["oracle"]),
        "round_trip_cases": len(rt_cases), "round_trip_failures": len(rt_fail),
        "round_trip_id_lengths": sorted(set(len([s_["acd"] for s_ in c["steps"] if "acd" in s_][-1]["id"]) // 2 for c, _ in rt_cases if any("acd" in s_ for s_ in c["steps"]))),
        "encode_cases": len(enc_cases), "cut_inputs": n_cuts, "flip_inputs": n_flips, "decode_cases": len(dec_in),
        "cose_cases": len(cose_in), "case_terms": len(terms), "literal_bytes": lit_bytes,
    })
    run.assumptions += ["ciborium::de::from_reader on a std::io::Cursor consumes exactly one item (tied by the acd+ext decode cases)",
                        "extension values containing floats are compared for presence only (ciborium re-encodes floats at the shortest width)"]


def cose_term(c, o):
    if o.get("cbor") is False:
        impl = "None"
    elif not o.get("ok"):
        impl = "(Some None)"
    else:
        impl = "(Some (Some %s))" % hexlit(o["re"])
    return "CCose %s %s" % (hexlit(c["input"]), impl)


def trim(o):
    s = json.dumps(o)
    return o if len(s) < 4000 else s[:4000] + "..."


def narrow(binary, kind, c, o):
    """reduce a failing sweep case to one input"""
    if kind == "cuts":
        b = bytes.fromhex(c["input"])
        for n in o.get("panic_lengths", []):
            c2 = {"op": "decode", "input": b[:n].hex(), "note": "from_slice panics on this %d-byte prefix of a valid encoding" % n, "full": c["input"]}
            return c2, common.harness_one(binary, c2)
        for n in o.get("accepted_lengths", []):
            if n < len(b):
                c2 = {"op": "decode", "input": b[:n].hex(), "note": "strict prefix (%d of %d bytes) of a valid encoding is accepted" % (n, len(b)), "full": c["input"]}
                return c2, common.harness_one(binary, c2)
        c2 = {"op": "decode", "input": c["input"], "note": "valid encoding (or one of its prefixes) is not handled as the property requires"}
        return c2, common.harness_one(binary, c2)
    if kind == "flips":
        b = bytearray.fromhex(c["input"])
        # re-evaluate one by one in Coq is expensive; report the panics / header inconsistencies found in Python
        for (p, v), x in zip(c["flips"], o["outs"]):
            m = bytearray(b); m[p] = v
            bad = x.get("panic") or (x.get("ok") and (m[32] & 0x22 or x["flags"] != m[32] or x["counter"] != int.from_bytes(m[33:37], "big")))
            if bad:
                return {"op": "decode", "input": bytes(m).hex()}, x
    return c, o


def corpus():
    d = os.path.join(common.VERIF, "corpus", PROP)
    out = []
    if os.path.isdir(d):
        for f in sorted(os.listdir(d)):
            if f.endswith(".json"):
                out.append(json.load(open(os.path.join(d, f))))
    return out


def replay(payload):
    binary = common.harness_build("authdata")
    c = {k: v for k, v in payload["case"].items() if k not in ("note", "full")}
    print(json.dumps(common.harness_one(binary, c))[:4000])
    return 0
