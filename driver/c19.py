"""C19 - shared-store concurrency never reuses a counter or loses a credential."""
import itertools, json
import common, ceremony
from ceremony import *

PROP = "C19"
COQ_TARGETS = ceremony.COQ_TARGETS + ["theories/Auth/Sched.vo"]
HARNESS_BINS = ceremony.HARNESS_BINS
KNOWN = "overlapping-assertions-reuse-counter"


def replay(payload):
    binary = common.harness_build("ceremony")
    print(json.dumps(common.harness_one(binary, payload["scenario"]))[:4000])
    return 0


def merges(counts):
    if all(c == 0 for c in counts):
        yield []
        return
    for i, c in enumerate(counts):
        if c:
            counts[i] -= 1
            for rest in merges(counts):
                yield [i] + rest
            counts[i] += 1


def polls_of(op):
    """number of polls a ceremony needs alone: one per yielding call (store calls, user check) + 1"""
    if op["op"] == "get_assertion":
        return 4          # find, check, update, done
    n = 3 + 1             # check, info, save, done
    if op["req"]["opts"]["rk"]: n += 1
    if op["req"]["exclude"]: n += 1
    return n


def put(content, p):
    out, done = [], False
    for x in content:
        if x["cred_id"] == p["cred_id"] and not done:
            out.append(p); done = True
        else:
            out.append(x)
    if not done: out.append(p)
    return out


def judge(sc, out, run):
    """returns (violations, known hits)"""
    fails, known = [], []
    if "results" not in out:
        return ["the worker crashed: %s" % json.dumps(out)[:200]], known
    if out["deadlock"] or any(r is None for r in out["results"]):
        fails.append("deadlock: ceremonies unfinished although every one was polled repeatedly")
        return fails, known
    # the store is what the global order of mutations says
    content = list(sc["store"]["content"])
    for e in out["log"]:
        if e["c"] in ("save", "update") and "ok" in e["r"]:
            content = put(content, e["p"])
    canon = lambda c: sorted(json.dumps(p, sort_keys=True) for p in c)
    if canon(content) != canon(out["store_after"]):
        fails.append("final store is not the initial content with the logged saves/updates applied in order")
    # every successful registration's credential is present afterwards
    for op, res in zip(sc["ceremonies"], out["results"]):
        if op["op"] == "make_credential" and "ok" in res:
            cid = res["ok"]["auth_data"]["acd"]["cred_id"]
            if not any(p["cred_id"] == cid for p in out["store_after"]):
                fails.append("a successfully registered credential is missing from the store afterwards")
    # counters of successful assertions per credential
    by_cred = {}
    for i, (op, res) in enumerate(zip(sc["ceremonies"], out["results"])):
        if op["op"] == "get_assertion" and "ok" in res and res["ok"]["auth_data"]["counter"] is not None:
            by_cred.setdefault(res["ok"]["cred_id"], []).append((i, res["ok"]["auth_data"]["counter"]))
    for cid, lst in by_cred.items():
        vals = [v for _, v in lst]
        stored = next((p["counter"] for p in out["store_after"] if p["cred_id"] == cid), None)
        bad = len(set(vals)) != len(vals) or stored != max(vals)
        if bad:
            # do the find..update windows of two of these assertions overlap?
            win = {}
            for pos, e in enumerate(out["log"]):
                t = e.get("tag")
                if e["c"] == "find": win.setdefault(t, [pos, None])
                if e["c"] == "update": win.setdefault(t, [None, None])[1] = pos
            tags = [i for i, _ in lst]
            overlap = any(win[a][0] is not None and win[b][0] is not None and win[a][1] is not None and
                          win[a][0] < win[b][0] < win[a][1] for a in tags for b in tags if a != b and a in win and b in win)
            if overlap:
                known.append(KNOWN)
            else:
                fails.append("assertions on one credential reported %s, stored %s, without overlapping lookup..update windows" % (vals, stored))
    return fails, known


def per_ceremony_cases(sc, out):
    """each ceremony's own call log replayed against the model program"""
    cases = []
    for i, (op, res) in enumerate(zip(sc["ceremonies"], out["results"])):
        log = [e for e in out["log"] if e.get("tag") == i]
        obs = {"log": log, "result": res}
        cases.append((i, op, obs, ceremony.op_case(sc["config"], op, obs)))
    return cases


def build(run):
    rng = run.rng
    cid = bytes([0xC1]) * 16
    def base_with(counter):
        return [mk_passkey(rng, "example.com", cred_id=cid, counter=counter, keyidx=0),
                mk_passkey(rng, "other.org", cred_id=bytes([0xC2]) * 16, counter=None, keyidx=1)]
    base = base_with(7)
    fresh = base_with(0)          # a credential as registration leaves it: counter Some(0)
    A = lambda: {"op": "get_assertion", "req": ga_req(rng, allow=[cid])}
    A2 = lambda: {"op": "get_assertion", "req": ga_req(rng, rp="other.org", allow=[bytes([0xC2]) * 16])}
    As = lambda: {"op": "get_assertion", "req": ga_req(rng, allow=[cid], up=False, uv=False)}      # silent assertion (no presence required)
    Rg = lambda rk=False, ex=None: {"op": "make_credential", "req": mc_req(rng, rk=rk, exclude=ex)}
    groups = [(g, base) for g in ([A(), A()], [A(), Rg()], [Rg(), Rg()], [A(), A2()], [A(), Rg(rk=True)], [Rg(ex=[cid]), A()])]
    groups += [([A(), A()], fresh), ([A(), Rg()], fresh), ([A(), As()], base), ([As(), As()], fresh)]
    # a registration for the SAME account (RP and user handle) as the credential an overlapping assertion writes back
    RgSame = lambda: {"op": "make_credential", "req": mc_req(rng, rk=True, user_id=b"\x01\x02")}
    groups += [([A(), RgSame()], base), ([RgSame(), A()], fresh)]
    if run.tier != "quick":
        groups += [(g, base) for g in ([A(), A(), A()], [A(), A(), Rg()], [A(), Rg(), Rg()], [Rg(), Rg(), Rg()])]
        groups += [([A(), A(), A()], fresh)]
    kinds = ["arc_mutex_memory", "arc_rwlock_memory"] if run.tier == "quick" else ["arc_mutex_memory", "arc_rwlock_memory", "arc_mutex_ref", "arc_rwlock_ref"]
    scs, n_exh = [], 0
    for g, content in groups:
        counts = [polls_of(o) for o in g]
        allm = list(merges(list(counts)))
        exhaustive = True
        cap = 260 if run.tier == "quick" else 2500
        if len(allm) > cap:
            allm = rng.sample(allm, cap); exhaustive = False
        for kind in (kinds + (["arc_mutex_ref"] if run.tier == "quick" and [o["op"] for o in g] in (["make_credential", "make_credential"], ["get_assertion", "make_credential"]) and content is base else [])):
            for sched in allm:
                scs.append({"mode": "concurrent", "config": {"aaguid": "00" * 16, "counter": True, "id_len": 16, "hmac": None},
                            "store": {"kind": kind, "disc": "full", "empty_is_err": False, "content": content},
                            "user": {"verif_enabled": True, "presence_enabled": True, "script": [{"presence": True, "verification": True}]},
                            "ceremonies": g, "schedule": sched})
                n_exh += exhaustive
    # three assertions with one credential, one of them suspended after p polls while the other two run to completion one after the
    # other (so the stored counter is two ahead when it resumes), on every shared store kind
    for kind in ("arc_mutex_memory", "arc_rwlock_memory", "arc_mutex_ref", "arc_rwlock_ref"):
        for content in (base, fresh):
            g = [A(), A(), A()]
            for paused in range(3):
                for p in (1, 2, 3):
                    others = [i for i in range(3) if i != paused]
                    sched = [paused] * p + [i for i in others for _ in range(polls_of(g[i]))] + [paused] * (polls_of(g[paused]) - p + 1)
                    scs.append({"mode": "concurrent", "config": {"aaguid": "00" * 16, "counter": True, "id_len": 16, "hmac": None},
                                "store": {"kind": kind, "disc": "full", "empty_is_err": False, "content": content},
                                "user": {"verif_enabled": True, "presence_enabled": True, "script": [{"presence": True, "verification": True}]},
                                "ceremonies": g, "schedule": sched})
    # one store call refused (fault injected at call index k) in strictly sequential runs of two / three assertions and a
    # registration: a refused counter write must fail that assertion, never produce a report the store does not hold
    for kind in kinds[:2]:
        for g in ([A(), A()], [A(), A(), A()], [A(), Rg(), A()]):
            sched = [i for i, o in enumerate(g) for _ in range(polls_of(o))]            # ceremony 0 to completion, then 1, ...
            n_calls = sum(polls_of(o) - 1 for o in g)
            for k in range(n_calls):
                for code in (0x28, 0x2E):
                    scs.append({"mode": "concurrent", "config": {"aaguid": "00" * 16, "counter": True, "id_len": 16, "hmac": None},
                                "store": {"kind": kind, "disc": "full", "empty_is_err": False, "content": base},
                                "user": {"verif_enabled": True, "presence_enabled": True, "script": [{"presence": True, "verification": True}]},
                                "ceremonies": g, "schedule": sched, "faults": [{"at": k, "code": code}]})
    # long random schedules over more ceremonies
    for _ in range(30 if run.tier == "quick" else 600):
        g = [rng.choice([A, A, A2, Rg])() for _ in range(rng.randrange(2, 6))]
        sched = [i for i, o in enumerate(g) for _ in range(polls_of(o))]
        rng.shuffle(sched)
        scs.append({"mode": "concurrent", "config": {"aaguid": "00" * 16, "counter": True, "id_len": 16, "hmac": None},
                    "store": {"kind": rng.choice(kinds), "disc": "full", "empty_is_err": False, "content": rng.choice([base, fresh])},
                    "user": {"verif_enabled": True, "presence_enabled": True, "script": [{"presence": True, "verification": True}]},
                    "ceremonies": g, "schedule": sched})
    return scs, n_exh


def held_lock_scenarios(run):
    """one ceremony on a shared store while somebody else (another handle on the same Arc) holds the store's lock for a
    window of the schedule: the ceremony must wait, not answer as if the store were empty / skip its write"""
    rng = run.rng
    cid = bytes([0xC1]) * 16
    base = [mk_passkey(rng, "example.com", cred_id=cid, counter=7, keyidx=0)]
    ops = [("assert", {"op": "get_assertion", "req": ga_req(rng, allow=[cid])}),
           ("register-excluded", {"op": "make_credential", "req": mc_req(rng, exclude=[cid])}),
           ("register", {"op": "make_credential", "req": mc_req(rng, rk=True)})]
    scs = []
    kinds = ["arc_rwlock_memory", "arc_mutex_memory", "arc_rwlock_ref", "arc_mutex_ref"]
    for kind in kinds:
        for tag, op in ops:
            n = polls_of(op)
            for hold in ("write", "read"):
                if hold == "read" and "mutex" in kind:
                    continue
                for frm in range(0, n):
                    for to in (frm + 1, frm + 2):
                        scs.append({"mode": "concurrent", "config": {"aaguid": "00" * 16, "counter": True, "id_len": 16, "hmac": None},
                                    "store": {"kind": kind, "disc": "full", "empty_is_err": False, "content": base},
                                    "user": {"verif_enabled": True, "presence_enabled": True, "script": [{"presence": True, "verification": True}]},
                                    "ceremonies": [op], "schedule": [0] * (n + 3), "hold": {"kind": hold, "from": frm, "to": to}, "held_tag": tag})
    # two ceremonies of two authenticators QUEUE on a lock that somebody else holds, then the lock is released: ceremony B was
    # advanced b polls and ceremony A a polls before the holder took the lock; both are polled once while it is held (so their next
    # store calls wait in that order), then everything drains.  A = assertion without allow list (a lookup that goes through the
    # wrapper's whole read path), B = assertion on another credential / on the same credential.
    cid2 = bytes([0xC2]) * 16
    two = base + [mk_passkey(rng, "example.com", cred_id=cid2, counter=3, keyidx=1)]
    for kind in ("arc_rwlock_ref", "arc_mutex_ref", "arc_rwlock_memory", "arc_mutex_memory"):
        mem = "memory" in kind
        for same in (False, True):
            opA = {"op": "get_assertion", "req": ga_req(rng, allow=[cid] if (mem or same) else None)}
            opB = {"op": "get_assertion", "req": ga_req(rng, allow=[cid] if same else [cid2])}
            for a in range(0, 4):
                for b in range(0, 4):
                    for order in ((0, 1), (1, 0)):
                        for hold in (("write", "read") if "rwlock" in kind else ("write",)):
                            pre = [1] * b + [0] * a
                            sched = pre + list(order) + [0, 1] * 6
                            # issue order is known by construction (every store call yields once before it is made): after 3 polls B has
                            # done its lookup and consent and stands before its counter update, after at most 1 poll A stands before
                            # its lookup; polled in the order B, A while the lock is held, B's update waits for the lock ahead of A's lookup
                            ordered = same and b == 3 and a <= 1 and order == (1, 0)
                            scs.append({"mode": "concurrent", "config": {"aaguid": "00" * 16, "counter": True, "id_len": 16, "hmac": None},
                                        "store": {"kind": kind, "disc": "full", "empty_is_err": False, "content": two},
                                        "user": {"verif_enabled": True, "presence_enabled": True, "script": [{"presence": True, "verification": True}]},
                                        "ceremonies": [opA, opB], "schedule": sched, "hold": {"kind": hold, "from": len(pre), "to": len(pre) + 2},
                                        "held_tag": "two-queued", "same_credential": same, "update_issued_before_lookup": ordered})
    # a shared store of fixed capacity that is exactly full: a registration is REFUSED by the store (KeyStoreFull) inside the lock
    # wrapper while another authenticator on the same Arc asserts - the refusal is reported, nobody waits for ever
    reg = {"op": "make_credential", "req": mc_req(rng, rk=True)}
    asr = {"op": "get_assertion", "req": ga_req(rng, allow=[cid])}
    n_reg, n_asr = polls_of(reg), polls_of(asr)
    for kind in ("arc_rwlock_ref", "arc_mutex_ref"):
        for sched in ([0] * (n_reg + 2) + [1] * (n_asr + 2), [1] * (n_asr + 2) + [0] * (n_reg + 2), [0, 1] * (n_reg + n_asr + 2),
                      [0] * max(1, n_reg - 1) + [1] * (n_asr + 2) + [0] * 4, [1] * max(1, n_asr - 1) + [0] * (n_reg + 2) + [1] * 4):
            scs.append({"mode": "concurrent", "config": {"aaguid": "00" * 16, "counter": True, "id_len": 16, "hmac": None},
                        "store": {"kind": kind, "disc": "full", "empty_is_err": False, "content": base, "capacity": len(base)},
                        "user": {"verif_enabled": True, "presence_enabled": True, "script": [{"presence": True, "verification": True}]},
                        "ceremonies": [reg, asr], "schedule": sched, "held_tag": "full-store"})
    return scs


def judge_held(sc, out):
    """(clause, message) failures of one held-lock scenario"""
    fails = []
    if "results" not in out:
        return [("crash", "the worker crashed: %s" % json.dumps(out)[:200])]
    if out["deadlock"] or any(r is None for r in out["results"]):
        if sc.get("held_tag") == "two-queued":
            return [("C19", "deadlock: two ceremonies queued on a lock that another handle held; after it was released they never finished")]
        if sc.get("held_tag") == "full-store":
            return [("C19", "deadlock: a registration that the (full) store refused inside its lock wrapper never returned, or blocked the ceremony beside it")]
        return [("C19", "deadlock: the ceremony never finished after the other holder released the store's lock")]
    res = out["results"][0]
    cid = sc["store"]["content"][0]["cred_id"]
    before = sc["store"]["content"]
    after = out["store_after"]
    tag = sc["held_tag"]
    if tag == "two-queued":
        ra, rb = out["results"]
        for name, r in (("A", ra), ("B", rb)):
            if "ok" not in r:
                fails.append(("C19", "assertion %s failed after queueing on a held lock beside another ceremony: %s" % (name, json.dumps(r)[:80])))
        if not fails and sc["same_credential"]:
            ca, cb = ra["ok"]["auth_data"]["counter"], rb["ok"]["auth_data"]["counter"]
            st = next((p["counter"] for p in after if p["cred_id"] == cid), None)
            if sc["update_issued_before_lookup"]:
                # B's update reached the store before A's lookup was issued: no overlap, A must see B's value
                if not (ca > cb and st == ca):
                    fails.append(("C19", "assertion B's counter update was issued before assertion A's lookup (both queued on a held lock, B first), yet "
                                         "the counters are B=%s, A=%s and the store holds %s: one store call was not one critical section" % (cb, ca, st)))
            if st != max(ca, cb):
                fails.append(("C19", "the store holds counter %s, the assertions reported %s and %s" % (st, ca, cb)))
        return fails
    if tag == "full-store":
        asr = out["results"][1]
        if res.get("err") != 0x28:
            fails.append(("C07", "a registration on a full store (the store answers KeyStoreFull to the save) returned %s" % json.dumps(res)[:80]))
        if len(after) != len(before):
            fails.append(("C07", "a registration the store refused changed the number of stored credentials"))
        if "ok" not in asr:
            fails.append(("C19", "an assertion running beside a refused registration failed: %s" % json.dumps(asr)[:80]))
        return fails
    stored = next((p for p in after if p["cred_id"] == cid), None)
    if stored is None:
        fails.append(("C19", "the credential the store held is gone"))
    if tag == "assert":
        if "ok" not in res:
            fails.append(("C07", "an assertion on a store whose lock was briefly held by another handle failed: %s" % json.dumps(res)[:80]))
        elif stored is not None and res["ok"]["auth_data"]["counter"] != stored["counter"]:
            fails.append(("C07", "an assertion was returned with counter %s but the store holds %s: the store never accepted the counter value"
                          % (res["ok"]["auth_data"]["counter"], stored["counter"])))
    elif tag == "register-excluded":
        if res.get("err") != 0x19:
            fails.append(("C05", "the exclude list names a credential held for the same RP, but the registration answered %s instead of "
                                 "CredentialExcluded (the lookup ran while another handle held the lock)" % json.dumps(res)[:80]))
        if len(after) != len(before):
            fails.append(("C05", "an excluded registration changed the store"))
    else:
        if "ok" not in res:
            fails.append(("C19", "a registration on a briefly locked store failed: %s" % json.dumps(res)[:80]))
        elif not any(p["cred_id"] == res["ok"]["auth_data"]["acd"]["cred_id"] for p in after):
            fails.append(("C19", "a successfully registered credential is missing from the store afterwards"))
    return fails


def check_held_locks(run, clauses, binary=None):
    """runs the held-lock scenarios for the calling property; reports the failures whose clause is in `clauses`"""
    binary = binary or common.harness_build("ceremony")
    scs = held_lock_scenarios(run)
    outs = ceremony.run_scenarios(binary, scs)
    n = 0
    for sc, out in zip(scs, outs):
        for clause, msg in judge_held(sc, out):
            if clause in clauses or clause == "crash":
                n += 1
                if n <= 2:
                    run.violation({"kind": msg, "scenario": sc, "observed": out})
    return {"held_lock_scenarios": len(scs), "held_lock_failures": n}


def check(run):
    common.run_translator("status")
    bad = common.hygiene_gate()
    if bad:
        raise common.Tie("hygiene gate: " + "; ".join(bad))
    common.coq_build(COQ_TARGETS)
    thms, assum = common.props_check(PROP)
    binary = common.harness_build("ceremony")
    scs, n_exh = build(run)
    outs = ceremony.run_scenarios(binary, scs)
    terms, owners = [], []
    n_known, n_fail = 0, 0
    shapes = set()
    for si, (sc, out) in enumerate(zip(scs, outs)):
        fails, known = judge(sc, out, run)
        for msg in fails[:1]:
            if n_fail < 3:
                run.violation({"kind": msg, "scenario": sc, "observed": out})
            n_fail += 1
        for k in known:
            if any(x.get("id") == k for x in run.known_findings):
                run.known_finding(k, "overlapping assertions on one credential reuse a signature counter (lookup and counter update are separate store calls)")
                n_known += 1
            else:
                run.violation({"kind": "unlisted finding class " + k, "scenario": sc, "observed": out}); n_fail += 1
        if "results" in out and not out["deadlock"]:
            for i, op, obs, t in per_ceremony_cases(sc, out):
                terms.append(t); owners.append((si, i))
        shapes.add((sc["store"]["kind"], sc["store"]["content"][0]["counter"], tuple(o["op"] for o in sc["ceremonies"]), tuple(sc["schedule"])))
    held = check_held_locks(run, ("C19", "C07", "C05"), binary)
    n_fail += held["held_lock_failures"]
    res = common.coq_eval(PROP, ceremony.PREAMBLE, terms, ["agree", "store_ok"], shard=250)
    for i in res["store_ok"][:2]:
        si, ci = owners[i]
        run.violation({"kind": "store-discipline judgement false on ceremony %d of an interleaved run" % ci, "scenario": scs[si], "observed": outs[si]}); n_fail += 1
    if n_fail == 0:
        for i in res["agree"][:1]:
            si, ci = owners[i]
            run.violation({"kind": "model and implementation disagree on ceremony %d of an interleaved run" % ci,
                           "broken": "correspondence sched (per-ceremony replay, Auth.CeremonyCheck.agree)", "scenario": scs[si], "observed": outs[si]}, found_input=False)
    n_lem = common.count_lemmas(["theories/Auth/Sched.v", "theories/Auth/History.v", "theories/Props/C19.v"])
    run.cov.update({
        "obligations": n_lem, "discharged": n_lem,
        "checker_cmd": "make -C coq theories/Props/C19.vo (coqc 8.16.1, full .vo build) + hygiene gate + Print Assumptions",
        "trusted_base": ["Coq 8.16.1 kernel, vm_compute", "deterministic executor of the harness (every store call and user check yields once first, "
                         "so a schedule = list of ceremony indices determines the real interleaving)", "tokio Mutex/RwLock (runtime, exercised only on the explored schedules)",
                         "Print Assumptions: %d closed, axioms: %s" % (assum["closed"], assum["with_allowed_axioms"] or "none")],
        "theorems": thms, "evaluations": len(scs), "distinct_nontrivial": len(shapes),
        "rule": "all interleavings (at every suspension point) of assert/assert on one credential, assert/register, register/register, "
                "assert/assert on two credentials, assert/register(rk), register(exclude)/assert on Arc<Mutex<MemoryStore>> and Arc<RwLock<MemoryStore>> "
                "(thorough: triples and the reference store too), silent (up=false) assertions, sequential runs with one refused store call, on a credential with counter 7 and on a fresh one (counter 0), plus random long schedules of 2-5 ceremonies; distinct = (store kind, ceremonies, schedule)",
        "samples": [json.dumps({"ceremonies": [o["op"] for o in scs[0]["ceremonies"]], "schedule": scs[0]["schedule"], "store": scs[0]["store"]["kind"]})],
        "exhaustive_schedules": n_exh, "held_lock": held, "per_ceremony_replays": len(terms), "model_disagreements": len(res["agree"]),
        "oracle_failures": len(res["store_ok"]) + n_fail, "known_finding_hits": n_known,
    })
    run.assumptions += ["Option<Passkey> is a one-slot store: 'present afterwards' is claimed for stores that can hold more than one credential",
                        "deadlock-freedom of tokio's locks is runtime behaviour: the theorem is progress of the ceremony logic"]
