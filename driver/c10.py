"""C10 - public-suffix lookups agree with the shipped list under the PSL algorithm (public-suffix crate)."""
import importlib.util, json, os, re
import common
from common import blit

PROP = "C10"
PREAMBLE = "From PK Require Import Lib.Bytes Lib.Check Psl.PslSpec Psl.PslModel Psl.PslShipped Psl.PslCheck.\nOpen Scope N_scope.\n"
COQ_TARGETS = ["theories/Psl/PslCheck.vo", "theories/Psl/PslData.vo"]
HARNESS_BINS = ["psl"]
COQ_FILES = ["theories/Psl/PslWalk.v", "theories/Psl/PslFacts.v", "theories/Psl/PslData.v", "theories/Props/C10.v"]
MOD = 1_000_000_007


def load_translator(name):
    spec = importlib.util.spec_from_file_location(name, os.path.join(common.VERIF, "translators", name + ".py"))
    m = importlib.util.module_from_spec(spec)
    spec.loader.exec_module(m)
    return m


def shipped_rules():
    """[(labels from the TLD, kind)] as the translator reads them (bytes labels, punycode)"""
    tr = load_translator("psl_rules")
    try:
        rules, nlines = tr.parse(os.path.join(common.REPO, "public-suffix/public_suffix_list.dat"))
    except SystemExit as e:
        raise common.Tie("translator psl_rules cannot read the current source", str(e))
    return sorted(set(rules)), nlines


def unicode_rule_lines():
    out = []
    for line in open(os.path.join(common.REPO, "public-suffix/public_suffix_list.dat"), encoding="utf-8"):
        s = line.strip()
        if s and not s.startswith("//") and not s.isascii():
            out.append(s)
    return out


def meta_crosscheck(binary):
    """the translator's reading of tld_list.rs against the constants compiled into the crate"""
    tr = load_translator("psl_table")
    try:
        consts, text, nodes, children = tr.parse(os.path.join(common.REPO, "public-suffix/src/tld_list.rs"))
    except SystemExit as e:
        raise common.Tie("translator psl_table cannot read the current source", str(e))
    def csum(xs):
        a = 0
        for x in xs:
            a = (a * 31 + x) % MOD
        return a
    mine = {"nodes": len(nodes), "children": len(children), "text": len(text), "num_tld": consts["NUM_TLD"],
            "nodes_sum": csum(nodes), "children_sum": csum(children), "text_sum": csum(text),
            "consts": [consts[c] for c in tr.CONSTS]}
    got = common.harness_one(binary, {"op": "meta"})
    if got != mine:
        raise common.Tie("translator psl_table and the compiled crate disagree about the table",
                         json.dumps({"translator": mine, "crate": got}))
    return mine


def table_rules():
    """the rules the compiled table represents, decoded in Python (used to widen the search when the
    table and the list no longer agree)"""
    tr = load_translator("psl_table")
    try:
        c, text, nodes, children = tr.parse(os.path.join(common.REPO, "public-suffix/src/tld_list.rs"))
    except SystemExit:
        return []
    out = []
    def mask(k): return (1 << k) - 1
    def walk(lo, hi, path, depth):
        if depth > 12:
            return
        for i in range(lo, min(hi, len(nodes))):
            x = nodes[i]
            ln = x & mask(c["NODES_BITS_TEXT_LENGTH"]); x >>= c["NODES_BITS_TEXT_LENGTH"]
            off = x & mask(c["NODES_BITS_TEXT_OFFSET"]); x >>= c["NODES_BITS_TEXT_OFFSET"] + c["NODES_BITS_ICANN"]
            ci = x & mask(c["NODES_BITS_CHILDREN"])
            if ci >= len(children):
                continue
            u = children[ci]
            clo = u & mask(c["CHILDREN_BITS_LO"]); u >>= c["CHILDREN_BITS_LO"]
            chi = u & mask(c["CHILDREN_BITS_HI"]); u >>= c["CHILDREN_BITS_HI"]
            ty = u & mask(c["CHILDREN_BITS_NODE_TYPE"]); u >>= c["CHILDREN_BITS_NODE_TYPE"]
            w = u & mask(c["CHILDREN_BITS_WILDCARD"])
            p = path + (bytes(text[off:off + ln]),)
            if ty == c["NODE_TYPE_NORMAL"]: out.append((p, "KNormal"))
            elif ty == c["NODE_TYPE_EXCEPTION"]: out.append((p, "KExc"))
            if w: out.append((p, "KWild"))
            walk(clo, chi, p, depth + 1)
    walk(0, c["NUM_TLD"], (), 0)
    return out


FILL = [b"a", b"www", b"x1", b"foo-bar", b"com", b"co", b"city", b"uk", b"jp", b"xn--55qx5d", b"*", b"b", b"example", b"0"]


def rule_domains(rule, rng):
    """every shape of the property's quantifier for one rule: [(shape, name bytes)]"""
    labels, kind = rule
    labels = list(labels)
    lab = lambda: FILL[rng.randrange(len(FILL))]
    out = []
    if kind == "KWild":
        out.append(("wild-parent", labels))
        base = labels + [lab()]
    else:
        base = labels
    out.append(("asis", base))
    out.append(("+1", base + [lab()]))
    out.append(("+2", base + [lab(), lab()]))
    out.append(("+3", base + [lab(), lab(), lab()]))
    if len(base) >= 2:
        out.append(("removed", base[:-1]))
    out.append(("replaced", base[:-1] + [lab()]))
    named = [(shape, b".".join(reversed(ls))) for shape, ls in out]
    # names with an empty label around the rule: a leading dot in front of a wildcard's parent makes the wildcard match the
    # empty label; every one of these must be refused by effective_tld_plus_one and is not an effective TLD
    extra = []
    for shape, n in named:
        if shape in ("wild-parent", "asis", "+1"):
            extra += [(shape + "/lead-dot", b"." + n), (shape + "/trail-dot", n + b"."), (shape + "/inner-empty", b"a.." + n)]
    return named + extra


WEIRD = ["", ".", "..", "...", "a", "a.", ".a", "a..b", "com", "com.", ".com", "..com", "com..", "*.ck", "!www.ck", "www.ck",
         "*", "!", "*.", "!.", "a.*", "*.*", "WWW.EXAMPLE.COM", "Example.Co.Uk", "example.CO.uk", "CK", "www.CK",
         "公司.cn", "食狮.公司.cn", "www.食狮.公司.cn", "xn--55qx5d.cn", "a.xn--55qx5d.cn",
         "a.b.c.d.e.f.g.h.i.j.k.l.com", "a b.com", "a\u0000b.com", "\U0001F600.com", "é.fr", "a.é", "é",
         "localhost", "foo.localhost", "127.0.0.1", "[::1]", "1.2.3.4.5", "city.kobe.jp", "a.city.kobe.jp", "kobe.jp", "jp",
         "a.b.kobe.jp", "x.compute.amazonaws.com", "s3.amazonaws.com", "co.uk", "uk", "a.co.uk", "a.b.co.uk",
         "a" * 300 + ".com", ("a." * 200) + "com"]


def weird_domains(run, n_random, n_long):
    rng = run.rng
    out = [("weird", w) for w in WEIRD]
    pool = ["", "", "a", "b", "www", "com", "co", "uk", "jp", "ck", "kobe", "city", "*", "!", "!www", "COM", "Co",
            "公司", "é", "xn--55qx5d", "xn--p1ai", "a-b", "-", "_", "0", "\U0001F600", " ", "a b"]
    for _ in range(n_random):
        k = rng.choice([1, 2, 2, 3, 3, 4, 5, 8])
        out.append(("random", ".".join(rng.choice(pool) for _ in range(k))))
    for _ in range(n_long):
        k = rng.choice([500, 2000, 5000])
        out.append(("long", ".".join(rng.choice(pool[2:12]) for _ in range(k))))
    out.append(("long", "x" * 10000 + ".co.uk"))
    return out


def gen_cases(run, rules, everything=False):
    rng = run.rng
    wild = [r for r in rules if r[1] == "KWild"]
    exc = [r for r in rules if r[1] == "KExc"]
    idn = [r for r in rules if r[1] == "KNormal" and any(l.startswith(b"xn--") for l in r[0])]
    other = [r for r in rules if r[1] == "KNormal" and not any(l.startswith(b"xn--") for l in r[0])]
    if everything or run.tier == "thorough":
        picked = rules
    else:
        picked = wild + exc + rng.sample(idn, min(len(idn), 110)) + rng.sample(other, min(len(other), 260))
    cases = []
    for r in picked:
        for shape, name in rule_domains(r, rng):
            try:
                cases.append((r[1] + "/" + shape, name.decode("utf-8")))
            except UnicodeDecodeError:
                pass
    # IDN rules in their Unicode spelling (the crate wants punycode: these are just unknown labels to it)
    uni = unicode_rule_lines()
    for s in (uni if run.tier == "thorough" or everything else rng.sample(uni, min(len(uni), 40))):
        s = s.lstrip("!").replace("*.", "")
        cases.append(("idn-unicode", s))
        cases.append(("idn-unicode", "a." + s))
    if run.tier == "thorough":
        cases += weird_domains(run, 20000, 30)
    else:
        cases += weird_domains(run, 300, 2)
    return cases


def opt(v, f):
    return "None" if v is None else "(Some %s)" % f(v)


def term(d, o):
    ps = o.get("ps", {}).get("v")
    e = o.get("etld1", {})
    tld = o.get("tld", {}).get("v")
    if "ok" in e: et = "(Some (inl %s))" % blit(bytes.fromhex(e["ok"]))
    elif "err" in e: et = "(Some (inr %d))" % e["err"]
    else: et = "None"
    return "CPsl %s %s %s %s" % (blit(d.encode("utf-8")), opt(ps, lambda h: blit(bytes.fromhex(h))), et,
                                opt(tld, lambda b: "true" if b else "false"))


def run_cases(run, binary, cases, tag):
    ins = [{"op": "psl", "d": d} for _, d in cases]
    outs = common.harness_run(binary, ins, timeout=300)
    terms = [term(d, o) for (_, d), o in zip(cases, outs)]
    res = common.coq_eval(tag, PREAMBLE, terms, ["agree", "oracle"], shard=max(40, min(400, len(terms) // 16 + 1)),
                          shard_chars=400000)
    return ins, outs, terms, res


def explain(d):
    t = blit(d.encode("utf-8"))
    return common.coq_show(PROP, PREAMBLE, "(psl_suffix RULES %s, psl_etld1 RULES %s, psl_is_suffix RULES %s, "
                           "public_suffix TABLE %s, effective_tld_plus_one TABLE %s, is_effective_tld TABLE %s)" % ((t,) * 6)) \
        if len(t) < 20000 else "(large)"


def report(run, cases, ins, outs, res, proof_tie=None):
    """verdicts for one batch; returns True if something was reported"""
    if res["oracle"]:
        for i in res["oracle"][:3]:
            run.violation({"kind": "the crate's answer differs from the publicsuffix.org algorithm on the shipped rule file "
                                   "(or a lookup panicked)", "shape": cases[i][0], "case": ins[i], "observed": outs[i],
                           "spec_and_model (suffix, etld1, is_suffix; model suffix, etld1, is_tld)": explain(cases[i][1]),
                           "broken": proof_tie.what if proof_tie else None})
        return True
    if res["agree"]:
        i = res["agree"][0]
        run.violation({"kind": "model and implementation disagree; oracle true on all %d cases of this run" % len(cases),
                       "broken": "correspondence psl (Psl.PslCheck.agree)", "shape": cases[i][0], "case": ins[i],
                       "observed": outs[i], "spec_and_model": explain(cases[i][1])}, found_input=False)
        return True
    return False


def check(run):
    common.run_translator("psl_table")
    common.run_translator("psl_rules")
    bad = common.hygiene_gate()
    if bad:
        raise common.Tie("hygiene gate: " + "; ".join(bad))
    # the executable model, spec and oracle do not depend on the proofs: build them first
    common.coq_build(["theories/Psl/PslCheck.vo"])
    proof_tie, thms, assum = None, [], {"closed": 0, "with_allowed_axioms": []}
    try:
        common.coq_build(["theories/Psl/PslData.vo"])
        thms, assum = common.props_check(PROP)
    except common.Tie as t:
        proof_tie = t
    binary = common.harness_build("psl")
    rules, nlines = shipped_rules()
    meta = None
    try:
        meta = meta_crosscheck(binary)
    except common.Tie as t:
        proof_tie = proof_tie or t

    # termination probe: a lookup that does not return is a crash in the sense of the property, and must not
    # stall the batch runs below
    for shape, d in corpus()[:12] + [("probe", "nosuchlabel.example.zzinvalid")]:
        o = common.harness_one(binary, {"op": "psl", "d": d}, timeout=10)
        if o.get("crash"):
            run.violation({"kind": "a lookup does not return (or kills the process)", "shape": shape,
                           "case": {"op": "psl", "d": d}, "observed": o, "broken": proof_tie.what if proof_tie else None})
            run.cov.update({"evaluations": 1, "distinct_nontrivial": 1, "explanation": "lookup crashed/timed out in the probe"})
            return

    if proof_tie is not None:
        # widen the search: also the rules the table represents (a rule dropped from the list shows up here)
        rules = sorted(set(rules) | set(table_rules()))
    cases = corpus() + gen_cases(run, rules, everything=proof_tie is not None)
    ins, outs, terms, res = run_cases(run, binary, cases, PROP)
    reported = report(run, cases, ins, outs, res, proof_tie)
    # the same names on the development profile (debug assertions and overflow checks on, as `cargo build` / `cargo test`
    # compile the crate): "no input string makes a lookup crash" must hold there too, with the same answers
    dbg = common.harness_build("psl", profile="debug")
    outs_dbg = common.harness_run(dbg, ins, timeout=600)
    n_dbg = 0
    for (shape, d), o, od in zip(cases, outs, outs_dbg):
        bad = None
        if od.get("crash") or od.get("panic") or any(isinstance(v, dict) and v.get("panic") for v in od.values()):
            bad = "a lookup panics or kills the process on the development (debug-assertion) build"
        elif od != o:
            bad = "the development build answers differently from the release build"
        if bad:
            n_dbg += 1
            if n_dbg <= 2:
                run.violation({"kind": bad, "shape": shape, "case": {"op": "psl", "d": d}, "observed": od, "release_build": o})
    run.cov["debug_profile_cases"] = len(outs_dbg); run.cov["debug_profile_failures"] = n_dbg
    reported = reported or n_dbg > 0
    if proof_tie is not None and not reported:
        run.violation({"broken": proof_tie.what, "detail": proof_tie.detail,
                       "note": "a C10 theorem / the table translator no longer checks; the crate was compared with the spec on "
                               "%d names derived from every rule of the list and no difference was found" % len(cases)},
                      found_input=False)

    sig = set()
    for (shape, d), o in zip(cases, outs):
        e = o.get("etld1", {})
        sig.add((shape, "ok" if "ok" in e else "err%s" % e.get("err"), o.get("tld", {}).get("v"),
                 min(d.count("."), 6)))
    n_lem = common.count_lemmas(COQ_FILES)
    shapes = {}
    for shape, _ in cases:
        shapes[shape] = shapes.get(shape, 0) + 1
    run.cov.update({
        "obligations": n_lem, "discharged": n_lem if proof_tie is None else 0,
        "checker_cmd": "make -C coq theories/Props/C10.vo (coqc 8.16.1, full .vo build; table_is_list by vm_compute on the "
                       "regenerated table and rules) + hygiene gate + Print Assumptions",
        "trusted_base": ["Coq 8.16.1 kernel, vm_compute", "translators/psl_table.py, translators/psl_rules.py (incl. punycode "
                         "conversion of IDN rules by Python's idna codec; every converted rule is re-proved to be a rule of the table)",
                         "correspondence harness (pkharness psl) + driver/c10.py", "Psl/PslSpec.v as the reading of the publicsuffix.org algorithm",
                         "Rust &str slicing modelled on bytes (UTF-8 boundary panics not modelled; Unicode names are in the correspondence)",
                         "Print Assumptions: %d closed under the global context, axioms: %s" % (assum["closed"], assum["with_allowed_axioms"] or "none")],
        "theorems": thms,
        "evaluations": len(terms), "distinct_nontrivial": len(sig),
        "rule": "rules of the shipped list (all wildcard and exception rules, sampled IDN and other rules in quick; all rules in thorough) x "
                "{as is, +1, +2, +3 labels, leading label removed, replaced, wildcard parent}; IDN rules in Unicode spelling; "
                "hand-written and random odd names (empty labels, '*', '!', upper case, Unicode, NUL, very long); "
                "distinct = (rule kind/shape, eTLD+1 outcome, is_effective_tld, dots)",
        "samples": [terms[0][:200], terms[len(terms) // 2][:200], terms[-1][:200]],
        "shape_histogram": shapes, "rules_in_list": len(rules), "rule_lines": nlines, "table_meta": meta,
        "model_disagreements": len(res["agree"]), "oracle_failures": len(res["oracle"]),
    })
    run.assumptions += ["names are valid UTF-8 (Rust &str)", "spec = Psl/PslSpec.v (publicsuffix.org algorithm; shortest matching exception prevails, "
                        "the shipped list has no nested exceptions: proved)"]


def corpus():
    d = os.path.join(common.VERIF, "corpus", PROP)
    out = []
    if os.path.isdir(d):
        for f in sorted(os.listdir(d)):
            c = json.load(open(os.path.join(d, f)))
            for x in (c if isinstance(c, list) else [c]):
                out.append(("corpus", x["d"]))
    return out


def replay(payload):
    binary = common.harness_build("psl")
    c = payload["case"]
    print(json.dumps(common.harness_one(binary, c))[:2000])
    print(explain(c["d"]))
    return 0
