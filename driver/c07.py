"""C07 - failed or cancelled ceremonies leave the credential store consistent."""
import json
import common, ceremony
from ceremony import *

PROP = "C07"
import c17cer
COQ_TARGETS = ceremony.COQ_TARGETS + c17cer.COQ_TARGETS
HARNESS_BINS = ceremony.HARNESS_BINS + c17cer.HARNESS_BINS
def replay(payload):
    if payload.get("domain") == "u2fcer":
        return c17cer.replay_scenario(payload)
    return ceremony.replay(payload)


def canon(content):
    return sorted(json.dumps(p, sort_keys=True) for p in content)


def consistency_oracle(sc, out):
    """store snapshots before/after every operation, under faults and cancellation"""
    fails = []
    before = sc["store"]["content"]
    if sc["store"]["kind"] in ("option", "arc_mutex_option"):
        before = before[-1:]
    one_slot = sc["store"]["kind"] in ("option", "arc_mutex_option")
    for op, obs in zip(sc["ops"], out["ops"]):
        res, after = obs["result"], obs["store_after"]
        kind = op["op"]
        b, a = canon(before), canon(after)
        saves = [e for e in obs["log"] if e["c"] == "save"]
        updates = [e for e in obs["log"] if e["c"] == "update"]
        if kind == "make_credential":
            if "ok" in res:
                if not (saves and "ok" in saves[-1]["r"] and obs["log"][-1]["c"] == "save"):
                    fails.append("registration succeeded but the store did not accept the credential as the last call")
                new = [p for p in after if p["cred_id"] == res["ok"]["auth_data"]["acd"]["cred_id"]]
                if len(new) != 1:
                    fails.append("registered credential is not in the store afterwards")
                others_b = [x for x in b] if not one_slot else []
                others_a = canon([p for p in after if p["cred_id"] != res["ok"]["auth_data"]["acd"]["cred_id"]])
                if not one_slot and others_a != others_b:
                    fails.append("registration changed other credentials")
            else:
                ok_saves = [e for e in saves if "ok" in e["r"]]
                if "err" in res and (a != b or ok_saves):
                    fails.append("registration returned an error but the store changed / accepted a save")
                if res.get("cancelled"):
                    extra = [x for x in a if x not in b]
                    if len(extra) > 1 or (not one_slot and any(x not in a for x in b)):
                        fails.append("cancelled registration left more than the one new credential behind")
                    for x in extra:
                        p = json.loads(x)
                        if not (p["key"]["d"] and p["rp_id"] == op["req"]["rp"]["id"]):
                            fails.append("cancelled registration left a partial record")
                if len(saves) > 1 or updates:
                    fails.append("registration made more than one mutating call")
                for e in saves:
                    if "err" in e["r"] and res.get("err") != e["r"]["err"]:
                        fails.append("store error %d while saving was not reported to the caller (got %s)" % (e["r"]["err"], res))
        elif kind == "get_assertion":
            if saves or len(updates) > 1:
                fails.append("assertion made a save or more than one update")
            changed = [x for x in a if x not in b]
            gone = [x for x in b if x not in a]
            if len(changed) > 1 or len(gone) > 1:
                fails.append("assertion changed more than one credential")
            if changed:
                new, old = json.loads(changed[0]), (json.loads(gone[0]) if gone else None)
                if old is None or {k: v for k, v in new.items() if k != "counter"} != {k: v for k, v in old.items() if k != "counter"} \
                   or old["counter"] is None or new["counter"] != min(old["counter"] + 1, 2**32 - 1):
                    fails.append("assertion altered a credential other than advancing its counter by one")
            if "ok" in res:
                ctr = res["ok"]["auth_data"]["counter"]
                if ctr is not None and ctr != 0 and not (updates and "ok" in updates[-1]["r"]):
                    fails.append("assertion returned although the store did not accept its counter value")
            for e in updates:
                if "err" in e["r"] and res.get("err") != e["r"]["err"]:
                    fails.append("store error %d while updating was not reported to the caller (got %s)" % (e["r"]["err"], res))
        before = after
    return fails


def single_faults(run):
    """every single fault position x a few status codes x request shapes; every truncation point"""
    rng = run.rng
    scs = []
    shapes = []
    cid = bytes([0xC1]) * 16
    for counter in (None, 7):
        content = [mk_passkey(rng, "example.com", cred_id=cid, counter=counter, keyidx=1, hmac=(b"\x01" * 32, b"\x02" * 32))]
        for ext in (None, "prf"):
            shapes.append(("get_assertion", content, {"op": "get_assertion", "req": ga_req(rng, allow=[cid], uv=True,
                           ext=prf_ext_ga(first=b"\x03" * 32) if ext else None)}))
            shapes.append(("make_credential", content, {"op": "make_credential", "req": mc_req(rng, rk=True, uv=True, exclude=[bytes([0xEE]) * 16],
                           ext=prf_ext_mc(first=b"\x03" * 32) if ext else None)}))
    codes = [0x01, 0x28, 0x2E, 0x7F, 0xF0] if run.tier == "quick" else list(range(1, 256, 3))
    for kind, content, op in shapes:
        for store in ("ref", "memory", "arc_mutex_memory"):
            for at in range(0, 6):
                for code in codes:
                    scs.append(scenario(store_kind=store, content=content, config={"counter": True, "hmac": {"without_uv": True, "on_mc": True}},
                                        ops=[dict(op)], faults=[{"at": at, "code": code}]))
            for n in range(1, 10):
                o = dict(op); o["cancel_after"] = n
                scs.append(scenario(store_kind=store, content=content, config={"counter": True, "hmac": {"without_uv": True, "on_mc": True}},
                                    ops=[o], yield_=True))
    if run.tier != "quick":
        for kind, content, op in shapes:
            for a1 in range(0, 5):
                for a2 in range(a1 + 1, 6):
                    scs.append(scenario(store_kind="ref", content=content, config={"counter": True}, ops=[dict(op)],
                                        faults=[{"at": a1, "code": 0x28}, {"at": a2, "code": 0x7F}]))
    return scs


def check(run):
    n = 250 if run.tier == "quick" else 5000
    scenarios = single_faults(run) + [gen_history(run.rng, run.tier, faults=True, cancel=True, with_hmac=True, max_ops=3) for _ in range(n)]
    ceremony.standard_check(
        run, PROP, scenarios, [history_meta(s) for s in scenarios], ["store_ok"], py_oracle=consistency_oracle,
        coq_files=["theories/Auth/Authenticator.v", "theories/Auth/StoreFacts.v", "theories/Auth/History.v"],
        rule="every single fault position (store call index 0..5) x status codes x 8 request shapes (with/without extensions, counters, "
             "exclude/allow lists) x store kinds; every cancellation point (1..9 polls, the store and the user check yield before every call); "
             "plus random histories with 1-2 injected faults and cancellation",
        assumptions=["a store call either happened completely or not at all when a ceremony is dropped (true of the shipped stores: "
                     "their only internal await is the lock acquisition, before the mutation)"])
    # the U2F entry points are registrations / authentications too (anchors: credential_store.rs is shared): key handles of
    # 0..300 bytes, store faults at one call - an error leaves the store as it was, a store error while saving is reported,
    # an authentication never mutates (model Auth/U2f.v, theorems c17_register_store_error_is_reported /
    # c17_authenticate_never_mutates; oracle and replay shared with C17)
    import c17cer
    run.cov["u2f_ceremonies"] = {k: v for k, v in c17cer.check_ceremony(run, tag="C07-u2f").items() if k not in ("sample", "rule")}
    # a shared store whose lock is briefly held by another handle while the ceremony reaches a store call (C19's deterministic
    # executor): the ceremony must wait - never answer as if nothing were stored, never skip a write
    import c19
    run.cov["held_lock"] = c19.check_held_locks(run, ("C07",))
