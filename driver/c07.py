"""C07 - failed or cancelled ceremonies leave the credential store consistent."""
import json
import common, ceremony
from ceremony import *

PROP = "C07"
import c17cer
COQ_TARGETS = ceremony.COQ_TARGETS + list(ceremony.WCOQ_TARGETS) + c17cer.COQ_TARGETS
USER_OK = {"presence": True, "verification": True}
HARNESS_BINS = ceremony.HARNESS_BINS + c17cer.HARNESS_BINS
def replay(payload):
    if payload.get("domain") == "u2fcer":
        return c17cer.replay_scenario(payload)
    return ceremony.replay(payload)


def canon(content):
    return sorted(json.dumps(p, sort_keys=True) for p in content)


def consistency_oracle(sc, out):
    """store snapshots before/after every operation, under faults and cancellation"""
    fails = []
    before = sc["store"]["content"]
    if sc["store"]["kind"] in ("option", "arc_mutex_option"):
        before = before[-1:]
    one_slot = sc["store"]["kind"] in ("option", "arc_mutex_option")
    for op, obs in zip(sc["ops"], out["ops"]):
        res, after = obs["result"], obs["store_after"]
        kind = op["op"]
        b, a = canon(before), canon(after)
        saves = [e for e in obs["log"] if e["c"] == "save"]
        updates = [e for e in obs["log"] if e["c"] == "update"]
        if kind == "make_credential":
            if "ok" in res:
                if not (saves and "ok" in saves[-1]["r"] and obs["log"][-1]["c"] == "save"):
                    fails.append("registration succeeded but the store did not accept the credential as the last call")
                new = [p for p in after if p["cred_id"] == res["ok"]["auth_data"]["acd"]["cred_id"]]
                if len(new) != 1:
                    fails.append("registered credential is not in the store afterwards")
                else:
                    # the record that was accepted is the one the response describes: bound to the request's RP ID (exactly), with the
                    # attested public key and a private scalar, and with the counter the authenticator data reports
                    acd = res["ok"]["auth_data"]["acd"]
                    if new[0]["rp_id"] != op["req"]["rp"]["id"]:
                        fails.append("registration for RP %s succeeded, the record the store accepted is bound to %s"
                                     % (bytes.fromhex(op["req"]["rp"]["id"]).decode("utf-8", "replace"), bytes.fromhex(new[0]["rp_id"]).decode("utf-8", "replace")))
                    if new[0]["key"]["x"] != acd["x"] or new[0]["key"]["y"] != acd["y"] or not new[0]["key"]["d"]:
                        fails.append("the saved record does not hold the key pair whose public half was attested")
                    if (new[0]["counter"] or 0) != (res["ok"]["auth_data"]["counter"] or 0):
                        fails.append("the saved record's counter %s is not the one the authenticator data reports (%s)" % (new[0]["counter"], res["ok"]["auth_data"]["counter"]))
                others_b = [x for x in b] if not one_slot else []
                others_a = canon([p for p in after if p["cred_id"] != res["ok"]["auth_data"]["acd"]["cred_id"]])
                if not one_slot and others_a != others_b:
                    fails.append("registration changed other credentials")
            else:
                ok_saves = [e for e in saves if "ok" in e["r"]]
                if "err" in res and (a != b or ok_saves):
                    fails.append("registration returned an error but the store changed / accepted a save")
                if res.get("cancelled"):
                    extra = [x for x in a if x not in b]
                    if len(extra) > 1 or (not one_slot and any(x not in a for x in b)):
                        fails.append("cancelled registration left more than the one new credential behind")
                    for x in extra:
                        p = json.loads(x)
                        if not (p["key"]["d"] and p["rp_id"] == op["req"]["rp"]["id"]):
                            fails.append("cancelled registration left a partial record")
                if len(saves) > 1 or updates:
                    fails.append("registration made more than one mutating call")
                for e in saves:
                    if "err" in e["r"] and res.get("err") != e["r"]["err"]:
                        fails.append("store error %d while saving was not reported to the caller (got %s)" % (e["r"]["err"], res))
        elif kind == "get_assertion":
            if saves or len(updates) > 1:
                fails.append("assertion made a save or more than one update")
            changed = [x for x in a if x not in b]
            gone = [x for x in b if x not in a]
            if len(changed) > 1 or len(gone) > 1:
                fails.append("assertion changed more than one credential")
            if changed:
                new, old = json.loads(changed[0]), (json.loads(gone[0]) if gone else None)
                if old is None or {k: v for k, v in new.items() if k != "counter"} != {k: v for k, v in old.items() if k != "counter"} \
                   or old["counter"] is None or new["counter"] != min(old["counter"] + 1, 2**32 - 1):
                    fails.append("assertion altered a credential other than advancing its counter by one")
            if "ok" in res:
                ctr = res["ok"]["auth_data"]["counter"]
                if ctr is not None and ctr != 0 and not (updates and "ok" in updates[-1]["r"]):
                    fails.append("assertion returned although the store did not accept its counter value")
            for e in updates:
                if "err" in e["r"] and res.get("err") != e["r"]["err"]:
                    fails.append("store error %d while updating was not reported to the caller (got %s)" % (e["r"]["err"], res))
        before = after
    return fails


def single_faults(run):
    """every single fault position x a few status codes x request shapes; every truncation point"""
    rng = run.rng
    scs = []
    shapes = []
    cid = bytes([0xC1]) * 16
    for counter in (None, 7):
        content = [mk_passkey(rng, "example.com", cred_id=cid, counter=counter, keyidx=1, hmac=(b"\x01" * 32, b"\x02" * 32))]
        for ext in (None, "prf"):
            shapes.append(("get_assertion", content, {"op": "get_assertion", "req": ga_req(rng, allow=[cid], uv=True,
                           ext=prf_ext_ga(first=b"\x03" * 32) if ext else None)}))
            shapes.append(("make_credential", content, {"op": "make_credential", "req": mc_req(rng, rk=True, uv=True, exclude=[bytes([0xEE]) * 16],
                           ext=prf_ext_mc(first=b"\x03" * 32) if ext else None)}))
    codes = [0x01, 0x28, 0x2E, 0x7F, 0xF0] if run.tier == "quick" else list(range(1, 256, 3))
    for kind, content, op in shapes:
        for store in ("ref", "memory", "arc_mutex_memory"):
            for at in range(0, 6):
                for code in codes:
                    scs.append(scenario(store_kind=store, content=content, config={"counter": True, "hmac": {"without_uv": True, "on_mc": True}},
                                        ops=[dict(op)], faults=[{"at": at, "code": code}]))
            for n in range(1, 10):
                o = dict(op); o["cancel_after"] = n
                scs.append(scenario(store_kind=store, content=content, config={"counter": True, "hmac": {"without_uv": True, "on_mc": True}},
                                    ops=[o], yield_=True))
    # extension processing can fail on its own (a PRF evaluation that needs the verification-only secret on a ceremony without
    # verification, ...): whatever the configuration and the request, an error comes before the save
    for without_uv in (False, True):
        for on_mc in (False, True):
            for uv in (False, True):
                for ext in (prf_ext_mc(first=b"\x05" * 32), prf_ext_mc(first=b"\x05" * 32, second=b"\x06" * 32), prf_ext_mc(hmac_secret=True, with_prf=False),
                            prf_ext_mc(first=b"\x05" * 32, mc=True)):
                    for store in ("ref", "memory"):
                        scs.append(scenario(store_kind=store, content=shapes[0][1], config={"counter": True, "hmac": {"without_uv": without_uv, "on_mc": on_mc}},
                                            user={"script": [{"presence": True, "verification": uv}] * 2},
                                            ops=[{"op": "make_credential", "req": mc_req(rng, rk=True, uv=uv, ext=ext)},
                                                 {"op": "get_assertion", "req": ga_req(rng, allow=[cid], uv=uv, ext=prf_ext_ga(first=b"\x07" * 32))}]))
    # RP IDs in spellings a CTAP2 caller may send (mixed case, non-ASCII, trailing dot): the saved record is bound to the RP ID as given,
    # and a later assertion under the same spelling finds it
    for rp in ("Future.1Password.COM", "EXAMPLE.com", "b\u00fccher.example", "example.com."):
        for store in ("ref", "option", "memory"):
            for rk in (False, True):
                scs.append(scenario(store_kind=store, config={"counter": True}, user={"script": [{"presence": True, "verification": True}] * 2},
                                    ops=[{"op": "make_credential", "req": mc_req(rng, rp=rp, rk=rk, uv=True)},
                                         {"op": "get_assertion", "req": ga_req(rng, rp=rp, allow=None if store != "memory" else [bytes(16)], uv=True)}]))
    if run.tier != "quick":
        for kind, content, op in shapes:
            for a1 in range(0, 5):
                for a2 in range(a1 + 1, 6):
                    scs.append(scenario(store_kind="ref", content=content, config={"counter": True}, ops=[dict(op)],
                                        faults=[{"at": a1, "code": 0x28}, {"at": a2, "code": 0x7F}]))
    return scs


def client_level(run):
    """the WebAuthn entry points (Client::register / Client::authenticate): whatever the request's members say - also the ones
    the client does not act on (attestation preference, timeout, hints, formats, attachment) - and whichever store call fails, an
    error leaves the store exactly as it was (an authentication may have advanced the selected credential's counter) and a success
    means the store accepted the credential before the response existed.  Judged on the observation, then tied to Auth/Client.v."""
    rng = run.rng
    cid = bytes([0x7C]) * 16
    scs = []
    for kind in ("ref", "memory", "option", "arc_mutex_ref"):
        content = [mk_passkey(rng, "example.com", cred_id=cid, counter=3, keyidx=0)]
        regs = [reg_op(rng, selection={"rk": "required", "require_rk": True, "uv": "required"}, ext=wext(cred_props=True))]
        for k, vals in ceremony.IGNORED_MEMBERS.items():
            regs += [ceremony.with_ignored(reg_op(rng), **{k: v}) for v in vals[1:]]
        regs += [ceremony.with_ignored(reg_op(rng), attachment=a) for a in ("platform", "cross-platform")]
        regs.append(ceremony.with_ignored(reg_op(rng, exclude=[bytes(16)]), attestation="enterprise", timeout=1, hints=["hybrid"], attestation_formats=["packed"], attachment="platform"))
        for r in regs:
            scs.append(client_scenario(store_kind=kind, content=content, config={"counter": True}, user={"script": [USER_OK] * 2},
                                       ops=[r, ceremony.with_ignored(auth_op(rng, allow=[cid]), timeout=r["req"].get("timeout"), hints=r["req"].get("hints"),
                                                                     attestation=r["req"].get("attestation"), attestation_formats=r["req"].get("attestation_formats"))]))
        codes = [0x01, 0x28, 0x7F] if run.tier == "quick" else [0x01, 0x19, 0x22, 0x27, 0x28, 0x2E, 0x30, 0x7F, 0xF0]
        for at in range(0, 7):
            for code in codes:
                for r in (regs[0], regs[-1]):
                    scs.append(client_scenario(store_kind=kind, content=content, config={"counter": True}, user={"script": [USER_OK] * 2},
                                               faults=[{"at": at, "code": code}], ops=[r, auth_op(rng, allow=[cid])]))
    binary = common.harness_build("ceremony")
    outs = ceremony.run_scenarios(binary, scs)
    fails = []
    for sc, out in zip(scs, outs):
        if "ops" not in out:
            fails.append((sc, out, "the client ceremony crashed the process")); continue
        before = sc["store"]["content"]
        if sc["store"]["kind"] in ("option", "arc_mutex_option"):
            before = before[-1:]
        for op, obs in zip(sc["ops"], out["ops"]):
            res, after = obs["result"], obs["store_after"]
            saves = [e for e in obs["log"] if e["c"] == "save"]
            why = None
            if op["op"] == "register":
                if "err" in res and canon(after) != canon(before):
                    why = "registration returned the error %s but the store changed (%d -> %d credentials)" % (res["err"], len(before), len(after))
                if "ok" in res and not any("ok" in e["r"] for e in saves):
                    why = "registration succeeded but no save was accepted by the store"
                if "err" in res and "AuthenticatorError" not in json.dumps(res["err"]) and any(e["c"] in ("save", "update") for e in obs["log"]) and "ok" in obs.get("domain", {"ok": 1}):
                    why = why or "registration failed with the client-side error %s after the store was written" % (res["err"],)
            else:
                strip = lambda l: canon([dict(p, counter=None) for p in l])
                if strip(after) != strip(before):
                    why = "authentication changed more than a signature counter"
                if "ok" in res and any(e["c"] == "update" and "err" in e["r"] for e in obs["log"]):
                    why = "an assertion was returned although the store refused its counter value"
            if why:
                fails.append((sc, obs, why))
            before = after
    for sc, obs, why in fails[:3]:
        run.violation({"kind": "client level: " + why, "scenario": sc, "observed": obs})
    common.coq_build(list(ceremony.WCOQ_TARGETS))
    flat = [x for x in ceremony.wcases_of(scs, outs) if x[4] is not None]
    res = common.coq_eval(PROP + "-client", ceremony.WPREAMBLE, [t for *_, t in flat], ["wagree"], shard=60)
    if not fails and res["wagree"]:
        si, oi, op, obs, t = flat[res["wagree"][0]]
        run.violation({"kind": "client model and implementation disagree; the client-level store oracle is true on all %d observations" % len(flat),
                       "broken": "correspondence ceremony/%s (Auth.ClientCheck.wagree)" % op["op"], "scenario": scs[si], "observed": obs}, found_input=False)
    run.cov["client_level"] = {"scenarios": len(scs), "operations": len(flat), "oracle_failures": len(fails), "model_disagreements": len(res["wagree"]),
                               "rule": "Client::register then Client::authenticate x store kind x {every value of every member the client ignores, alone and together} "
                                       "plus store faults at call index 0..6 x status codes"}


def check(run):
    n = 250 if run.tier == "quick" else 5000
    scenarios = single_faults(run) + [gen_history(run.rng, run.tier, faults=True, cancel=True, with_hmac=True, max_ops=3) for _ in range(n)]
    ceremony.standard_check(
        run, PROP, scenarios, [history_meta(s) for s in scenarios], ["store_ok"], py_oracle=consistency_oracle,
        coq_files=["theories/Auth/Authenticator.v", "theories/Auth/StoreFacts.v", "theories/Auth/History.v"],
        rule="every single fault position (store call index 0..5) x status codes x 8 request shapes (with/without extensions, counters, "
             "exclude/allow lists) x store kinds; every cancellation point (1..9 polls, the store and the user check yield before every call); "
             "plus random histories with 1-2 injected faults and cancellation",
        assumptions=["a store call either happened completely or not at all when a ceremony is dropped (true of the shipped stores: "
                     "their only internal await is the lock acquisition, before the mutation)"])
    # the U2F entry points are registrations / authentications too (anchors: credential_store.rs is shared): key handles of
    # 0..300 bytes, store faults at one call - an error leaves the store as it was, a store error while saving is reported,
    # an authentication never mutates (model Auth/U2f.v, theorems c17_register_store_error_is_reported /
    # c17_authenticate_never_mutates; oracle and replay shared with C17)
    client_level(run)
    import c17cer
    run.cov["u2f_ceremonies"] = {k: v for k, v in c17cer.check_ceremony(run, tag="C07-u2f").items() if k not in ("sample", "rule")}
    # a shared store whose lock is briefly held by another handle while the ceremony reaches a store call (C19's deterministic
    # executor): the ceremony must wait - never answer as if nothing were stored, never skip a write
    import c19
    run.cov["held_lock"] = c19.check_held_locks(run, ("C07",))
    # the store changes while a ceremony waits in the consent prompt (record replaced / removed by another session): an assertion
    # is returned only if the store then holds its counter value
    run.cov["prompt_actions"] = ceremony.check_prompt_actions(run, ("C07",))
