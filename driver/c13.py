"""C13 - CTAP2 messages use the specified integer keys and round-trip through CBOR; status bytes.
(passkey-types: utils/serde_workaround.rs, ctap2/{make_credential,get_assertion,get_info,error}.rs,
ctap2/extensions/hmac_secret.rs; passkey-client/src/lib.rs)"""
import json, os
import common
from common import blit

PROP = "C13"
PREAMBLE = ("From Coq Require Import String.\n"
            "From PK Require Import Lib.Cbor Lib.Check Wire.Serde Wire.CtapSpec Wire.gen.CtapSchema Wire.CtapCheck.\n"
            "Open Scope string_scope.\nOpen Scope N_scope.\n")
COQ_TARGETS = ["theories/Wire/CtapCheck.vo", "theories/Wire/SerdeFacts.vo"]
HARNESS_BINS = ["ctapmsg"]
COQ_FILES = ["theories/Wire/Serde.v", "theories/Wire/SerdeFacts.v", "theories/Wire/CtapSpec.v", "theories/Props/C13.v"]
TRANSLATORS = ["status", "ctap_schema", "webauthn_error"]

# --------------------------------------------------------------------------------------------
# a small CBOR AST: building test inputs (also deliberately non-canonical ones) and Coq terms

def I(z): return ("i", z)
def B(b): return ("b", bytes(b))
def T(s): return ("t", s)
def A(l): return ("a", list(l))
def M(l): return ("m", list(l))
def G(t, v): return ("g", t, v)
def O(b): return ("o", bool(b))
NULL = ("n",)
def RAW(b): return ("r", bytes(b))          # spliced verbatim (non-canonical forms); no Coq term


def head(mt, n, width=None):
    """width None = shortest; else 0 (in the initial byte), 1, 2, 4, 8 argument bytes"""
    if width is None:
        width = 0 if n < 24 else 1 if n < 256 else 2 if n < 65536 else 4 if n < (1 << 32) else 8
    if width == 0:
        return bytes([mt * 32 + n])
    return bytes([mt * 32 + {1: 24, 2: 25, 4: 26, 8: 27}[width]]) + n.to_bytes(width, "big")


def enc(x):
    k = x[0]
    if k == "i":
        return head(0, x[1]) if x[1] >= 0 else head(1, -1 - x[1])
    if k == "b": return head(2, len(x[1])) + x[1]
    if k == "t":
        u = x[1].encode()
        return head(3, len(u)) + u
    if k == "a": return head(4, len(x[1])) + b"".join(enc(y) for y in x[1])
    if k == "m": return head(5, len(x[1])) + b"".join(enc(a) + enc(b) for a, b in x[1])
    if k == "g": return head(6, x[1]) + enc(x[2])
    if k == "o": return b"\xf5" if x[1] else b"\xf4"
    if k == "n": return b"\xf6"
    if k == "r": return x[1]
    raise ValueError(x)


def coq(x):
    k = x[0]
    if k == "i": return "CInt (%d)" % x[1]
    if k == "b": return "CBytes %s" % blit(x[1])
    if k == "t": return "CText %s" % blit(x[1].encode())
    if k == "a": return "CArr [%s]" % "; ".join(coq(y) for y in x[1])
    if k == "m": return "CMap [%s]" % "; ".join("(%s, %s)" % (coq(a), coq(b)) for a, b in x[1])
    if k == "g": return "CTag %d (%s)" % (x[1], coq(x[2]))
    if k == "o": return "CBool %s" % ("true" if x[1] else "false")
    if k == "n": return "CNull"
    raise ValueError(x)


def coq_opt(o, f):
    return "None" if o is None else "Some (%s)" % f(o)


def coq_optbytes(h):
    return "None" if h is None else "Some %s" % blit(bytes.fromhex(h))

# --------------------------------------------------------------------------------------------
# message values: (JSON description for the harness, canonical CBOR as the serialiser must emit it)

AWKWARD = [0, 1, 23, 24, 255, 256]
TEXTS = ["", "a", "example.com", "Alex Müller", "田中倫", "x" * 23, "y" * 24, "z" * 255, "w" * 256,
         "future.1password.com", "\U0001f511 key"]
ALGS = [-7, -257, -8, -35, -36, -37, -47, -65535, -3, -25]      # negative only: see Serde.v on bignum algorithms
TRANSPORTS = ["usb", "nfc", "ble", "hybrid", "internal"]


class Gen:
    def __init__(self, rng):
        self.rng = rng

    def nbytes(self, n):
        r = self.rng
        style = r.randrange(3)
        if style == 0: return bytes(r.randrange(256) for _ in range(n))
        if style == 1: return bytes([0xFF]) * n
        return bytes((7 * j + 1) % 256 for j in range(n))

    def blob(self, usual=16):
        r = self.rng
        n = r.choice(AWKWARD) if r.random() < 0.12 else r.choice([usual, usual, 16, 32, 5, 64])
        return self.nbytes(n)

    def text(self):
        r = self.rng
        return r.choice(TEXTS) if r.random() < 0.7 else "".join(chr(r.choice([r.randrange(32, 127), r.randrange(0xA0, 0x800)])) for _ in range(r.randrange(0, 12)))

    def maybe(self, p=0.5):
        return self.rng.random() < p

    # ---- nested values: each returns (desc, ast)
    def descriptor(self):
        r = self.rng
        ty = "public-key" if r.random() < 0.85 else "unknown"
        cid = self.blob(16)
        tr = None
        if self.maybe():
            tr = [r.choice(TRANSPORTS) for _ in range(r.randrange(0, 4))]
        ents = [(T("type"), T(ty)), (T("id"), B(cid))]
        if tr is not None:
            ents.append((T("transports"), A(T(t) for t in tr)))
        return {"ty": ty, "id": cid.hex(), "transports": tr}, M(ents)

    def descriptors(self):
        ds = [self.descriptor() for _ in range(self.rng.choice([0, 1, 1, 2, 3]))]
        return [d for d, _ in ds], A(a for _, a in ds)

    def user(self):
        uid, dn, n = self.blob(16), self.text(), self.text()
        return ({"id": uid.hex(), "display_name": dn, "name": n},
                M([(T("id"), B(uid)), (T("displayName"), T(dn)), (T("name"), T(n))]))

    def rp(self):
        rid = self.text()
        name = self.text() if self.maybe(0.6) else None
        ents = [(T("id"), T(rid))] + ([(T("name"), T(name))] if name is not None else [])
        return {"id": rid, "name": name}, M(ents)

    def params(self):
        r = self.rng
        ps = []
        for _ in range(r.choice([0, 1, 1, 2, 3])):
            ty = "public-key" if r.random() < 0.85 else "unknown"
            alg = r.choice(ALGS)
            ps.append(({"ty": ty, "alg": alg}, M([(T("type"), T(ty)), (T("alg"), I(alg))])))
        return [d for d, _ in ps], A(a for _, a in ps)

    def options(self):
        r = self.rng
        rk, up, uv = r.random() < 0.5, r.random() < 0.7, r.random() < 0.5
        return {"rk": rk, "up": up, "uv": uv}, M([(T("rk"), O(rk)), (T("up"), O(up)), (T("uv"), O(uv))])

    def raw_value(self):
        r = self.rng
        pool = [M([]), I(5), I(-1000), T("none"), A([I(1), T("a"), B(b"\x01")]), O(True), NULL,
                M([(T("alg"), I(-7)), (T("sig"), B(self.nbytes(r.choice([8, 70]))))]),
                M([(I(1), I(2)), (I(3), I(-25)), (I(-1), I(1)), (I(-2), B(self.nbytes(32))), (I(-3), B(self.nbytes(32)))]),
                A([A([A([M([(I(0), A([]))])])])]), G(24, B(b"\x01\x02")), I((1 << 64) - 1), I(-(1 << 64))]
        return r.choice(pool)

    def cose_key(self):
        return M([(I(1), I(2)), (I(3), I(-25)), (I(-1), I(1)), (I(-2), B(self.nbytes(32))), (I(-3), B(self.nbytes(32)))])

    def hmac(self, key=None):
        r = self.rng
        ka = key or (self.cose_key() if r.random() < 0.7 else self.raw_value())
        se, sa = self.nbytes(r.choice([32, 64, 48, 80, 0])), self.blob(32)
        pp = r.choice([None, None, 1, 2, 0, 255])
        vals = [ka, B(se), B(sa), None if pp is None else I(pp)]
        return ({"key_agreement": enc(ka).hex(), "salt_enc": se.hex(), "salt_auth": sa.hex(), "pin_uv_auth_protocol": pp}, vals)

    def hmac_ast(self):
        d, vals = self.hmac()
        ents = [(I(k + 1), v) for k, v in enumerate(vals) if v is not None]
        return d, M(ents)

    def prf_values(self):
        f = self.nbytes(32)
        s = self.nbytes(32) if self.maybe(0.4) else None
        ents = [(T("first"), A(I(x) for x in f))] + ([(T("second"), A(I(x) for x in s))] if s is not None else [])
        return {"first": f.hex(), "second": None if s is None else s.hex()}, M(ents)

    def prf_inputs(self):
        ev = self.prf_values() if self.maybe() else None
        ebc = None
        if self.maybe(0.4):
            # HashMap: iteration order is not modelled, at most one entry
            ebc = [(self.blob(16), self.prf_values())] if self.maybe(0.8) else []
        ents = []
        if ev is not None: ents.append((T("eval"), ev[1]))
        if ebc is not None: ents.append((T("eval_by_credential"), M((B(k), v[1]) for k, v in ebc)))
        return ({"eval": None if ev is None else ev[0],
                 "eval_by_credential": None if ebc is None else [[k.hex(), v[0]] for k, v in ebc]}, M(ents))

    def authdata(self):
        r = self.rng
        flags = 0
        for bit in (1, 4, 8, 16):
            if r.random() < 0.5: flags |= bit
        return self.nbytes(32) + bytes([flags]) + r.randrange(1 << 32).to_bytes(4, "big")

    # ---- messages: (desc, [field values or None], in the declaration order of the Rust struct)
    def mc_req(self, mask):
        cdh = self.blob(32)
        rp, user, params, opts = self.rp(), self.user(), self.params(), self.options()
        ex = self.descriptors() if mask & 1 else None
        ext = None
        if mask & 2:
            hs = self.rng.choice([None, True, False])
            mc = self.hmac_ast() if self.maybe(0.4) else None
            prf = self.prf_inputs() if self.maybe(0.5) else None
            ents = []
            if hs is not None: ents.append((T("hmac-secret"), O(hs)))
            if mc is not None: ents.append((T("hmac-secret-mc"), mc[1]))
            if prf is not None: ents.append((T("prf"), prf[1]))
            ext = ({"hmac_secret": hs, "hmac_secret_mc": None if mc is None else mc[0], "prf": None if prf is None else prf[0]}, M(ents))
        pa = self.blob(16) if mask & 4 else None
        pp = self.rng.choice([0, 1, 2, 255]) if mask & 8 else None
        desc = {"client_data_hash": cdh.hex(), "rp": rp[0], "user": user[0], "pub_key_cred_params": params[0],
                "exclude_list": None if ex is None else ex[0], "extensions": None if ext is None else ext[0],
                "options": opts[0], "pin_auth": None if pa is None else pa.hex(), "pin_protocol": pp}
        vals = [B(cdh), rp[1], user[1], params[1], None if ex is None else ex[1], None if ext is None else ext[1],
                opts[1], None if pa is None else B(pa), None if pp is None else I(pp)]
        return desc, vals

    def unsigned(self, make):
        if self.maybe(0.3):
            return {"prf": None}, M([(T("prf"), NULL)])        # no skip_serializing_if on this member
        res = self.prf_values() if (not make or self.maybe(0.6)) else None
        if make:
            en = self.maybe()
            ents = [(T("enabled"), O(en))] + ([(T("results"), res[1])] if res else [])
            return {"prf": {"enabled": en, "results": res[0] if res else None}}, M([(T("prf"), M(ents))])
        return {"prf": {"results": res[0]}}, M([(T("prf"), M([(T("results"), res[1])]))])

    def mc_resp(self, mask):
        fmt, ad, st = self.rng.choice(["none", "packed", self.text()]), self.authdata(), self.raw_value()
        ep = self.maybe() if mask & 1 else None
        lb = self.blob(32) if mask & 2 else None
        un = self.unsigned(True) if mask & 4 else None
        desc = {"fmt": fmt, "auth_data": ad.hex(), "att_stmt": enc(st).hex(), "ep_att": ep,
                "large_blob_key": None if lb is None else lb.hex(), "unsigned_extension_outputs": None if un is None else un[0]}
        vals = [T(fmt), B(ad), st, None if ep is None else O(ep), None if lb is None else B(lb), None if un is None else un[1]]
        return desc, vals

    def ga_req(self, mask):
        rp_id, cdh, opts = self.text(), self.blob(32), self.options()
        al = self.descriptors() if mask & 1 else None
        ext = None
        if mask & 2:
            hs = self.hmac_ast() if self.maybe(0.5) else None
            prf = self.prf_inputs() if self.maybe(0.5) else None
            ents = []
            if hs is not None: ents.append((T("hmac-secret"), hs[1]))
            if prf is not None: ents.append((T("prf"), prf[1]))
            ext = ({"hmac_secret": None if hs is None else hs[0], "prf": None if prf is None else prf[0]}, M(ents))
        pa = self.blob(16) if mask & 4 else None
        pp = self.rng.choice([0, 1, 2, 255]) if mask & 8 else None
        desc = {"rp_id": rp_id, "client_data_hash": cdh.hex(), "allow_list": None if al is None else al[0],
                "extensions": None if ext is None else ext[0], "options": opts[0],
                "pin_auth": None if pa is None else pa.hex(), "pin_protocol": pp}
        vals = [T(rp_id), B(cdh), None if al is None else al[1], None if ext is None else ext[1], opts[1],
                None if pa is None else B(pa), None if pp is None else I(pp)]
        return desc, vals

    def ga_resp(self, mask):
        ad, sig = self.authdata(), self.blob(70)
        cred = self.descriptor() if mask & 1 else None
        user = self.user() if mask & 2 else None
        nc = self.rng.choice([0, 1, 2, 23, 24, 255]) if mask & 4 else None
        us = self.maybe() if mask & 8 else None
        lb = self.blob(32) if mask & 16 else None
        un = self.unsigned(False) if mask & 32 else None
        desc = {"credential": None if cred is None else cred[0], "auth_data": ad.hex(), "signature": sig.hex(),
                "user": None if user is None else user[0], "number_of_credentials": nc, "user_selected": us,
                "large_blob_key": None if lb is None else lb.hex(), "unsigned_extension_outputs": None if un is None else un[0]}
        vals = [None if cred is None else cred[1], B(ad), B(sig), None if user is None else user[1],
                None if nc is None else I(nc), None if us is None else O(us), None if lb is None else B(lb),
                None if un is None else un[1]]
        return desc, vals

    def gi_resp(self, mask):
        r = self.rng
        vers = [r.choice(["FIDO_2_0", "U2F_V2", "FIDO_2_1", "FIDO_2_1_PRE", ""]) for _ in range(r.choice([0, 1, 2, 3]))]
        aag = self.nbytes(16)
        exts = [r.choice(["hmac-secret", "hmac-secret-mc", "prf", "credProtect", "largeBlobKey"]) for _ in range(r.choice([0, 1, 2, 4]))] if mask & 1 else None
        opts = None
        if mask & 2:
            plat, rk, up = self.maybe(), self.maybe(), self.maybe(0.7)
            cp, uv = r.choice([None, True, False]), r.choice([None, True, False])
            ents = [(T("plat"), O(plat)), (T("rk"), O(rk))] + ([(T("clientPin"), O(cp))] if cp is not None else []) \
                + [(T("up"), O(up))] + ([(T("uv"), O(uv))] if uv is not None else [])
            opts = ({"plat": plat, "rk": rk, "client_pin": cp, "up": up, "uv": uv}, M(ents))
        mms = r.choice([1, 23, 24, 1024, 65535, 65536, (1 << 32) - 1, 1 << 32, (1 << 64) - 1, 1 << 64, (1 << 64) + 255,
                        1 << 100, (1 << 128) - 1]) if mask & 4 else None
        pps = [r.choice([0, 1, 2, 24, 255]) for _ in range(r.choice([0, 1, 2]))] if mask & 8 else None
        trs = [r.choice(TRANSPORTS) for _ in range(r.choice([0, 1, 2, 5]))] if mask & 16 else None
        def u128(z):
            return I(z) if z < (1 << 64) else G(2, B(z.to_bytes((z.bit_length() + 7) // 8, "big")))
        desc = {"versions": vers, "extensions": exts, "aaguid": aag.hex(), "options": None if opts is None else opts[0],
                "max_msg_size": None if mms is None else str(mms), "pin_protocols": pps, "transports": trs}
        vals = [A(T(v) for v in vers), None if exts is None else A(T(e) for e in exts), B(aag), None if opts is None else opts[1],
                None if mms is None else u128(mms), None if pps is None else A(I(p) for p in pps),
                None if trs is None else A(T(t) for t in trs)]
        return desc, vals

    def hmac_msg(self, mask):
        d, vals = self.hmac()
        if not (mask & 1):
            d["pin_uv_auth_protocol"] = None; vals[3] = None
        elif vals[3] is None:
            d["pin_uv_auth_protocol"] = 1; vals[3] = I(1)
        return d, vals


# message kind -> (harness name, Coq name, generator, number of presence bits, [(rust field, key, required)])
# keys here are the driver's own copy of the specification's numbers (used to build inputs only)
KINDS = {
    "mc_req": ("MC_REQUEST", "mc_req", 4, [("client_data_hash", 1, True), ("rp", 2, True), ("user", 3, True),
               ("pub_key_cred_params", 4, True), ("exclude_list", 5, False), ("extensions", 6, False), ("options", 7, False),
               ("pin_auth", 8, False), ("pin_protocol", 9, False)]),
    "mc_resp": ("MC_RESPONSE", "mc_resp", 3, [("fmt", 1, True), ("auth_data", 2, True), ("att_stmt", 3, True), ("ep_att", 4, False),
                ("large_blob_key", 5, False), ("unsigned_extension_outputs", 6, False)]),
    "ga_req": ("GA_REQUEST", "ga_req", 4, [("rp_id", 1, True), ("client_data_hash", 2, True), ("allow_list", 3, False),
               ("extensions", 4, False), ("options", 5, False), ("pin_auth", 6, False), ("pin_protocol", 7, False)]),
    "ga_resp": ("GA_RESPONSE", "ga_resp", 6, [("credential", 1, False), ("auth_data", 2, True), ("signature", 3, True), ("user", 4, False),
                ("number_of_credentials", 5, False), ("user_selected", 6, False), ("large_blob_key", 7, False),
                ("unsigned_extension_outputs", 8, False)]),
    "gi_resp": ("GI_RESPONSE", "gi_resp", 5, [("versions", 1, True), ("extensions", 2, False), ("aaguid", 3, True), ("options", 4, False),
                ("max_msg_size", 5, False), ("pin_protocols", 6, False), ("transports", 9, False)]),
    "hmac": ("HMAC_INPUT", "hmac_msg", 1, [("key_agreement", 1, True), ("salt_enc", 2, True), ("salt_auth", 3, True),
             ("pin_uv_auth_protocol", 4, False)]),
}
CAMEL = lambda s: s.split("_")[0] + "".join(w.capitalize() for w in s.split("_")[1:])


def gen_messages(run, n_total):
    g = Gen(run.rng)
    out = []
    per = max(1, n_total // len(KINDS))
    for t, (coqname, fn, bits, fields) in KINDS.items():
        for i in range(per):
            mask = i % (1 << bits) if i < 2 * (1 << bits) else run.rng.randrange(1 << bits)
            desc, vals = getattr(g, fn)(mask)
            out.append((t, desc, vals))
    # strings beyond ciborium's 4096-byte scratch buffer (the Bytes and String visitors take them;
    # authenticator data and map keys do not, see Serde.v)
    for n in (4096, 4097):
        desc, vals = g.mc_req(0)
        big = g.nbytes(n)
        desc["client_data_hash"] = big.hex(); vals[0] = B(big)
        desc["rp"] = {"id": "r" * n, "name": None}; vals[1] = M([(T("id"), T("r" * n))])
        out.append(("mc_req", desc, vals))
    desc, vals = g.ga_resp(0)
    big = g.nbytes(5000)
    desc["signature"] = big.hex(); vals[2] = B(big)
    out.append(("ga_resp", desc, vals))
    return out

# --------------------------------------------------------------------------------------------
# mutated encodings

UNKNOWN_INT_KEYS = [0, 10, 11, 12, 22, 23, 24, 25, 100, 200, 254, 255]
UNKNOWN_TEXT_KEYS = ["", "foo", "Rp", "RP", "clientdatahash", "client_data_hash", "rp_id", "pinUvAuthParam", "options ",
                     "unknown", "Unknown", "1", "é", "x" * 300]


def entries_of(t, vals):
    fields = KINDS[t][3]
    return [(I(k), v) for (_, k, _), v in zip(fields, vals) if v is not None]


def junk_value(g, floats=True):
    r = g.rng
    if not floats:       # inside a raw ciborium::Value a float is re-serialised at its shortest width (not modelled)
        return r.choice([I(0), I(-5), T("v"), B(b"\x00\x01"), A([]), M([]), O(False), NULL, G(0, T("t")), I(1 << 63)])
    return r.choice([I(0), I(-5), T("v"), B(b"\x00\x01"), A([]), A([I(1), A([T("deep")])]), M([]), M([(I(1), I(1)), (I(1), I(2))]),
                     O(False), NULL, G(0, T("2013-03-21T20:04:00Z")), G(2, B(b"\x01" * 9)), I(1 << 63), RAW(b"\xfb\x3f\xf0\x00\x00\x00\x00\x00\x00"),
                     RAW(b"\x9f\x01\x02\xff"), RAW(b"\xbf\x61\x61\x01\xff"), RAW(b"\x5f\x41\x01\x41\x02\xff"), RAW(b"\x7f\x61\x61\xff")])


def mutations(g, t, vals, budget):
    """yield (class term, subclass label, top-level AST or RAW) derived from the valid encoding of vals"""
    r = g.rng
    fields = KINDS[t][3]
    base = entries_of(t, vals)
    present = [(i, f) for i, (f, v) in enumerate(zip(fields, vals)) if v is not None]
    key_of = {f[0]: f[1] for f in fields}
    used_keys = {f[1] for f in fields}
    muts = []

    def ins(ents, pos, e):
        return ents[:pos] + [e] + ents[pos:]

    # a. unknown unsigned keys at every position
    for pos in range(len(base) + 1):
        k = r.choice([x for x in UNKNOWN_INT_KEYS if x not in used_keys])
        muts.append(("MUnknown", "unknown-int", M(ins(base, pos, (I(k), junk_value(g))))))
    # b. unknown text keys
    for _ in range(3):
        muts.append(("MUnknown", "unknown-text", M(ins(base, r.randrange(len(base) + 1), (T(r.choice(UNKNOWN_TEXT_KEYS)), junk_value(g))))))
    muts.append(("MUnknown", "unknown-bytes-key", M(ins(base, r.randrange(len(base) + 1), (B(r.choice([b"", b"foo", b"\xff\xfe"])), junk_value(g))))))
    # several unknown entries, the same unknown key twice
    k = r.choice([x for x in UNKNOWN_INT_KEYS if x not in used_keys])
    e2 = ins(ins(base, 0, (I(k), junk_value(g))), len(base) + 1, (I(k), junk_value(g)))
    muts.append(("MUnknown", "unknown-twice", M(ins(e2, r.randrange(len(e2) + 1), (T("foo"), junk_value(g))))))
    # c. text / bytes key spelling a member
    if present:
        i, f = r.choice(present)
        j = [p for p, (kk, _) in enumerate(base) if kk == I(f[1])][0]
        spelled = list(base); spelled[j] = (T(CAMEL(f[0])), base[j][1])
        muts.append(("MOther", "text-key-for-member", M(spelled)))
        spelled = list(base); spelled[j] = (B(CAMEL(f[0]).encode()), base[j][1])
        muts.append(("MOther", "bytes-key-for-member", M(spelled)))
        if CAMEL(f[0]) != f[0]:
            spelled = list(base); spelled[j] = (T(f[0]), base[j][1])      # snake_case: not the spelling the macro knows
            muts.append(("MMissing" if f[2] else "MOther", "snake-text-key-for-member", M(spelled)))
        muts.append(("MDup", "dup-int-and-text", M(ins(base, r.randrange(len(base) + 1), (T(CAMEL(f[0])), base[j][1])))))
        # f. duplicates: EVERY present member once more (the members differ in how they are read: plain, with a
        # `deserialize_with` wrapper, as a raw value), then further shapes for the chosen one
        for (i2, f2) in present:
            j2 = [p for p, (kk, _) in enumerate(base) if kk == I(f2[1])][0]
            muts.append(("MDup", "dup-int-every-member", M(ins(base, r.choice([j2 + 1, len(base)]), base[j2]))))
        muts.append(("MDup", "dup-int", M(ins(base, r.randrange(len(base) + 1), base[j]))))
        muts.append(("MDup", "dup-int-other-value", M(ins(base, r.randrange(len(base) + 1), (base[j][0], junk_value(g))))))
        muts.append(("MDup", "dup-nonshortest", M(ins(base, r.randrange(len(base) + 1), (RAW(head(0, f[1], 1)), base[j][1])))))
    # an absent optional member given twice
    absent = [f for f, v in zip(fields, vals) if v is None]
    if absent:
        f = r.choice(absent)
        muts.append(("MDup", "dup-null-null", M(base + [(I(f[1]), NULL), (I(f[1]), NULL)])))
        muts.append(("MOther", "optional-null", M(base + [(I(f[1]), NULL)])))
    # d. large / odd integer keys
    for k in (256, 257, 65535, 1 << 32, (1 << 64) - 1):
        muts.append(("MOther", "key-above-255", M(ins(base, r.randrange(len(base) + 1), (I(k), junk_value(g))))))
    muts.append(("MOther", "key-bignum-small", M(ins(base, 0, (G(2, B(b"\x0b")), I(1))))))      # reads as the integer 11
    muts.append(("MOther", "key-bignum-big", M(ins(base, 0, (G(2, B(b"\x01" + b"\x00" * 8)), I(1))))))
    # e. negative keys
    for k in (-1, -2, -256, -(1 << 63), -(1 << 64)):
        muts.append(("MOther", "key-negative", M(ins(base, r.randrange(len(base) + 1), (I(k), junk_value(g))))))
    # o. keys of other types
    for kk in (O(True), NULL, A([]), M([]), RAW(b"\xf9\x3c\x00"), G(1, I(1))):
        muts.append(("MOther", "key-other-type", M(ins(base, r.randrange(len(base) + 1), (kk, I(0))))))
    # g. missing members
    for i, f in present:
        rest = [e for e in base if e[0] != I(f[1])]
        if f[2]:
            muts.append(("MMissing", "missing-required", M(rest)))
        elif f[0] == "options" and t in ("mc_req", "ga_req"):
            muts.append(('MDefaults [("rk", false); ("up", true); ("uv", false)]', "options-absent", M(rest)))
        else:
            muts.append(("MOther", "missing-optional", M(rest)))
    muts.append(("MMissing", "empty-map", M([])))
    # n. options thinned out
    if t in ("mc_req", "ga_req"):
        oi = [p for p, (kk, _) in enumerate(base) if kk == I(key_of["options"])][0]
        given = dict((k[1], v[1]) for k, v in base[oi][1][1])
        for keep in (["rk"], ["up"], ["uv"], [], ["uv", "rk"], ["up", "uv"]):
            thin = list(base)
            thin[oi] = (base[oi][0], M((T(k), O(given[k])) for k in keep))
            exp = {"rk": False, "up": True, "uv": False}
            exp.update({k: given[k] for k in keep})
            muts.append(("MDefaults [%s]" % "; ".join('("%s", %s)' % (k, "true" if exp[k] else "false") for k in ("rk", "up", "uv")),
                         "options-partial", M(thin)))
        thin = list(base); thin[oi] = (base[oi][0], M(list(base[oi][1][1]) + [(T("plat"), O(True)), (T("foo"), I(1))]))
        muts.append(("MUnknown", "options-unknown-member", M(thin)))
    # h. / i. nulls and wrong types for members
    if present:
        for _ in range(3):
            i, f = r.choice(present)
            j = [p for p, (kk, _) in enumerate(base) if kk == I(f[1])][0]
            bad = list(base); bad[j] = (base[j][0], r.choice([NULL, I(7), I(300), I(-1), T("AQID"), T("!"), B(b"\x01\x02"), A([I(1), I(2)]), A([I(256)]),
                                                              M([]), O(True), G(5, base[j][1])]))
            muts.append(("MOther", "member-wrong-type", M(bad)))
    # j. non-canonical heads, k. tags, l. not a map, m. truncation / trailing bytes
    body = b"".join(enc(a) + enc(b) for a, b in base)
    muts.append(("MOther", "indefinite-map", RAW(b"\xbf" + body + b"\xff")))
    for w in (1, 2, 4, 8):
        if len(base) < 24 or w > 1:
            muts.append(("MOther", "nonshortest-map-head", RAW(head(5, len(base), w) + body)))
    if base:
        w = r.choice([1, 2, 4, 8])
        muts.append(("MOther", "nonshortest-keys", RAW(head(5, len(base)) + b"".join(head(0, a[1], w) + enc(b) for a, b in base))))
    muts.append(("MOther", "self-described", G(55799, M(base))))
    muts.append(("MOther", "tagged-twice", G(1, G(2, M(base)))))
    muts.append(("MOther", "array-not-map", A([v for _, v in base])))
    muts.append(("MOther", "scalar-not-map", r.choice([I(1), NULL, T("x"), B(b"\xa0")])))
    full = enc(M(base))
    muts.append(("MOther", "truncated", RAW(full[:r.randrange(len(full))])))
    muts.append(("MOther", "count-too-large", RAW(head(5, len(base) + 1) + body)))
    muts.append(("MOther", "trailing-bytes", RAW(full + bytes(r.randrange(256) for _ in range(r.randrange(1, 4))))))
    muts.append(("MOther", "reversed-order", M(list(reversed(base)))))
    r.shuffle(muts)
    # keep one of each label first, then fill
    seen, first, rest = set(), [], []
    for m in muts:
        (first if m[1] not in seen else rest).append(m); seen.add(m[1])
    return (first + rest)[:budget]

def paths(x, pre=()):
    """all node positions of an AST: tuples of ('a', i) / ('k', i) / ('v', i) / ('g',) steps"""
    yield pre
    if x[0] == "a":
        for i, y in enumerate(x[1]):
            yield from paths(y, pre + (("a", i),))
    elif x[0] == "m":
        for i, (_, v) in enumerate(x[1]):
            yield from paths(v, pre + (("v", i),))
    elif x[0] == "g":
        yield from paths(x[2], pre + (("g",),))


def node_at(x, path):
    for st in path:
        x = x[1][st[1]] if st[0] == "a" else x[1][st[1]][1] if st[0] == "v" else x[2]
    return x


def rewrite(x, path, new):
    if not path:
        return new
    st = path[0]
    if st[0] == "a":
        l = list(x[1]); l[st[1]] = rewrite(l[st[1]], path[1:], new); return ("a", l)
    if st[0] == "v":
        l = list(x[1]); l[st[1]] = (l[st[1]][0], rewrite(l[st[1]][1], path[1:], new)); return ("m", l)
    return ("g", x[1], rewrite(x[2], path[1:], new))


def node_variants(g, x):
    """other ways to write (or to spoil) one node: [(label, AST)]"""
    import base64
    r = g.rng
    k, out = x[0], []
    if k == "b" and len(x[1]) <= 300:
        out += [("bytes-as-base64url", T(base64.urlsafe_b64encode(x[1]).decode().rstrip("="))),
                ("bytes-as-base64-padded", T(base64.b64encode(x[1]).decode())),
                ("bytes-as-int-array", A(I(v) for v in x[1])),
                ("bytes-as-bad-text", T(r.choice(["!", "A", "AAAAA", "AB=C", "é"])))]
        if x[1]:
            out.append(("bytes-as-bad-int-array", A([I(v) for v in x[1][:-1]] + [r.choice([I(256), I(-1), T("a")])])))
    elif k == "o":
        out += [("bool-as-int", I(1)), ("bool-as-null", NULL), ("bool-tagged", G(9, x))]
    elif k == "i" and 0 <= x[1] <= 255:
        out += [("u8-as-bignum", G(2, B(bytes([x[1]])))), ("u8-nonshortest", RAW(head(0, x[1], r.choice([1, 2, 4, 8])))),
                ("u8-too-big", I(256)), ("u8-negative", I(-1)), ("u8-as-text", T(str(x[1]))), ("u8-tagged", G(7, x))]
    elif k == "i":
        out += [("int-other", I(r.choice([12345, -9, 1 << 63, -(1 << 63) - 1])))]
    elif k == "t":
        out += [("text-as-bytes", B(x[1].encode())), ("text-as-int", I(3)), ("text-tagged", G(3, x))]
    elif k == "a":
        if len(x[1]) != 32:      # [u8; 32]: serde's array visitor never reads the break (see Serde.v)
            out.append(("array-indefinite", RAW(b"\x9f" + b"".join(enc(y) for y in x[1]) + b"\xff")))
            out.append(("array-plus-junk", A(list(x[1]) + [r.choice([I(5), T("lora"), T("cable"), M([]), NULL, B(b"\x01")])])))
        out += [("array-as-map", M([])), ("array-as-null", NULL), ("array-tagged", G(4, x))]
        if all(y[0] == "i" and 0 <= y[1] <= 255 for y in x[1]):
            out.append(("int-array-as-bytes", B(bytes(y[1] for y in x[1]))))
            if x[1]:
                out.append(("int-array-shorter", A(x[1][:-1])))
        else:
            out.append(("array-as-bytes", B(b"\x01\x02")))
    elif k == "m":
        ents = list(x[1])
        tk = [i for i, (kk, _) in enumerate(ents) if kk[0] == "t"]
        pos = r.randrange(len(ents) + 1)
        out += [("map-unknown-text-key", M(ents[:pos] + [(T(r.choice(["zzz", "", "Type", "ID"])), junk_value(g, floats=False))] + ents[pos:])),
                ("map-int-key", M(ents + [(I(r.choice([0, 1, 5])), I(0))])), ("map-as-array", A([])), ("map-tagged", G(6, x)),
                ("map-key-%d" % (4096 + pos % 2), M(ents + [(T("k" * (4096 + pos % 2)), I(0))])),     # ciborium's scratch buffer
                ("map-indefinite", RAW(b"\xbf" + b"".join(enc(a) + enc(b) for a, b in ents) + b"\xff"))]
        if tk:
            i = r.choice(tk)
            out += [("map-dup-entry", M(ents + [ents[i]])), ("map-drop-entry", M(ents[:i] + ents[i + 1:])),
                    ("map-bytes-key", M(ents[:i] + [(B(ents[i][0][1].encode()), ents[i][1])] + ents[i + 1:])),
                    ("map-entry-null", M(ents[:i] + [(ents[i][0], NULL)] + ents[i + 1:])),
                    ("map-reversed", M(list(reversed(ents))))]
            names = {kk[1]: j for j, (kk, _) in enumerate(ents) if kk[0] == "t"}
            if "type" in names:
                j = names["type"]          # scalars only: see Serde.v on ignore_unknown
                out.append(("type-unknown", M(ents[:j] + [(T("type"), r.choice([T("foo"), T(""), I(5), O(True), NULL, T("unknown")]))] + ents[j + 1:])))
            if "alg" in names:
                j = names["alg"]
                out.append(("alg-other", M(ents[:j] + [(T("alg"), I(r.choice([12345, -7, -257, -9, 8, 1 << 40])))] + ents[j + 1:])))
            if "transports" in names:
                j = names["transports"]
                out.append(("transports-odd", M(ents[:j] + [(T("transports"), r.choice([A([T("usb"), T("lora"), T("cable"), I(5), A([]), T("hybrid")]),
                                                                                         B(b"\x01\x02"), NULL, A([]), T("usb")]))] + ents[j + 1:])))
    return out


def nested_mutations(g, t, vals, budget):
    """change one node somewhere inside one member's value (MOther: only agreement is checked)"""
    r = g.rng
    fields = KINDS[t][3]
    base = entries_of(t, vals)
    out = []
    if not base:
        return out
    for _ in range(budget * 3):
        if len(out) >= budget:
            break
        j = r.randrange(len(base))
        ps = list(paths(base[j][1]))
        path = r.choice(ps)
        vs = node_variants(g, node_at(base[j][1], path))
        if not vs:
            continue
        label, new = r.choice(vs)
        ents = list(base); ents[j] = (base[j][0], rewrite(base[j][1], path, new))
        out.append(("MOther", "nested:" + label, M(ents)))
    # member level, by type of the member
    for j, (kk, v) in enumerate(base):
        if v[0] == "t" and r.random() < 0.3:
            u = v[1].encode(); h = len(u) // 2
            ents = list(base); ents[j] = (kk, RAW(b"\x7f" + head(3, h) + u[:h] + head(3, len(u) - h) + u[h:] + b"\xff"))
            if u[:h].decode("utf-8", "ignore").encode() == u[:h]:
                out.append(("MOther", "member:text-indefinite", M(ents)))
    return out[:budget + 2]

# --------------------------------------------------------------------------------------------

def werr_term(w):
    if "auth_err" in w: return "WAuthenticatorError %d" % w["auth_err"]
    if "named" in w: return 'WNamed "%s"' % w["named"]
    return 'WNamed "?"'


def corpus():
    d = os.path.join(common.VERIF, "corpus", PROP)
    out = []
    if os.path.isdir(d):
        for f in sorted(os.listdir(d)):
            if f.endswith(".json"):
                out.append(json.load(open(os.path.join(d, f))))
    return out


def check(run):
    broken = []        # ties that broke before the correspondence (still search for a failing input)
    for tr in TRANSLATORS:
        try:
            common.run_translator(tr)
        except common.Tie as t:
            if not os.path.exists(os.path.join(common.COQ, common.TRANSLATORS[tr][2])):
                raise
            broken.append(t)          # keep the previous generated file: the oracle does not depend on it
    bad = common.hygiene_gate()
    if bad:
        raise common.Tie("hygiene gate: " + "; ".join(bad))
    common.coq_build(["theories/Wire/CtapCheck.vo"])          # model + checks only (no proofs)
    thms, assum = [], {"closed": 0, "with_allowed_axioms": []}
    try:
        common.coq_build(["theories/Wire/SerdeFacts.vo"])
        thms, assum = common.props_check(PROP)
    except common.Tie as t:
        broken.append(t)
    coqchk = "not run (quick tier)"
    if run.tier != "quick" and not broken:
        with common.Lock("coq", shared=True):
            rc, out = common.sh(["coqchk", "-silent", "-o", "-Q", "theories", "PK", "PK.Props.C13"], cwd=common.COQ, timeout=1800)
        if rc != 0 or "Axioms: <none>" not in out:
            broken.append(common.Tie("coqchk does not accept the compiled closure of Props/C13 without axioms", out[-2000:]))
        else:
            coqchk = "coqchk -o: accepted, Axioms: <none>"
    binary = common.harness_build("ctapmsg")
    quick = run.tier == "quick"
    g = Gen(run.rng)

    # ---- phase 1: message values through the real serialiser
    msgs = gen_messages(run, 1000 if quick else 20000)
    ser_in = [{"op": "ser", "t": t, "m": d} for t, d, _ in msgs]
    ser_out = common.harness_run(binary, ser_in)
    terms, info = [], []
    for (t, desc, vals), o in zip(msgs, ser_out):
        fields = KINDS[t][3]
        present = [f[0] for f, v in zip(fields, vals) if v is not None]
        impl = o.get("hex")
        if impl is None:
            info.append(("ser-crash", t, desc, o)); terms.append(None); continue
        terms.append('CSer "%s" [%s] [%s] %s (%s)' % (
            KINDS[t][0], "; ".join(coq_opt(v, coq) for v in vals), "; ".join('"%s"' % p for p in present),
            blit(bytes.fromhex(impl)), coq_optbytes(o.get("reser"))))
        info.append(("ser", t, desc, o))

    # ---- phase 2: mutated encodings through the real deserialiser
    n_mut = 2000 if quick else 40000
    per_msg, per_nested = (9, 4) if quick else (12, 6)
    de_in, de_meta = [], []
    picks = list(range(len(msgs)))
    run.rng.shuffle(picks)
    for c in corpus():
        if c.get("op") == "de":
            de_in.append({"op": "de", "t": c["t"], "hex": c["hex"]}); de_meta.append((c["t"], c.get("cls", "MOther"), "corpus", c.get("base")))
    for idx in picks:
        if len(de_in) >= n_mut:
            break
        t, desc, vals = msgs[idx]
        impl = ser_out[idx].get("hex")
        if impl is None:
            continue
        base_hex = enc(M(entries_of(t, vals))).hex()
        de_in.append({"op": "de", "t": t, "hex": impl}); de_meta.append((t, "MBase", "base", impl))
        for cls, label, ast in mutations(g, t, vals, per_msg) + nested_mutations(g, t, vals, per_nested):
            de_in.append({"op": "de", "t": t, "hex": enc(ast).hex()}); de_meta.append((t, cls, label, base_hex))
    # results for the bases (the driver's own canonical encoding of the same entries)
    base_hexes = sorted({(m[0], m[3]) for m in de_meta if m[3] is not None})
    base_out = common.harness_run(binary, [{"op": "de", "t": t, "hex": h} for t, h in base_hexes])
    base_res = {k: (o.get("reser") if o.get("ok") else None) for k, o in zip(base_hexes, base_out)}
    de_out = common.harness_run(binary, de_in)
    crashed = []
    for c, (t, cls, label, base_hex), o in zip(de_in, de_meta, de_out):
        if "ok" not in o:
            crashed.append((c, o)); continue
        impl = o.get("reser") if o["ok"] else None
        terms.append('CDe "%s" (%s) %s (%s) (%s)' % (KINDS[t][0], cls, blit(bytes.fromhex(c["hex"])), coq_optbytes(impl),
                                                      coq_optbytes(base_res.get((t, base_hex)))))
        info.append(("de", t, dict(c, cls=cls, label=label, base=base_hex), o))

    # ---- phase 3: all 256 status bytes
    st_out = common.harness_run(binary, [{"op": "status", "b": b} for b in range(256)], nproc=1)
    cl_out = common.harness_run(binary, [{"op": "client_status", "b": b} for b in range(256)], nproc=4)
    for b, (o, c) in enumerate(zip(st_out, cl_out)):
        if "class" not in o or "authenticate" not in c:
            crashed.append(({"op": "status", "b": b}, {"status": o, "client": c})); continue
        terms.append('CStatus %d "%s" "%s" %d (%s) (%s) (%s)' % (b, o["class"], o["name"], o["back"], werr_term(o["werr"]),
                                                                werr_term(c["authenticate"]), werr_term(c["register"])))
        info.append(("status", "status", {"op": "status", "b": b}, {"status": o, "client": c}))

    keep = [(tm, inf) for tm, inf in zip(terms, info) if tm is not None]
    ser_crashes = [inf for tm, inf in zip(terms, info) if tm is None]
    terms, info = [k[0] for k in keep], [k[1] for k in keep]
    res = common.coq_eval(PROP, PREAMBLE, terms, ["agree", "oracle"], shard=100, shard_chars=150000)

    if os.environ.get("C13_DEBUG"):
        for i in res["agree"][:40]:
            kind, t, c, o = info[i]
            print("DISAGREE", kind, t, c.get("label") if isinstance(c, dict) else "", json.dumps(c)[:600], "\n   impl:", json.dumps(o)[:500],
                  "\n   model:", model_view(terms[i])[-700:] if len(terms[i]) < 20000 else "(large)")
    # ---- verdict
    for kind, t, desc, o in ser_crashes[:2]:
        run.violation({"kind": "serialising a message value failed or crashed", "t": t, "case": desc, "observed": o})
    for c, o in crashed[:2]:
        run.violation({"kind": "the implementation crashed (panic/abort) on an input", "case": c, "observed": o})
    for i in res["oracle"][:3]:
        kind, t, c, o = info[i]
        run.violation({"kind": "property oracle false on the implementation's observation (%s %s)" % (kind, t),
                       "what": explain(kind, c), "case": c if kind != "ser" else {"op": "ser", "t": t, "m": c}, "observed": o,
                       "broken": "; ".join(b.what for b in broken) or None})
    if not res["oracle"] and not crashed and not ser_crashes:
        for i in res["agree"][:1]:
            kind, t, c, o = info[i]
            run.violation({"kind": "model and implementation disagree (%s %s); oracle true on all %d cases of this run" % (kind, t, len(terms)),
                           "broken": "correspondence ctapmsg/%s (Wire.CtapCheck.agree)" % kind,
                           "case": c if kind != "ser" else {"op": "ser", "t": t, "m": c}, "observed": o,
                           "model": model_view(terms[i]) if len(terms[i]) < 20000 else "(large)"},
                          found_input=False)
        if not res["agree"]:
            for b in broken[:1]:
                run.violation({"broken": b.what, "detail": b.detail,
                               "note": "the theorem or translator named in 'broken' no longer checks; the oracle was true on all %d "
                                       "implementation observations of this run and model and implementation agree" % len(terms)},
                              found_input=False)

    n_lem = common.count_lemmas(COQ_FILES) if not broken else 0
    sig = set()
    for kind, t, c, o in info:
        if kind == "ser":
            sig.add((kind, t, tuple(k for k, v in c.items() if v is None), len(o.get("hex", "")) // 64))
        elif kind == "de":
            sig.add((kind, t, c["label"], bool(o.get("ok")), (o.get("err") or "")[:50]))
        else:
            sig.add((kind, c["b"]))
    labels = {}
    for kind, t, c, o in info:
        if kind == "de":
            k = c["label"] + (":ok" if o.get("ok") else ":err")
            labels[k] = labels.get(k, 0) + 1
    run.cov.update({
        "obligations": n_lem, "discharged": n_lem,
        "checker_cmd": "make -C coq theories/Props/C13.vo (coqc 8.16.1, full .vo build) + hygiene gate + Print Assumptions",
        "trusted_base": ["Coq 8.16.1 kernel, vm_compute", "translators/ctap_schema.py, status.py, webauthn_error.py",
                         "Wire/CtapSpec.v (hand transcription of the CTAP member numbers)", "Lib/Cbor.v as the model of ciborium",
                         "correspondence harness (pkharness ctapmsg) + driver/c13.py",
                         "Print Assumptions: %d closed under the global context, axioms: %s" % (assum["closed"], assum["with_allowed_axioms"] or "none"),
                         "coqchk: " + coqchk],
        "theorems": thms,
        "evaluations": len(terms), "distinct_nontrivial": len(sig),
        "rule": "ser: for each of the 6 integer-keyed messages every presence mask of the optional members twice, then random masks; byte strings "
                "of lengths 0/1/23/24/255/256 mixed in; nested descriptors with/without transports, extension inputs/outputs, options; "
                "de: the implementation's own encodings plus mutants per message (unknown integer key at every position, unknown text/bytes keys, "
                "text/bytes spelling of a member, keys 256..2^64-1, bignum keys, negative keys, keys of other types, duplicates, missing members, "
                "nulls, wrong member types, indefinite map, non-shortest heads, tags, truncation, trailing bytes); status: all 256 bytes, "
                "conversion and Client::authenticate/register with a failing store; distinct = (kind, message, absent members | mutation label, outcome, error)",
        "samples": [terms[0][:300], next((x for x in terms if x.startswith("CDe")), "")[:300], terms[-1][:300]],
        "model_disagreements": len(res["agree"]), "oracle_failures": len(res["oracle"]), "crashes": len(crashed) + len(ser_crashes),
        "ser_cases": len(msgs), "de_cases": len(de_in), "status_cases": 256, "mutation_outcomes": labels,
    })
    run.assumptions += ["passkey-types is built without the feature serialize_bytes_as_base64_string (harness default features)",
                        "HashMap members (prf evalByCredential) compared with at most one entry",
                        "authenticator data inside responses is the 37-byte form (the general layout is C12)"]


def explain(kind, c):
    if kind == "ser":
        return ("the serialised message is not a definite map of the specification's member numbers in ascending order "
                "without nulls, or does not read back to an equal message")
    if kind == "de":
        return {"MUnknown": "an entry with an unknown key changed the result (must be ignored)",
                "MDup": "a repeated member was accepted (must be an error)",
                "MMissing": "a missing required member was accepted (must be an error)",
                "MBase": "the implementation's own encoding does not read back to an equal message"}.get(
                    c.get("cls", "").split(" ")[0], "absent options do not take the specified defaults (up true, rk and uv false)")
    return "status byte does not convert back to itself, or authenticate does not report it as specified"


def model_view(term):
    if term.startswith("CSer"):
        q = "match c with CSer msg vals _ impl _ => (Some (ser_msg (schema_of msg) vals), enc_opt (de_msg (schema_of msg) impl)) | _ => (None, None) end"
    elif term.startswith("CDe"):
        q = "match c with CDe msg _ input _ _ => (None, enc_opt (de_msg (schema_of msg) input)) | _ => (None, None) end"
    else:
        q = "match c with CStatus b _ _ _ _ _ _ => option_map (fun s => (byte_of_status s, authenticate_error s, register_error s)) (status_of_byte b) | _ => None end"
    return common.coq_show(PROP, PREAMBLE, "let c := %s in %s" % (term, q))


def replay(payload):
    c = payload.get("case")
    if not c:
        print("no concrete input in this replay file; broken tie: %s" % payload.get("broken"))
        print((payload.get("detail") or "")[-2000:])
        return 0
    binary = common.harness_build("ctapmsg")
    print(json.dumps(common.harness_one(binary, {k: v for k, v in c.items() if k in ("op", "t", "m", "hex", "b")}))[:3000])
    return 0
