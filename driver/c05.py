"""C05 - credentials are used only for their own RP and as the allow/exclude lists say."""
import json
import common, ceremony
from ceremony import *

PROP = "C05"
COQ_TARGETS = ceremony.COQ_TARGETS + list(ceremony.WCOQ_TARGETS)
HARNESS_BINS = ceremony.HARNESS_BINS
replay = ceremony.replay


def isolation_oracle(sc, out):
    fails = []
    viol, known = find_contract_oracle(sc, out)
    fails += viol
    fails += [("known", k, what) for k, what in known]
    content = sc["store"]["content"]
    if sc["store"]["kind"] in ("option", "arc_mutex_option"):
        content = content[-1:]
    in_known_class = bool(known)
    for op, obs in zip(sc["ops"], out["ops"]):
        res = obs["result"]
        if op["op"] == "get_assertion" and "ok" in res:
            used = [p for p in content if p["cred_id"] == res["ok"]["cred_id"]]
            if not used:
                fails.append("assertion with a credential the store does not hold")
            else:
                u = used[0]
                allow = op["req"]["allow"]
                if u["rp_id"] != op["req"]["rp_id"] and not in_known_class:
                    fails.append("assertion for RP %s produced with a credential bound to %s" % (op["req"]["rp_id"], u["rp_id"]))
                if allow and u["cred_id"] not in allow:
                    fails.append("assertion with a credential that is not in the non-empty allow list")
                if res["ok"]["user_handle"] != u["user_handle"]:
                    fails.append("user handle returned is not the stored one")
        if op["op"] == "make_credential":
            ex = op["req"]["exclude"]
            held = bool(ex) and any(p["rp_id"] == op["req"]["rp"]["id"] and p["cred_id"] in ex for p in content)
            consent = any(e["c"] == "check" and "ok" in e["r"] for e in obs["log"])
            excluded = res.get("err") == 0x19
            looked = any(e["c"] == "find" for e in obs["log"])
            if held and looked and not excluded and not sc.get("faults"):
                fails.append("exclude list names a credential held for the same RP but the result is not CredentialExcluded")
            if excluded and not held and not in_known_class and \
               not any(isinstance(e.get("r"), dict) and e["r"].get("err") == 0x19 for e in obs["log"]):
                fails.append("CredentialExcluded although no listed credential is held for this RP")
            if excluded and obs["store_after"] != content and sc["store"]["kind"] in ("ref", "arc_rwlock_ref", "arc_mutex_ref"):
                fails.append("CredentialExcluded but the store changed")
        content = obs["store_after"]
    return fails


def typed_lists(run):
    """allow / exclude lists whose descriptors carry a `type` other than "public-key" (the library matches by id only): a
    non-empty list stays a non-empty list whatever the types are"""
    rng = run.rng
    scs = []
    for kind in ("ref", "option", "arc_mutex_ref"):
        ids = [bytes([0x40 + j]) * 16 for j in range(3)]
        content = [mk_passkey(rng, "example.com", cred_id=ids[0], keyidx=0, counter=2), mk_passkey(rng, "example.com", cred_id=ids[1], keyidx=1),
                   mk_passkey(rng, "other.org", cred_id=ids[2], keyidx=2)]
        if kind == "option":
            content = content[:1]
        for allow, tys in [([ids[1]], [False]), ([ids[1], ids[0]], [False, False]), ([b"\x77" * 16], [False]), ([ids[2]], [False]),
                           ([ids[1], ids[0]], [False, True]), ([ids[1], ids[0]], [True, False]), ([b"\x77" * 16, ids[0]], [False, False])]:
            q = ga_req(rng, allow=allow); q["allow_ty"] = tys
            q2 = mc_req(rng, exclude=allow); q2["exclude_ty"] = tys
            scs.append(scenario(store_kind=kind, content=content, ops=[{"op": "get_assertion", "req": q}, {"op": "make_credential", "req": q2}],
                                user={"script": [{"presence": True, "verification": True}] * 2}))
    # ids that are NOT the held id but close to it: empty, a strict prefix, the held id plus one byte, same length with the
    # last byte changed - none of them names the held credential
    for kind in ("ref", "option", "memory", "arc_mutex_memory"):
        held = bytes(range(0x60, 0x70))
        content = [mk_passkey(rng, "example.com", cred_id=held, keyidx=0, counter=1)]
        for near in (b"", held[:1], held[:8], held[:15], held + b"\x00", held + held, held[:15] + b"\xff", held[1:]):
            for lst in ([near], [near, bytes(16)]):
                scs.append(scenario(store_kind=kind, content=content,
                                    ops=[{"op": "get_assertion", "req": ga_req(rng, allow=lst)}, {"op": "make_credential", "req": mc_req(rng, exclude=lst)}],
                                    user={"script": [{"presence": True, "verification": True}] * 2}))
    # RP IDs that are NOT the bound one but spelled like it (other letter case, trailing dot, one character more or less, a
    # sub- or parent domain): the binding is to the exact string - none of them may use or exclude the credential
    for kind in ("ref", "option", "arc_mutex_option", "arc_rwlock_ref"):
        held = bytes(range(0x30, 0x40))
        for bound in ("example.com", "Login.Example.com"):
            content = [mk_passkey(rng, bound, cred_id=held, keyidx=0, counter=1)]
            for rp in (bound.upper(), bound.lower(), bound.capitalize(), bound + ".", "." + bound, bound[1:], bound[:-1], "www." + bound,
                       bound.split(".", 1)[1], bound.replace("e", "E", 1), bound.replace("m", "M")):
                if rp == bound:
                    continue
                for lst in ([held], None):
                    ops = [{"op": "get_assertion", "req": ga_req(rng, rp=rp, allow=lst)}]
                    if lst:
                        ops.append({"op": "make_credential", "req": mc_req(rng, rp=rp, exclude=lst)})
                    scs.append(scenario(store_kind=kind, content=content, ops=ops, user={"script": [{"presence": True, "verification": True}] * 2}))
    # a lookup that FAILS (any status other than "no credentials") while the exclude list names nothing held: the registration
    # is not excluded - a failing store is not a hit
    for kind in ("ref", "memory", "arc_mutex_ref"):
        content = [mk_passkey(rng, "other.org", cred_id=bytes([0x51]) * 16, keyidx=0)]
        for code in (0x01, 0x22, 0x27, 0x28, 0x30, 0x7f):
            for ex in ([bytes([0x52]) * 16], [bytes([0x51]) * 16, bytes(16)]):
                scs.append(scenario(store_kind=kind, content=content, faults=[{"at": 0, "code": code}],
                                    ops=[{"op": "make_credential", "req": mc_req(rng, exclude=ex)}, {"op": "make_credential", "req": mc_req(rng, exclude=ex)}],
                                    user={"script": [{"presence": True, "verification": True}] * 2}))
    return scs


def client_lists(run):
    """the WebAuthn entry points: allow / exclude lists are matched by id, whatever `transports` hint (or `type`) a descriptor
    carries and whatever transports the authenticator reports - a listed credential held for the RP excludes the registration and
    is the one an authentication uses"""
    rng = run.rng
    held = bytes([0x6D]) * 16
    scs = []
    hints = [None, [], ["usb"], ["internal"], ["hybrid", "internal"], ["nfc", "ble"], ["something-new"]]
    for kind in ("option", "ref", "arc_mutex_ref"):
        for tr_cfg in (None, ["usb"], ["internal", "hybrid"]):
            content = [mk_passkey(rng, "example.com", cred_id=held, counter=1, keyidx=0, user_handle=b"\x01\x02\x03")]
            cfg = {"counter": True}
            if tr_cfg is not None: cfg["transports"] = tr_cfg
            for h in hints:
                r = reg_op(rng, exclude=[held]); r["req"]["exclude_tr"] = [h]
                r2 = reg_op(rng, exclude=[bytes(16), held]); r2["req"]["exclude_tr"] = [h, h]
                a = auth_op(rng, allow=[held]); a["req"]["allow_tr"] = [h]
                scs.append(client_scenario(store_kind=kind, content=content, config=cfg, user={"script": [{"presence": True, "verification": True}] * 3}, ops=[r, a, r2]))
    binary = common.harness_build("ceremony")
    outs = ceremony.run_scenarios(binary, scs)
    fails = []
    for sc, out in zip(scs, outs):
        if "ops" not in out:
            fails.append((sc, out, "the client ceremony crashed the process")); continue
        for op, obs in zip(sc["ops"], out["ops"]):
            res = obs["result"]
            if op["op"] == "register":
                if "ok" in res or res["err"] != {"kind": "AuthenticatorError", "code": 0x19}:
                    fails.append((sc, obs, "the exclude list names a credential held for the same RP (descriptor transports %s) but the registration answered %s "
                                           "instead of credential-excluded" % (op["req"]["exclude_tr"], json.dumps(res)[:90])))
                elif len(obs["store_after"]) != len(sc["store"]["content"]):
                    fails.append((sc, obs, "an excluded registration changed the store"))
            else:
                if "ok" not in res or res["ok"]["raw_id"] != held.hex():
                    fails.append((sc, obs, "an authentication whose allow list names the held credential (descriptor transports %s) answered %s"
                                           % (op["req"]["allow_tr"], json.dumps(res)[:90])))
    for sc, obs, why in fails[:3]:
        run.violation({"kind": "client level: " + why, "scenario": sc, "observed": obs})
    common.coq_build(list(ceremony.WCOQ_TARGETS))
    flat = [x for x in ceremony.wcases_of(scs, outs) if x[4] is not None]
    res = common.coq_eval(PROP + "-client", ceremony.WPREAMBLE, [t for *_, t in flat], ["wagree"], shard=60)
    if not fails and res["wagree"]:
        si, oi, op, obs, t = flat[res["wagree"][0]]
        run.violation({"kind": "client model and implementation disagree; the client-level list oracle is true on all %d observations" % len(flat),
                       "broken": "correspondence ceremony/%s (Auth.ClientCheck.wagree)" % op["op"], "scenario": scs[si], "observed": obs}, found_input=False)
    run.cov["client_level"] = {"scenarios": len(scs), "operations": len(flat), "oracle_failures": len(fails), "model_disagreements": len(res["wagree"]),
                               "rule": "Client::register (exclude list naming the held credential, alone and after an unknown id) and Client::authenticate (allow list) x "
                                       "descriptor transports hint {absent, empty, usb, internal, hybrid+internal, nfc+ble, unknown} x authenticator transports x store kind"}


def check(run):
    n = 350 if run.tier == "quick" else 6000
    scenarios = typed_lists(run) + [gen_history(run.rng, run.tier, faults=(i % 5 == 4)) for i in range(n)]
    ceremony.standard_check(
        run, PROP, scenarios, [history_meta(s) for s in scenarios], ["store_ok"], py_oracle=isolation_oracle,
        coq_files=["theories/Auth/Authenticator.v", "theories/Auth/StoreFacts.v", "theories/Auth/Store.v", "theories/Auth/C05Facts.v", "theories/Auth/History.v"],
        rule="random histories (1-5 operations) over multi-RP stores (0-6 credentials over 3 RPs, identical user handles across RPs), "
             "allow/exclude lists absent/empty/hit/miss/foreign, descriptors with unknown `type`, RP IDs spelled like the bound one (case, dot, one character, sub/parent domain), every store kind (reference, MemoryStore, Option, and their lock wrappers)",
        assumptions=["MemoryStore departs from the lookup contract in two recorded classes (KNOWN_FINDINGS.json): reported, not failed"])
    # a shared store whose lock is briefly held by another handle while the ceremony reaches a store call (C19's deterministic
    # executor): the ceremony must wait - never answer as if nothing were stored, never skip a write
    import c19
    run.cov["held_lock"] = c19.check_held_locks(run, ("C05",))
    client_lists(run)
