"""Correspondence of the shared library models (coq/theories/Lib: Cbor, Base64, Sha256, Hmac) against
the third-party crates they specify (ciborium, data-encoding via passkey-types, sha2, hmac).

    check_cbor(run) / check_base64(run) / check_hash(run)  ->  dict of counts
        raise common.Tie on any disagreement (a broken tie of the library layer); `run` supplies
        `run.rng` and `run.tier` (a `common.Run`).
    python3 driver/libcheck.py [quick|thorough] [cbor|base64|hash ...]     stand-alone summary
"""
import json, os, sys, time
sys.path.insert(0, os.path.dirname(os.path.abspath(__file__)))
import common
from common import blit

sys.setrecursionlimit(20000)
HARNESS_BINS = ["lib"]
CORPUS = os.path.join(common.VERIF, "corpus", "LIB")
BOUNDS = [0, 1, 23, 24, 255, 256, 65535, 65536, (1 << 32) - 1, 1 << 32, (1 << 64) - 1]


def corpus(op):
    out = []
    if os.path.isdir(CORPUS):
        for f in sorted(os.listdir(CORPUS)):
            if f.endswith(".json"):
                c = json.load(open(os.path.join(CORPUS, f)))
                if c.get("op") == op:
                    out.append(c)
    return out


def fail(domain, what, cases):
    raise common.Tie("correspondence lib/%s: %s" % (domain, what), json.dumps(cases[:5], default=str)[:6000])


# =============================================================================================
# CBOR

CBOR_PREAMBLE = "From PK Require Import Lib.Bytes Lib.Check Lib.Cbor Lib.CborCheck.\nOpen Scope N_scope.\n"
CBOR_TARGETS = ["theories/Lib/CborCheck.vo"]


def cterm(t, top=True):
    """JSON value tree (see harness/src/bin/lib.rs) -> Coq term of type cbor"""
    (k, v), = t.items()
    if k == "i":
        s = "CInt (%s)" % v if v.startswith("-") else "CInt %s" % v
    elif k == "b":
        s = "CBytes %s" % blit(bytes.fromhex(v))
    elif k == "t":
        s = "CText %s" % blit(bytes.fromhex(v))
    elif k == "a":
        s = "CArr [%s]" % "; ".join(cterm(x) for x in v)
    elif k == "m":
        s = "CMap [%s]" % "; ".join("(%s, %s)" % (cterm(a), cterm(b)) for a, b in v)
    elif k == "g":
        s = "CTag %s %s" % (v[0], cterm(v[1], False))
    elif k == "o":
        s = "CBool %s" % ("true" if v else "false")
    elif k == "n":
        s = "CNull"
    elif k == "f":
        s = "CFloat 8 %s" % v
    else:
        raise ValueError(k)
    return s if top or k == "n" else "(" + s + ")"


def py_head(mt, n, width=None):
    """CBOR head; width None = shortest, else 0 (inline), 1, 2, 4, 8 bytes of argument"""
    if width is None:
        width = 0 if n < 24 else 1 if n < 256 else 2 if n < 65536 else 4 if n < (1 << 32) else 8
    if width == 0:
        assert n < 24
        return bytes([mt << 5 | n])
    return bytes([mt << 5 | {1: 24, 2: 25, 4: 26, 8: 27}[width]]) + n.to_bytes(width, "big")


def py_emit(t, rng, weird):
    """encode a value tree; with probability `weird` per head use a non-shortest head / indefinite
    length / chunked string (all accepted by ciborium)"""
    def hd(mt, n):
        if rng.random() < weird:
            ws = [w for w in (1, 2, 4, 8) if n < (1 << (8 * w))]
            return py_head(mt, n, rng.choice(ws))
        return py_head(mt, n)
    def chunked(mt, data, cut_ok):
        out = bytes([mt << 5 | 31])
        i, nest = 0, 0
        while i < len(data) or rng.random() < 0.2:
            r = rng.random()
            if r < 0.15:
                out += bytes([mt << 5 | 31]); nest += 1; continue
            if r < 0.25 and nest:
                out += b"\xff"; nest -= 1; continue
            j = min(len(data), i + rng.randrange(0, 6))
            while not cut_ok(data, j):
                j += 1
            out += hd(mt, j - i) + data[i:j]
            i = j
            if i >= len(data) and rng.random() < 0.7:
                break
        return out + b"\xff" * (nest + 1)
    (k, v), = t.items()
    if k == "i":
        n = int(v)
        return hd(0, n) if n >= 0 else hd(1, -1 - n)
    if k == "b":
        data = bytes.fromhex(v)
        if rng.random() < weird:
            return chunked(2, data, lambda d, j: True)
        return hd(2, len(data)) + data
    if k == "t":
        data = bytes.fromhex(v)
        if rng.random() < weird:
            return chunked(3, data, lambda d, j: j >= len(d) or (d[j] & 0xC0) != 0x80)
        return hd(3, len(data)) + data
    if k == "a":
        body = b"".join(py_emit(x, rng, weird) for x in v)
        if rng.random() < weird:
            return b"\x9f" + body + b"\xff"
        return hd(4, len(v)) + body
    if k == "m":
        body = b"".join(py_emit(a, rng, weird) + py_emit(b, rng, weird) for a, b in v)
        if rng.random() < weird:
            return b"\xbf" + body + b"\xff"
        return hd(5, len(v)) + body
    if k == "g":
        return hd(6, int(v[0])) + py_emit(v[1], rng, weird)
    if k == "o":
        x = 21 if v else 20
        return bytes([0xF8, x]) if rng.random() < weird else bytes([0xE0 | x])
    if k == "n":
        x = rng.choice([22, 23]) if rng.random() < weird else 22
        return bytes([0xF8, x]) if rng.random() < weird else bytes([0xE0 | x])
    if k == "f":
        bits = int(v)
        return b"\xfb" + bits.to_bytes(8, "big")
    raise ValueError(k)


TEXTS = ["", "a", "id", "name", "public-key", "é", "€", "\U0001d11e", "\u0000", "日本語",
         "߿ࠀ￿\U00010000\U0010ffff", "퟿", "rp", "alg", "type", "x" * 22 + "é"]


def gen_int(rng):
    r = rng.random()
    if r < 0.5:
        n = rng.choice(BOUNDS)
    elif r < 0.8:
        n = rng.randrange(1 << rng.choice([5, 8, 16, 32, 64]))
    else:
        n = rng.randrange(0, 30)
    return {"i": str(n if rng.random() < 0.6 else -1 - n)}


def gen_text(rng, n=None):
    if n is None:
        s = "".join(rng.choice(TEXTS) for _ in range(rng.randrange(0, 4)))
    else:
        s = ""
        while len(s.encode()) < n:
            c = rng.choice(["a", "é", "€", "\U0001d11e", "z"])
            if len((s + c).encode()) <= n:
                s += c
    return {"t": s.encode().hex()}


def gen_value(rng, depth=0, maxdepth=4):
    r = rng.random()
    if depth >= maxdepth:
        r *= 0.55
    if r < 0.2:
        return gen_int(rng)
    if r < 0.3:
        n = rng.choice([0, 1, 2, 16, 23, 24, 32, 65]) if rng.random() < 0.8 else rng.randrange(0, 300)
        return {"b": bytes(rng.randrange(256) for _ in range(n)).hex()}
    if r < 0.42:
        return gen_text(rng)
    if r < 0.47:
        return {"o": rng.random() < 0.5}
    if r < 0.5:
        return {"n": 0}
    if r < 0.55:
        return gen_bignum(rng)
    if r < 0.72:
        n = rng.choice([0, 1, 2, 3, 5]) if rng.random() < 0.9 else rng.choice([23, 24, 30])
        return {"a": [gen_value(rng, depth + 1, maxdepth) for _ in range(n)]}
    if r < 0.9:
        n = rng.choice([0, 1, 2, 3, 5]) if rng.random() < 0.9 else rng.choice([23, 24])
        return {"m": [[gen_value(rng, depth + 1, maxdepth) if rng.random() < 0.2 else
                       (gen_int(rng) if rng.random() < 0.5 else gen_text(rng)),
                       gen_value(rng, depth + 1, maxdepth)] for _ in range(n)]}
    t = rng.choice(BOUNDS + [2, 3, 4, 24, 55799]) if rng.random() < 0.7 else rng.randrange(1 << 64)
    inner = gen_value(rng, depth + 1, maxdepth)
    if t in (2, 3) and "b" in inner and len(inner["b"]) // 2 <= 16:
        inner = {"b": inner["b"] + "00" * 17}       # keep it out of the bignum shape (well formed)
    return {"g": [str(t), inner]}


def gen_bignum(rng):
    """a normalised bignum: ciborium reads it back unchanged"""
    t = rng.choice([2, 3])
    n = rng.randrange(9, 17)
    first = rng.randrange(1, 128 if (t == 3 and n == 16) else 256)
    return {"g": [str(t), {"b": (bytes([first]) + bytes(rng.randrange(256) for _ in range(n - 1))).hex()}]}


def structured_values(rng, tier):
    vals = []
    for n in BOUNDS:                                   # every head size, both integer majors, tags
        vals += [({"i": str(n)}, 0), ({"i": str(-1 - n)}, 0), ({"g": [str(n), {"n": 0}]}, 0)]
        for d in (-1, 1):
            if 0 <= n + d < (1 << 64):
                vals += [({"i": str(n + d)}, 0), ({"i": str(-1 - (n + d))}, 0)]
    lens = [0, 1, 23, 24, 255, 256] + ([65535, 65536] if tier == "thorough" else [])
    for n in lens:                                     # length heads of every container kind
        vals.append(({"b": bytes(rng.randrange(256) for _ in range(n)).hex()}, 0))
        vals.append((gen_text(rng, n), 0))
        if n <= 256 or tier == "thorough":
            vals.append(({"a": [{"i": str(i % 24)} for i in range(n)]}, 0))
            vals.append(({"m": [[{"i": str(i)}, {"o": i % 2 == 0}] for i in range(n)]}, 0))
    vals += [({"t": "".join(TEXTS).encode().hex()}, 0), ({"o": True}, 0), ({"o": False}, 0), ({"n": 0}, 0),
             ({"a": []}, 0), ({"m": []}, 0), ({"a": [{"a": []}, {"m": []}]}, 0),
             ({"m": [[{"i": "1"}, {"i": "1"}], [{"i": "1"}, {"i": "2"}]]}, 0),        # duplicate keys are kept
             ({"m": [[{"a": [{"i": "1"}]}, {"m": [[{"n": 0}, {"o": True}]]}]]}, 0)]   # container keys
    for w in (1, 2, 100, 253, 254, 255):               # nesting up to ciborium's own read limit
        vals.append(({"i": "7"}, w))
        vals.append(({"m": [[{"i": "1"}, {"t": "6162"}]]}, w))
    # text longer than ciborium's 4096-byte scratch buffer, multi-byte characters across the boundary
    vals.append(({"t": ("a" * 4094 + "€\U0001d11e" * 200).encode().hex()}, 0))
    vals.append(({"b": bytes(i % 251 for i in range(5000)).hex()}, 0))
    for _ in range(12):
        vals.append((gen_bignum(rng), 0))
    for _ in range(250 if tier == "quick" else 3000):
        vals.append((gen_value(rng, 0, rng.choice([1, 2, 3, 4, 6])), 0))
    return vals


def f64_patterns(rng, tier):
    out = [0, 1 << 63, 0x3FF0000000000000, 0x7FF0000000000000, 0xFFF0000000000000, 0x7FF8000000000000,
           0x7FF0000000000001, 0xFFF8000000000001, 0x3E70000000000000, 0x36A0000000000000, 1, 0x000FFFFFFFFFFFFF,
           0x40EFFC0000000000, 0x40F0000000000000, 0x47EFFFFFE0000000, 0x47F0000000000000, 0x3F10000000000000,
           0x3810000000000000, 0x380FFFFFC0000000, 0x400921FB54442D18, 0x400921FB60000000]
    for _ in range(60 if tier == "quick" else 1000):
        r = rng.random()
        if r < 0.3:      # exactly representable in binary16
            h = rng.randrange(1 << 16)
            s, e, m = h >> 15, (h >> 10) & 31, h & 1023
            if e == 0 or e == 31:
                out.append((s << 63) | (0x7FF << 52 if e == 31 else 0) | ((m << 42) if e == 31 else 0) if e == 31 or m == 0
                           else (s << 63) | ((1023 - 24 + m.bit_length() - 1) << 52) | ((m - (1 << (m.bit_length() - 1))) << (52 - (m.bit_length() - 1))))
            else:
                out.append((s << 63) | ((e - 15 + 1023) << 52) | (m << 42))
        elif r < 0.6:    # exactly representable in binary32 (normal)
            e = rng.randrange(1, 255); m = rng.randrange(1 << 23)
            out.append((rng.randrange(2) << 63) | ((e - 127 + 1023) << 52) | (m << 29))
        else:
            out.append(rng.randrange(1 << 64))
    return out


def malformed_stream(rng, tier, valid):
    """byte strings most of which ciborium must reject (and some odd ones it accepts)"""
    out = [bytes([b]) for b in range(256)]                       # every one-byte input
    two = [bytes([a, b]) for a in range(256) for b in range(256)]
    out += two if tier == "thorough" else rng.sample(two, 1500)
    out += [bytes([0xF8, b]) for b in range(256)]                # simple values, long form
    out += [bytes([0xF8, b, 0]) for b in (19, 20, 23, 24, 31, 32, 255)]
    for mt in range(8):                                          # reserved additional info, stray 31
        for ai in (24, 25, 26, 27, 28, 29, 30, 31):
            for tail in (b"", b"\x00", b"\x00" * 8, b"\x01\x02\x03\x04\x05\x06\x07\x08\x09", b"\xff"):
                out.append(bytes([mt << 5 | ai]) + tail)
    # breaks in the wrong place
    out += [bytes.fromhex(h) for h in (
        "ff", "8201ff", "81ff", "a101ff", "a1ff01", "bf01ff", "bfff", "9fff", "9f01ff", "bf0102ff", "bf010203ff",
        "9f9fffff", "9f9fff", "5fff", "7fff", "5f4100ff", "5f6100ff", "7f4100ff", "7f6161ff", "5f01ff", "5f80ff",
        "5f5f4100ffff", "5f5fff4100ff", "5f5f5fffffff", "5f5fffff00", "5f5f4100ff", "7f7f6161ff6162ff", "5f7fffff",
        "5fffff", "c0ff", "c2ff", "d9d9f7a0", "c1c1c100", "c25f4105ff", "c2581105" + "00" * 16, "c25005" + "00" * 15,
        "c2410005", "c24100", "c240", "c340", "c34100", "c3420001", "d80241ff", "c25801ff", "c2590001ff", "c3581001" + "00" * 15,
        "c24900" + "ff" * 8, "c249" + "01" + "00" * 8, "c349" + "01" + "00" * 8, "c350" + "7f" + "ff" * 15,
        "c350" + "80" + "00" * 15, "c250" + "ff" * 16, "c251" + "00" + "ff" * 16, "c351" + "00" + "ff" * 16,
        "c24a0000" + "ff" * 8, "c2420000", "c2" + "6105", "c2c24105", "c2c3410504", "c1c24105", "82c24105c34105")]
    # UTF-8
    for h in ("c3a9", "c3", "a9", "c080", "c1bf", "e08080", "e0a080", "e09fbf", "eda080", "ed9fbf", "edbfbf", "ee8080",
              "f0808080", "f08f8080", "f0908080", "f48fbfbf", "f4908080", "f5808080", "f8888080", "ff", "fe", "80", "bf",
              "e282", "f09d84", "61c3", "c328", "e28228", "f09d8428", "efbfbf", "efbfbe", "ef", "00", "7f", "c280", "dfbf",
              "e0a0", "f0", "f09d849e61", "61f09d849e", "e1", "ec8080", "ed80", "f1808080", "f3bfbfbf", "f480"):
        s = bytes.fromhex(h)
        out.append(py_head(3, len(s)) + s)
        out.append(b"\x7f" + py_head(3, len(s)) + s + b"\xff")
        if len(s) > 1:                                           # a character split over two chunks
            out.append(b"\x7f" + py_head(3, 1) + s[:1] + py_head(3, len(s) - 1) + s[1:] + b"\xff")
    long_txt = ("a" * 4093 + "€\U0001d11e" * 3).encode()
    for cut in (4094, 4095, 4096, 4097, 4098, 4100):             # invalid bytes around the 4096-byte chunk boundary
        bad = bytearray(long_txt); bad[cut] = 0xFF
        out.append(py_head(3, len(bad)) + bytes(bad))
        out.append(py_head(3, cut) + long_txt[:cut])             # truncated character at the end
    out.append(py_head(3, len(long_txt)) + long_txt)
    out.append(py_head(3, len(long_txt)) + long_txt[:-1])
    # nesting around ciborium's recursion limit (256)
    deep = [254, 255, 256, 257, 258, 300] + ([2000, 20000] if tier == "thorough" else [1000])
    for n in deep:
        out += [b"\x81" * n + b"\x00", b"\x9f" * n + b"\x00" + b"\xff" * n, b"\xc1" * n + b"\x00",
                b"\xa1\x00" * n + b"\x00", b"\xa1" * n + b"\x00" * (n + 1), b"\xbf\x00" * n + b"\x00" + b"\xff" * n,
                b"\x81" * n + b"\x80", b"\x81" * n + b"\xa0", b"\x81" * n + b"\xc2\x41\x05", b"\x81" * n + b"\xc1\x00",
                b"\x81" * n + b"\x40", b"\x81" * n + b"\x5f\xff", b"\x81" * n + b"\xc2\x49\x01" + b"\x00" * 8,
                b"\x81" * n, (b"\x81\xc1\xa1\x00") * (n // 3) + b"\x00",
                b"\x5f" * n + b"\x41\x00" + b"\xff" * n, b"\x7f" * n + b"\x61\x61" + b"\xff" * n,
                b"\x5f" * n + b"\x41\x00" + b"\xff" * (n - 1), b"\x5f" * n + b"\xff" * n + b"\x00"]
    # huge declared lengths, short input
    for mt in (2, 3, 4, 5):
        for n in ((1 << 64) - 1, 1 << 63, 1 << 32, (1 << 32) - 1, 65536, 4097, 300, 24):
            for tail in (b"", b"\x00", b"\x00" * 10, b"\x61" * 23):
                out.append(py_head(mt, n) + tail)
                out.append(bytes([mt << 5 | 31]) + py_head(mt if mt < 4 else 0, n) + tail)
    # mutations of valid encodings
    pool = [v for v in valid if len(v) <= 400]
    small = [v for v in pool if 1 < len(v) <= 40]
    for v in rng.sample(small, min(len(small), 60 if tier == "quick" else 600)):
        out += [v[:i] for i in range(len(v))]                    # every proper prefix
    n_mut = 1500 if tier == "quick" else 20000
    for _ in range(n_mut):
        v = bytearray(rng.choice(pool))
        for _ in range(rng.choice([1, 1, 1, 2, 3])):
            r = rng.random()
            i = rng.randrange(len(v) + 1)
            special = rng.choice([0xFF, 0x1C, 0x1F, 0x5F, 0x7F, 0x9F, 0xBF, 0xC2, 0xC3, 0xF8, 0xF9, 0x18, 0x1B, 0x5B, 0x9B, 0xF7, 0xF6])
            x = special if rng.random() < 0.4 else rng.randrange(256)
            if r < 0.4 and i < len(v): v[i] = x
            elif r < 0.6: v.insert(i, x)
            elif r < 0.75 and i < len(v): del v[i]
            elif r < 0.85: v = v[:i]
            else: v += bytes([x])
        out.append(bytes(v))
    for _ in range(800 if tier == "quick" else 20000):           # unstructured noise
        out.append(bytes(rng.randrange(256) for _ in range(rng.randrange(1, 24))))
    for v in rng.sample(pool, min(len(pool), 100)):              # trailing bytes are left unread
        out.append(v + bytes(rng.randrange(256) for _ in range(rng.randrange(1, 9))))
    return out


def check_cbor(run):
    t0 = time.time()
    rng, tier = run.rng, run.tier
    common.coq_build(CBOR_TARGETS)
    binary = common.harness_build("lib")

    # ---- encoder: structured values -> ciborium -> model encodes the same and reads it back
    vals = structured_values(rng, tier)
    enc_in = [{"op": "cbor_enc", "v": v, "wrap": w} for v, w in vals]
    enc_out = common.harness_run(binary, enc_in)
    terms, info = [], []
    valid = []
    for c, o in zip(enc_in, enc_out):
        if o.get("ok") is not True:
            fail("cbor", "ciborium refused to serialise a generated value", [{"case": c, "observed": o}])
        valid.append(bytes.fromhex(o["bytes"]))
        terms.append("CEnc (%s) %d%%nat %s" % (cterm(c["v"]), c["wrap"], blit(valid[-1])))
        info.append((c, o))
    fl = f64_patterns(rng, tier)
    fl_in = [{"op": "cbor_enc", "v": {"f": str(b)}} for b in fl]
    fl_out = common.harness_run(binary, fl_in)
    for b, c, o in zip(fl, fl_in, fl_out):
        terms.append("CEncF %d %s" % (b, blit(bytes.fromhex(o["bytes"]))))
        info.append((c, o))
        valid.append(bytes.fromhex(o["bytes"]))
    n_enc = len(terms)

    # ---- decoder: ciborium's own output, re-encodings with non-shortest heads / indefinite lengths /
    #      chunked strings, and the malformed stream
    dec_bytes = [bytes.fromhex(c["bytes"]) for c in corpus("cbor_dec")]
    dec_bytes += valid
    weird = []
    for v, w in vals:
        if w == 0 and len(json.dumps(v)) < 3000:
            for p in (0.15, 0.5, 1.0):
                weird.append(py_emit(v, rng, p))
    for b in fl:                                                  # floats of all three widths
        weird.append(b"\xfb" + b.to_bytes(8, "big"))
        weird.append(b"\xfa" + (b & 0xFFFFFFFF).to_bytes(4, "big"))
        weird.append(b"\xf9" + (b & 0xFFFF).to_bytes(2, "big"))
        weird.append(b"\x82\xfa" + (b >> 32).to_bytes(4, "big") + b"\xf9" + (b >> 48).to_bytes(2, "big"))
    dec_bytes += weird
    mal = malformed_stream(rng, tier, valid + weird)
    dec_bytes += mal
    dec_in = [{"op": "cbor_dec", "bytes": b.hex()} for b in dec_bytes]
    dec_out = common.harness_run(binary, dec_in)
    crashed = []
    hist = {}
    for c, o in zip(dec_in, dec_out):
        if o.get("panic") or o.get("crash"):
            crashed.append({"case": c, "observed": o}); continue
        if o["ok"]:
            impl = "(Some (%s, %d))" % (cterm(o["v"]), o["rest"])
        else:
            impl = "None"
        hist[o.get("err", "ok")] = hist.get(o.get("err", "ok"), 0) + 1
        terms.append("CDec %s %s" % (blit(bytes.fromhex(c["bytes"])), impl))
        info.append((c, o))
    if crashed:
        fail("cbor", "ciborium panicked/crashed on an input", crashed)
    res = common.coq_eval("LIBCBOR", CBOR_PREAMBLE, terms, ["agree"], shard=400, shard_chars=150000)
    if res["agree"]:
        bad = []
        for i in res["agree"][:5]:
            c, o = info[i]
            bad.append({"case": c, "observed": o, "kind": "enc" if i < n_enc else "dec",
                        "model": common.coq_show("LIBCBOR", CBOR_PREAMBLE,
                                                 "match %s with CDec b _ => (cbor_decode cbor_fuel b, []) | CEnc v w _ => (None, cbor_encode (wrap_arr w v)) | CEncF _ b => (cbor_decode cbor_fuel b, []) end" % terms[i])[-1500:]
                        if len(terms[i]) < 20000 else "(large)"})
        fail("cbor", "model (Lib/Cbor.v) and ciborium disagree on %d of %d cases" % (len(res["agree"]), len(terms)), bad)
    sig = set()
    for c, o in info:
        if c["op"] == "cbor_enc":
            sig.add(("enc", o["bytes"][:2], min(len(o["bytes"]) // 2, 300) // 8, c.get("wrap", 0)))
        else:
            b = c["bytes"]
            sig.add(("dec", b[:2], o.get("err", "ok"), min(len(b) // 2, 64) // 4, o.get("rest", 0) > 0))
    return {"domain": "cbor (ciborium 0.2.2)", "evaluations": len(terms), "enc_cases": n_enc - len(fl), "float_enc_cases": len(fl),
            "dec_cases": len(dec_in), "dec_valid_or_reencoded": len(valid) + len(weird), "dec_malformed_stream": len(mal),
            "dec_outcomes": hist, "disagreements": 0, "distinct_nontrivial": len(sig),
            "literal_bytes": sum(len(t) for t in terms), "wall_s": round(time.time() - t0, 1)}


# =============================================================================================
# Base64

B64_PREAMBLE = "From PK Require Import Lib.Bytes Lib.Check Lib.Base64 Lib.Base64Check.\nOpen Scope N_scope.\n"
B64_TARGETS = ["theories/Lib/Base64Check.vo"]
ALNUM = "ABCDEFGHIJKLMNOPQRSTUVWXYZabcdefghijklmnopqrstuvwxyz0123456789"
URL_ALPHA, STD_ALPHA = ALNUM + "-_", ALNUM + "+/"


def opt_blit(h):
    return "None" if h is None else "(Some %s)" % blit(bytes.fromhex(h))


def check_base64(run):
    t0 = time.time()
    rng, tier = run.rng, run.tier
    common.coq_build(B64_TARGETS)
    binary = common.harness_build("lib")
    # ---- encoders: every length 0..66, random and extreme contents
    datas = []
    per_len = 4 if tier == "quick" else 40
    for n in range(0, 67):
        datas += [bytes(n), b"\xff" * n, bytes((0xFB, 0xEF, 0xBE)[i % 3] for i in range(n)),    # '+' and '-' only / '/' and '_' heavy
                  bytes((0xFF, 0xFF, 0xFE)[i % 3] for i in range(n))]
        datas += [bytes(rng.randrange(256) for _ in range(n)) for _ in range(per_len)]
    datas += [bytes(rng.randrange(256) for _ in range(n)) for n in (100, 255, 256, 1000)]
    enc_in = [{"op": "b64enc", "data": d.hex()} for d in datas]
    enc_out = common.harness_run(binary, enc_in)
    terms, info = [], []
    strings = []
    for d, c, o in zip(datas, enc_in, enc_out):
        if "url" not in o:
            fail("base64", "encoder crashed", [{"case": c, "observed": o}])
        terms.append("BEnc %s %s %s %s" % (blit(d), blit(bytes.fromhex(o["url"])), blit(bytes.fromhex(o["std"])),
                                           blit(bytes.fromhex(o["bytes_into_string"]))))
        info.append((c, o))
        strings.append((bytes.fromhex(o["url"]).decode(), bytes.fromhex(o["std"]).decode()))
    n_enc = len(terms)
    # ---- decoders
    dec = [c["s"] for c in corpus("b64dec")]
    def add(s):
        dec.append(s.encode().hex())
    for u, sd in strings[: (400 if tier == "quick" else len(strings))]:
        pad = "=" * (-len(u) % 4)
        for x in (u, sd):
            add(x); add(x + pad); add(x + "="); add(x + "=====")
            if x:
                add(x[:-1])                                            # drops a character: length / trailing bits change
                i = rng.randrange(len(x))
                add(x[:i] + rng.choice("-_+/= \n.*\u00e9A") + x[i + 1:])   # one character replaced
                add(x[:i] + "=" + x[i:])                               # padding in the middle
                add(x[:-1] + rng.choice(URL_ALPHA))                    # non-canonical trailing bits
                add(x[:-1] + rng.choice(STD_ALPHA))
    for s_ in ("", "=", "==", "====", "A", "A=", "A===", "AA", "AA=", "AA==", "AAA", "AAA=", "AAAA", "AAAA=", "AAAAA",
               "QQ", "QR", "QUI", "QUJ", "QUIC", "-_", "+/", "-/", "+_", "-_-_", "+/+/", "+/-_", "Zg", "Zm8", "Zm9v",
               "Zm9vYg", "Zm9vYmE", "Zm9vYmFy", " QQ", "QQ ", "Q Q", "QQ\n", "QQ\r\n", "\u00e9", "QQ\u00e9", "\u00e9==",
               "=QQ", "Q=Q", "QQ=Q", "QQ==QQ==", "!", "AA!A", "AA\x00A", "\x00", "AA\x7f", "////", "____", "++++", "----",
               "/w", "_w", "/x", "_x", "+A", "-A", "+B", "-B", "AA-", "AA+", "AA_", "AA/", "AB-", "AB+"):
        add(s_)
    for a in URL_ALPHA + "+/=":                                        # every 2-character string of the joint alphabet
        for b in URL_ALPHA + "+/=":
            add(a + b)
    n3 = 600 if tier == "quick" else 20000
    for _ in range(n3):                                               # 3- and 7-character strings: trailing 2 bits
        add("".join(rng.choice(URL_ALPHA + "+/") for _ in range(rng.choice([3, 7]))))
    for _ in range(1200 if tier == "quick" else 30000):
        n = rng.randrange(0, 24)
        alpha = rng.choice([URL_ALPHA, STD_ALPHA, ALNUM, URL_ALPHA + "+/", URL_ALPHA + "=", STD_ALPHA + "= \n"])
        add("".join(rng.choice(alpha) for _ in range(n)) + "=" * rng.choice([0, 0, 0, 1, 2, 3]))
    for _ in range(200 if tier == "quick" else 5000):                 # arbitrary text
        add("".join(chr(rng.choice([rng.randrange(32, 127), rng.randrange(0, 0x250)])) for _ in range(rng.randrange(0, 12))))
    dec_in = [{"op": "b64dec", "s": h} for h in dec]
    dec_out = common.harness_run(binary, dec_in)
    hist = {}
    for c, o in zip(dec_in, dec_out):
        if "url" not in o:
            fail("base64", "decoder panicked/crashed", [{"case": c, "observed": o}])
        terms.append("BDec %s %s %s" % (blit(bytes.fromhex(c["s"])), opt_blit(o["url"]), opt_blit(o["bytes"])))
        info.append((c, o))
        k = ("url" if o["url"] is not None else "std-only" if o["bytes"] is not None else "rejected")
        hist[k] = hist.get(k, 0) + 1
    res = common.coq_eval("LIBB64", B64_PREAMBLE, terms, ["agree"], shard=800, shard_chars=200000)
    if res["agree"]:
        bad = [{"case": info[i][0], "observed": info[i][1],
                "model": common.coq_show("LIBB64", B64_PREAMBLE, "match %s with BDec s _ _ => (try_from_base64url s, try_from_base64 s, []) | BEnc b _ _ _ => (None, None, b64url_encode b) end" % terms[i])[-800:]}
               for i in res["agree"][:5]]
        fail("base64", "model (Lib/Base64.v) and passkey-types::encoding disagree on %d of %d cases" % (len(res["agree"]), len(terms)), bad)
    sig = set()
    for c, o in info[n_enc:]:
        s_ = bytes.fromhex(c["s"])
        sig.add((len(s_.rstrip(b"=")) % 4, len(s_) - len(s_.rstrip(b"=")) > 0, o["url"] is not None, o["bytes"] is not None,
                 b"+" in s_ or b"/" in s_, b"-" in s_ or b"_" in s_, min(len(s_), 12)))
    for c, o in info[:n_enc]:
        sig.add(("enc", len(c["data"]) // 2))
    return {"domain": "base64 (data-encoding via passkey-types::encoding, Bytes::try_from)", "evaluations": len(terms),
            "enc_cases": n_enc, "enc_lengths": "0..66 + 100,255,256,1000", "dec_cases": len(dec_in), "dec_outcomes": hist,
            "disagreements": 0, "distinct_nontrivial": len(sig), "literal_bytes": sum(len(t) for t in terms),
            "wall_s": round(time.time() - t0, 1)}


# =============================================================================================
# SHA-256 / HMAC-SHA-256

HASH_PREAMBLE = "From PK Require Import Lib.Bytes Lib.Check Lib.Sha256 Lib.Hmac Lib.HashCheck.\nOpen Scope N_scope.\n"
HASH_TARGETS = ["theories/Lib/HashCheck.vo"]


def check_hash(run):
    t0 = time.time()
    rng, tier = run.rng, run.tier
    common.coq_build(HASH_TARGETS)
    binary = common.harness_build("lib")
    rb = lambda n: bytes(rng.randrange(256) for _ in range(n))
    msgs = [bytes.fromhex(c["data"]) for c in corpus("sha256")]
    lens = list(range(0, 131)) + [183, 184, 191, 192, 193, 247, 248, 255, 256, 257, 1000, 4096]
    if tier == "thorough":
        lens += list(range(131, 400)) + [10000, 65536]
    for n in lens:
        msgs.append(rb(n))
        if n in (0, 1, 55, 56, 57, 63, 64, 65, 119, 120, 121, 127, 128, 129):
            msgs += [bytes(n), b"\xff" * n, b"\x80" * n, rb(n)]
    for _ in range(0 if tier == "quick" else 600):
        msgs.append(rb(rng.randrange(0, 300)))
    hm = [(bytes.fromhex(c["key"]), bytes.fromhex(c["data"])) for c in corpus("hmac")]
    klens = [0, 1, 16, 20, 32, 63, 64, 65, 100, 128, 131, 200]
    mlens = [0, 1, 32, 55, 56, 63, 64, 65, 119, 120, 200]
    for k in klens:
        for m in (mlens if tier == "thorough" else rng.sample(mlens, 5)):
            hm.append((rb(k), rb(m)))
    hm += [(b"", b""), (b"\x00" * 64, b""), (b"\x00" * 65, b"\x00"), (b"\x36" * 64, b"\x5c" * 64), (b"\xff" * 64, b"\xff" * 64)]
    for _ in range(30 if tier == "quick" else 500):
        hm.append((rb(rng.choice([rng.randrange(0, 64), 64, rng.randrange(65, 140), 32])), rb(rng.randrange(0, 150))))
    cases = [{"op": "sha256", "data": m.hex()} for m in msgs] + [{"op": "hmac", "key": k.hex(), "data": m.hex()} for k, m in hm]
    outs = common.harness_run(binary, cases)
    terms = []
    for c, o in zip(cases, outs):
        if "h" not in o:
            fail("hash", "sha2/hmac crate crashed", [{"case": c, "observed": o}])
        h = blit(bytes.fromhex(o["h"]))
        if c["op"] == "sha256":
            terms.append("HSha %s %s" % (blit(bytes.fromhex(c["data"])), h))
        else:
            terms.append("HHmac %s %s %s" % (blit(bytes.fromhex(c["key"])), blit(bytes.fromhex(c["data"])), h))
    res = common.coq_eval("LIBHASH", HASH_PREAMBLE, terms, ["agree"], shard=40, shard_chars=60000)
    if res["agree"]:
        fail("hash", "model (Lib/Sha256.v, Lib/Hmac.v) and sha2/hmac disagree on %d of %d cases" % (len(res["agree"]), len(terms)),
             [{"case": cases[i], "observed": outs[i]} for i in res["agree"][:5]])
    blocks = sum((len(m) + 9 + 63) // 64 for m in msgs) + sum(((max(len(m), 0) + 64 + 9 + 63) // 64) + 2 + ((len(k) + 9 + 63) // 64 if len(k) > 64 else 0) for k, m in hm)
    sig = set(("sha", len(m)) for m in msgs) | set(("hmac", min(len(k), 66) if len(k) < 67 else 67, (len(m) + 9 + 63) // 64) for k, m in hm)
    return {"domain": "sha256 / hmac-sha256 (crates sha2, hmac)", "evaluations": len(terms), "sha_cases": len(msgs), "hmac_cases": len(hm),
            "sha_lengths": "every length 0..130, block boundaries 55/56/63/64/119/120/127/128 with extreme fills, up to 4096",
            "hmac_key_lengths": klens, "compression_calls": blocks, "disagreements": 0, "distinct_nontrivial": len(sig),
            "literal_bytes": sum(len(t) for t in terms), "wall_s": round(time.time() - t0, 1)}


# =============================================================================================
# stand-alone

def main(argv):
    tier = "quick"
    which = []
    for a in argv[1:]:
        if a in ("quick", "thorough"): tier = a
        else: which.append(a)
    checks = {"cbor": check_cbor}
    checks.update(EXTRA_CHECKS)
    rc = 0
    for name in (which or list(checks)):
        run = common.Run("LIB", tier)
        try:
            r = checks[name](run)
            print("OK   %-7s %s" % (name, json.dumps(r)))
        except common.Tie as t:
            rc = 1
            print("FAIL %-7s %s\n%s" % (name, t.what, t.detail))
    return rc


EXTRA_CHECKS = {"base64": check_base64, "hash": check_hash}

if __name__ == "__main__":
    sys.exit(main(sys.argv))
