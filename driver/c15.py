"""C15 - Decoders of untrusted input never crash or allocate out of proportion.

Proof part: Props/C15.v (cost theorems over Wire/Robust.v + re-exported totality theorems of the HID,
U2F, authenticator-data and public-suffix models).  Tie: every input runs in the isolated worker
`pkharness robust` (counting allocator, catch_unwind, watchdog; an abort / stack overflow / hang kills
the worker and is isolated to one input by common.harness_run); the observation is judged by
  * the property itself on the observation alone: class in {value, error}, largest allocation request
    <= ALLOC_A * |input| + ALLOC_B, elapsed <= TIME_T  (panics of the known class are printed as the
    KNOWN-FINDING and do not fail the run);
  * the models, evaluated inside Coq on the same inputs: Wire.RobustCheck (Bytes visitor, transports
    list, Bytes::try_from(&str), fingerprint, COSE key conversion, generic CBOR accept/reject, authenticator
    data class), Hid.HidCheck (packet sequences), Wire.U2fCheck (U2F parsers, via c17.check_u2f_robust).
PARTIAL in the sense of DESIGN.md: third-party parser internals and the real allocator/stack/clock are
observed, not proved."""
import json, os, struct, time
import common
from common import blit

PROP = "C15"
PREAMBLE = ("From PK Require Import Lib.Bytes Lib.Check Lib.Cbor Wire.Robust Wire.RobustCheck.\n"
            "From Coq Require Import ZArith.\nOpen Scope N_scope.\n")
HID_PREAMBLE = "From PK Require Import Lib.Bytes Lib.Check Hid.HidModel Hid.HidCheck.\nOpen Scope N_scope.\n"
MODEL_TARGETS = ["theories/Wire/RobustCheck.vo", "theories/Hid/HidCheck.vo", "theories/Wire/U2fCheck.vo"]
PROOF_TARGETS = ["theories/Wire/RobustFacts.vo", "theories/Wire/U2fWireFacts.vo", "theories/Hid/HidFacts.vo",
                 "theories/Wire/AuthDataFacts.vo", "theories/Psl/PslData.vo"]
COQ_TARGETS = MODEL_TARGETS + PROOF_TARGETS
HARNESS_BINS = ["robust", "u2fwire"]
COQ_FILES = ["theories/Wire/Robust.v", "theories/Wire/RobustFacts.v", "theories/Props/C15.v"]

# The bound of the property, chosen from measurements on the unchanged tree (see evidence "measured"):
# the largest request seen is serde's own `size_hint::cautious` pre-allocation (at most 1 MiB whatever
# the element type) and otherwise a small multiple of the input (Vec doubling, error messages quoting
# the input, serde_json/ciborium Value trees: up to ~40 bytes per input byte).
ALLOC_A = 64
ALLOC_B = 1 << 20
# Decoders that are entirely the repository's own code (no serde / serde_json / ciborium parse inside; cose_to_der is
# not among them: its input goes through ciborium first) get the
# tight bounds their models justify; measured on the unchanged tree with >= 2x headroom (evidence "measured"):
#   op -> (A, B, TA, TB): largest single request <= A*n + B, sum of all requests during the call <= TA*n + TB.
# The sum matters for the packet-sequence decoder: memory pinned per pending channel adds up over a sequence.
OP_BOUNDS = {
    "hid_packets": (8, 4096, 16, 4096),       # measured: max <= 1.7 n + 1 KiB, total <= 4.2 n + 1 KiB
    "u2f_request": (1, 256, 4, 1024),         # model: every allocation is a copy of a slice of the input
    "psl": (0, 4096, 0, 4096),                # lookups borrow from the input
}
TIME_T_US = 2_000_000
# time in proportion to the input: within a scaling group the largest input may take at most SCALING_K x (size ratio) x the
# time of the smallest (never judged below SCALING_FLOOR_US, where timer noise dominates); quadratic behaviour gives the
# square of the size ratio
SCALING_SIZES = (10000, 80000)
SCALING_K = 5
SCALING_FLOOR_US = 1000
KILL_MS = 4000           # the worker's watchdog: a decoder call running longer kills the worker (observed as a crash)
MAX_COQ_LITERAL = 1500   # inputs longer than this are judged on the observation only (literal parse cost)

CBOR_OPS = ["cbor_make_credential_request", "cbor_get_assertion_request", "cbor_get_info_response",
            "cbor_make_credential_response", "cbor_get_assertion_response"]
JSON_OPS = ["json_creation_options", "json_request_options", "json_client_data"]
HUGE = [2 ** 16, 2 ** 20, 2 ** 24, 2 ** 28, 2 ** 31 - 1, 2 ** 32 - 1, 2 ** 32, 2 ** 40, 2 ** 63, 2 ** 64 - 1]


# ---------------------------------------------------------------------------------------------
# a small CBOR writer / walker (independent of the Rust code and of Lib/Cbor.v)

def head(major, n, width=None):
    """CBOR head; width None = shortest, else 1, 2, 4, 8 argument bytes (0 = in the initial byte)"""
    if width is None:
        width = 0 if n < 24 else 1 if n < 256 else 2 if n < 65536 else 4 if n < 2 ** 32 else 8
    if width == 0:
        return bytes([(major << 5) | n])
    ai = {1: 24, 2: 25, 4: 26, 8: 27}[width]
    return bytes([(major << 5) | ai]) + n.to_bytes(width, "big")


def cenc(v):
    """python value -> CBOR: int, bytes, str, list, dict (insertion order), bool, None, ('tag', t, v), ('raw', bytes)"""
    if isinstance(v, bool): return b"\xf5" if v else b"\xf4"
    if v is None: return b"\xf6"
    if isinstance(v, int): return head(0, v) if v >= 0 else head(1, -1 - v)
    if isinstance(v, bytes): return head(2, len(v)) + v
    if isinstance(v, str): e = v.encode("utf-8"); return head(3, len(e)) + e
    if isinstance(v, list): return head(4, len(v)) + b"".join(cenc(x) for x in v)
    if isinstance(v, dict): return head(5, len(v)) + b"".join(cenc(k) + cenc(x) for k, x in v.items())
    if isinstance(v, tuple) and v[0] == "tag": return head(6, v[1]) + cenc(v[2])
    if isinstance(v, tuple) and v[0] == "raw": return v[1]
    raise ValueError(v)


def walk(b):
    """items of a well-formed definite-length encoding: [(start, head_len, major, arg, end)] in document order"""
    out = []
    def item(i):
        ib = b[i]; major, ai = ib >> 5, ib & 31
        if ai < 24: n, hl = ai, 1
        elif ai in (24, 25, 26, 27):
            w = 1 << (ai - 24); n, hl = int.from_bytes(b[i + 1:i + 1 + w], "big"), 1 + w
        else:
            raise ValueError("indefinite/reserved")
        idx = len(out); out.append(None)
        j = i + hl
        if major in (2, 3): j += n
        elif major == 4:
            for _ in range(n): j = item(j)
        elif major == 5:
            for _ in range(2 * n): j = item(j)
        elif major == 6: j = item(j)
        if j > len(b): raise ValueError("short")
        out[idx] = (i, hl, major, n, j)
        return j
    try:
        item(0)
    except (ValueError, IndexError):
        return [x for x in out if x]
    return out


def rb(rng, n):
    return bytes(rng.randrange(256) for _ in range(n))


def deep(kind, k, leaf=b"\x00"):
    """k nested containers around a leaf"""
    if kind == "arr": return b"\x81" * k + leaf
    if kind == "map": return b"\xa1\x00" * k + leaf
    if kind == "tag": return b"\xc1" * k + leaf
    if kind == "iarr": return b"\x9f" * k + leaf + b"\xff" * k
    if kind == "imap": return b"\xbf\x00" * k + leaf + b"\xff" * k
    if kind == "ibytes": return b"\x5f" * k + b"\x41\x00" + b"\xff" * k
    if kind == "itext": return b"\x7f" * k + b"\x61\x61" + b"\xff" * k
    if kind == "open_iarr": return b"\x9f" * k
    if kind == "mixed": return (b"\x81\xa1\x00\xc1" * ((k + 2) // 3)) + leaf
    raise ValueError(kind)


# ---------------------------------------------------------------------------------------------
# generic mutations of a valid CBOR encoding

def cbor_mutations(rng, v, n_trunc, n_flip, big):
    out = []
    L = len(v)
    cuts = set(range(min(L, 12))) | set(range(max(0, L - 6), L)) | set(rng.randrange(L) for _ in range(n_trunc))
    for c in sorted(cuts):
        out.append(("trunc", v[:c]))
    for extra in (1, 2, 9, 300):
        out.append(("extend", v + rb(rng, extra)))
    out.append(("extend", v + v))
    for _ in range(n_flip):
        g = bytearray(v)
        for _ in range(rng.choice([1, 1, 2, 3])):
            g[rng.randrange(L)] ^= 1 << rng.randrange(8)
        out.append(("flip", bytes(g)))
    items = walk(v)
    lens = [it for it in items if it[2] in (2, 3, 4, 5)]
    pick = lens if big else rng.sample(lens, min(len(lens), 14))
    for (i, hl, major, n, end) in pick:
        hs = HUGE if big else rng.sample(HUGE, 3) + [2 ** 31 - 1]
        for h in hs:
            hh = head(major, h, 4 if h < 2 ** 32 else 8)
            out.append(("len-rewrite", v[:i] + hh + v[i + hl:]))           # content kept
            if rng.random() < 0.5 or big:
                out.append(("len-rewrite-cut", v[:i] + hh))                 # input ends right behind the head
                out.append(("len-rewrite-cut", v[:i] + hh + v[i + hl:i + hl + rng.randrange(1, 12)]))
        out.append(("len-plus-one", v[:i] + head(major, n + 1) + v[i + hl:]))
        if n:
            out.append(("len-minus-one", v[:i] + head(major, n - 1) + v[i + hl:]))
        out.append(("indefinite-open", v[:i] + bytes([(major << 5) | 31]) + v[i + hl:]))
    # the F6 shape: a byte-string item replaced by an array head of huge declared length
    for (i, hl, major, n, end) in [it for it in items if it[2] == 2]:
        for h in ([2 ** 40] if not big else [2 ** 20, 2 ** 31 - 1, 2 ** 40, 2 ** 64 - 1]):
            out.append(("bytes-as-huge-array", v[:i] + head(4, h, 8) + v[end:]))
            out.append(("bytes-as-huge-array", v[:i] + head(4, h, 8) + v[i + hl:]))
        out.append(("bytes-as-array", v[:i] + head(4, n) + v[i + hl:]))
    # deep nesting substituted for an item
    leafs = [it for it in items if it[0] > 0]
    for kind, k in [("arr", 200), ("arr", 300), ("arr", 1000), ("map", 1000), ("tag", 1000), ("ibytes", 1000),
                    ("iarr", 300), ("mixed", 999)] + ([("arr", 100000), ("itext", 100000), ("imap", 50000)] if big else []):
        (i, hl, major, n, end) = leafs[rng.randrange(len(leafs))]
        out.append(("deep-inside", v[:i] + deep(kind, k) + v[end:]))
    return out


# ---------------------------------------------------------------------------------------------
# case generators; every case: harness dict + "_shape" + "_n" (input size in bytes)

def C(op, shape, n, **kw):
    d = {"op": op, "_shape": shape, "_n": n}
    d.update(kw)
    return d


def hexcase(op, shape, b):
    return C(op, shape, len(b), hex=bytes(b).hex())


def strcase(op, shape, s, **kw):
    return C(op, shape, len(s.encode("utf-8")), s=s, **kw)


def rand_unicode(rng, n):
    pools = ["abcdefghijklmnopqrstuvwxyzABCDEFGHIJKLMNOPQRSTUVWXYZ0123456789", "-_+/=:. \t\n\"\\{}[],",
             "éüЖ中文公司\U0001F600‍\u0000\u007f�"]
    return "".join(rng.choice(pools[0] if rng.random() < 0.6 else rng.choice(pools)) for _ in range(n))


def gen_cbor_messages(run, samples, scale):
    rng, out = run.rng, []
    big = run.tier != "quick"
    for op in CBOR_OPS:
        v = bytes.fromhex(samples[op])
        out.append(hexcase(op, "valid", v))
        for shape, m in cbor_mutations(rng, v, 25 * scale, 40 * scale, big):
            out.append(hexcase(op, shape, m))
        # the wrong message type
        for other in CBOR_OPS:
            if other != op:
                out.append(hexcase(op, "other-message", bytes.fromhex(samples[other])))
        for _ in range(60 * scale):
            n = rng.randrange(0, 300)
            s = bytearray(rb(rng, n))
            if n and rng.random() < 0.6:
                s[0] = rng.choice([0xa1, 0xa3, 0xa5, 0xa9, 0xbf, 0xb8, 0xba, 0xbb])
            out.append(hexcase(op, "random", bytes(s)))
        for kind, k in [("arr", 1000), ("map", 1000), ("tag", 1000), ("iarr", 1000), ("imap", 1000), ("ibytes", 1000),
                        ("itext", 1000), ("open_iarr", 1000), ("arr", 100000), ("map", 100000), ("tag", 100000),
                        ("ibytes", 100000), ("itext", 100000), ("open_iarr", 100000), ("mixed", 100000)]:
            out.append(hexcase(op, "deep-%s-%d" % (kind, k), deep(kind, k)))
    # the F7 shape: a getInfo whose transports list declares 2^31-1 entries and ends
    base = cenc({1: ["U2F"], 3: bytes(16)})
    for h in HUGE:
        for tail in (b"", b"\x63usb", b"\x63usb\x63foo", b"\x01"):
            g = head(5, 3) + base[1:] + b"\x09" + head(4, h, 4 if h < 2 ** 32 else 8) + tail
            out.append(hexcase("cbor_get_info_response", "f7-transports-huge-declared", g))
    # the same inside the descriptors of the two requests
    for op, key in (("cbor_make_credential_request", 5), ("cbor_get_assertion_request", 3)):
        v = bytes.fromhex(samples[op])
        items = walk(v)
        for (i, hl, major, n, end) in items:
            if major == 3 and v[i + hl:end] == b"transports":
                nxt = [it for it in items if it[0] == end][0]
                for h in (rng.sample(HUGE, 4) if not big else HUGE):
                    hh = head(4, h, 4 if h < 2 ** 32 else 8)
                    out.append(hexcase(op, "f7-transports-huge-declared", v[:nxt[0]] + hh))
                    out.append(hexcase(op, "f7-transports-huge-declared", v[:nxt[0]] + hh + v[nxt[0] + nxt[1]:]))
    return out


def gen_authdata(run, samples, scale):
    rng, out = run.rng, []
    big = run.tier != "quick"
    for v in [bytes.fromhex(h) for h in samples["authdata"]]:
        out.append(hexcase("authdata", "valid", v))
        for c in range(len(v)):
            out.append(hexcase("authdata", "trunc", v[:c]))
        for fl in (range(256) if (big or len(v) < 60) else rng.sample(range(256), 64)):
            g = bytearray(v); g[32] = fl
            out.append(hexcase("authdata", "flags", bytes(g)))
        for _ in range(40 * scale):
            g = bytearray(v)
            for _ in range(rng.choice([1, 2, 3])):
                g[rng.randrange(len(g))] ^= 1 << rng.randrange(8)
            out.append(hexcase("authdata", "flip", bytes(g)))
        for extra in (1, 3, 40):
            out.append(hexcase("authdata", "extend", v + rb(rng, extra)))
        if len(v) > 55:
            for ln in (0, 1, 15, 17, 100, 0x7fff, 0xffff):
                g = bytearray(v); g[53:55] = ln.to_bytes(2, "big")
                out.append(hexcase("authdata", "credential-id-length", bytes(g)))
            key_at = 55 + 16
            for shape, m in cbor_mutations(rng, v[key_at:], 6, 6, False):
                out.append(hexcase("authdata", "key-" + shape, v[:key_at] + m))
        # extension data present (ED) with arbitrary CBOR behind
        g = bytearray(v); g[32] |= 0x80
        for tail in (b"\xa0", b"\xa1\x61a\x01", deep("arr", 300), deep("map", 1000), deep("arr", 100000), b"\x9b" + b"\xff" * 8, b""):
            out.append(hexcase("authdata", "extensions", bytes(g) + tail))
    for _ in range(120 * scale):
        out.append(hexcase("authdata", "random", rb(rng, rng.randrange(0, 300))))
    return out


JSON_SAMPLES = {
    "json_creation_options": json.dumps({
        "rp": {"id": "example.com", "name": "Example"},
        "user": {"id": "dXNlcg", "name": "alice@example.com", "displayName": "Alice"},
        "challenge": "Y2hhbGxlbmdlLWNoYWxsZW5nZQ",
        "pubKeyCredParams": [{"type": "public-key", "alg": -7}, {"type": "public-key", "alg": -257}, {"type": "x", "alg": 1}],
        "timeout": 60000,
        "excludeCredentials": [{"type": "public-key", "id": [1, 2, 3, 4], "transports": ["usb", "nfc", "wifi", 7]}],
        "authenticatorSelection": {"authenticatorAttachment": "platform", "residentKey": "required",
                                   "requireResidentKey": True, "userVerification": "preferred"},
        "hints": ["security-key", "nope"], "attestation": "none", "attestationFormats": ["packed"],
        "extensions": {"credProps": True, "prf": {"eval": {"first": "AAAA"}}}}),
    "json_request_options": json.dumps({
        "challenge": "Y2hhbGxlbmdlLWNoYWxsZW5nZQ", "timeout": "30000", "rpId": "example.com",
        "allowCredentials": [{"type": "public-key", "id": "AQIDBA==", "transports": ["internal", "hybrid", "cable"]},
                             {"type": "unknown-type", "id": "AQID"}],
        "userVerification": "required", "hints": ["client-device"], "attestation": "direct",
        "attestationFormats": [], "extensions": {"prf": {"evalByCredential": {"AQIDBA": {"first": "AAAA", "second": "AQ"}}}}}),
    "json_client_data": json.dumps({
        "type": "webauthn.create", "challenge": "Y2hhbGxlbmdl", "origin": "https://example.com", "crossOrigin": False,
        "unknownKeyAddedByTheBrowser": {"a": [1, 2, {"b": None}]}}),
}


def json_nest(kind, k):
    if kind == "arr": return "[" * k + "]" * k
    if kind == "obj": return '{"a":' * k + "1" + "}" * k
    if kind == "open-arr": return "[" * k
    if kind == "open-obj": return '{"a":' * k
    raise ValueError(kind)


def gen_json(run, scale):
    rng, out = run.rng, []
    big = run.tier != "quick"
    for op, text in JSON_SAMPLES.items():
        v = text.encode("utf-8")
        out.append(hexcase(op, "valid", v))
        cuts = set(rng.randrange(len(v)) for _ in range(40 * scale)) | set(range(8))
        for c in sorted(cuts):
            out.append(hexcase(op, "trunc", v[:c]))
        for _ in range(50 * scale):
            g = bytearray(v)
            for _ in range(rng.choice([1, 1, 2])):
                g[rng.randrange(len(g))] ^= 1 << rng.randrange(8)
            out.append(hexcase(op, "flip", bytes(g)))
        for extra in (b" ", b"}", b"\x00", b"[]", v):
            out.append(hexcase(op, "extend", v + extra))
        # a value replaced by something else: deep nesting, long strings, long arrays, extreme numbers
        obj = json.loads(text)
        for key in list(obj.keys()):
            for shape, repl in [("deep-arr-200", json_nest("arr", 200)), ("deep-obj-200", json_nest("obj", 200)),
                                ("deep-arr-10k", json_nest("arr", 10000)), ("deep-obj-10k", json_nest("obj", 10000)),
                                ("open-arr-10k", json_nest("open-arr", 10000)),
                                ("long-string", '"' + "A" * 100000 + '"'), ("long-array", "[" + ",".join(["255"] * 30000) + "]"),
                                ("number", rng.choice(["1e999", "-1e999", "1" * 400, "-0", "1.5", "18446744073709551616", "1e-400"])),
                                ("null", "null"), ("escapes", '"' + "\\u0000\\ud83d\\ude00\\n" * 50 + '"'),
                                ("bad-escape", '"\\ud800"'), ("byte-array-huge", "[" + ",".join(["300"] * 10) + "]")]:
                if not big and rng.random() < 0.55 and not shape.startswith("deep"):
                    continue
                parts = []
                for k2, val in obj.items():
                    parts.append(json.dumps(k2) + ":" + (repl if k2 == key else json.dumps(val)))
                out.append(hexcase(op, "value-" + shape, ("{" + ",".join(parts) + "}").encode("utf-8")))
        for kind in ("arr", "obj", "open-arr", "open-obj"):
            for k in (200, 10000) + ((1000000,) if big else ()):
                out.append(hexcase(op, "deep-%s-%d" % (kind, k), json_nest(kind, k).encode()))
        out.append(hexcase(op, "long-string", ('"' + "x" * 1000000 + '"').encode()))
        out.append(hexcase(op, "long-key", ('{"' + "k" * 1000000 + '":1}').encode()))
        for _ in range(50 * scale):
            n = rng.randrange(0, 300)
            r = rng.random()
            if r < 0.4: s = rb(rng, n)
            elif r < 0.8: s = rand_unicode(rng, n).encode("utf-8")
            else: s = ("{" + rand_unicode(rng, n)).encode("utf-8")
            out.append(hexcase(op, "random", s))
    return out


def b64(data, url, pad):
    import base64
    s = (base64.urlsafe_b64encode(data) if url else base64.b64encode(data)).decode()
    s = s.rstrip("=")
    return s + "=" * pad


def gen_bytes_from_str(run, scale):
    rng, out = run.rng, []
    for n in list(range(0, 20)) + [31, 32, 33, 63, 64, 65, 66, 255, 256, 1000]:
        data = rb(rng, n)
        for url in (True, False):
            for pad in (0, (3 - n % 3) % 3, 5):
                out.append(strcase("bytes_from_str", "valid", b64(data, url, pad)))
        s = b64(data, True, 0)
        if s:
            i = rng.randrange(len(s))
            out.append(strcase("bytes_from_str", "bad-char", s[:i] + rng.choice("=!*. \né") + s[i + 1:]))
            out.append(strcase("bytes_from_str", "mixed-alphabet", s[:i] + rng.choice("+/-_") + s[i + 1:]))
            out.append(strcase("bytes_from_str", "trailing-bits", s[:-1] + rng.choice("BCDEFGHR/_9")))
            out.append(strcase("bytes_from_str", "cut", s[:-1]))
            out.append(strcase("bytes_from_str", "inner-pad", s[:i] + "=" + s[i:]))
    for _ in range(150 * scale):
        n = rng.randrange(0, 300)
        r = rng.random()
        if r < 0.5:
            s = "".join(rng.choice("ABCDEFGHIJKLMNOPQRSTUVWXYZabcdefghijklmnopqrstuvwxyz0123456789-_+/=") for _ in range(n))
        else:
            s = rand_unicode(rng, n)
        out.append(strcase("bytes_from_str", "random", s))
    out.append(strcase("bytes_from_str", "long-valid", "QUJD" * 250000))
    out.append(strcase("bytes_from_str", "long-invalid", "QUJD" * 250000 + "!"))
    out.append(strcase("bytes_from_str", "long-padding", "=" * 1000000))
    return out


GOOD_FP = "B3:5B:68:D5:CE:84:50:55:7C:6A:55:FD:64:B5:1F:EA:C1:10:CB:36:D6:A3:52:1C:59:48:DB:3A:38:0A:34:A9"


def gen_fingerprint(run, scale):
    rng, out = run.rng, []
    fp = GOOD_FP
    shapes = [("valid", fp), ("lowercase", fp.lower()), ("one-lowercase", fp[:4] + "b" + fp[5:]), ("empty", ""), ("colon", ":"),
              ("31", fp[:-3]), ("33", fp + ":00"), ("trailing-colon", fp + ":"), ("leading-colon", ":" + fp),
              ("double-colon", fp[:2] + "::" + fp[3:]), ("no-colons", fp.replace(":", "")), ("space", fp + " "),
              ("non-hex", fp[:6] + "X5" + fp[8:]), ("three-digits", "B35:5B"), ("one-digit", "B"), ("odd-tail", fp + ":A"),
              ("unicode", fp[:3] + "éB" + fp[5:]), ("fullwidth", "Ｂ３:5B"), ("nul", fp[:5] + "\x00" + fp[6:]),
              ("plus-sign", "+B:5B"), ("long", ":".join(["AB"] * 1000)), ("very-long", ":".join(["0F"] * 300000)),
              ("long-then-bad", ":".join(["AB"] * 1000) + ":x")]
    for shape, s in shapes:
        out.append(strcase("fingerprint", shape, s))
        out.append(strcase("asset_link", shape, s))
    for c in range(len(fp)):
        out.append(strcase("fingerprint", "trunc", fp[:c]))
    for _ in range(60 * scale):
        g = list(fp)
        for _ in range(rng.choice([1, 1, 2])):
            g[rng.randrange(len(g))] = rng.choice("0123456789ABCDEFabcdef:;G gé")
        out.append(strcase("fingerprint", "mutated", "".join(g)))
    for _ in range(60 * scale):
        k = rng.randrange(0, 70)
        s = ":".join("%02X" % rng.randrange(256) for _ in range(k))
        if rng.random() < 0.3:
            s = s.lower() if rng.random() < 0.5 else s + rng.choice([":", "0", ":0", " "])
        out.append(strcase("fingerprint", "pairs", s))
    for _ in range(60 * scale):
        out.append(strcase("fingerprint", "random", rand_unicode(rng, rng.randrange(0, 300))))
    return out


def gen_domains(run, scale):
    rng, out = run.rng, []
    import c10
    for w in c10.WEIRD:
        out.append(strcase("psl", "weird", w))
        out.append(strcase("rp_id", "weird", w))
        out.append(strcase("rp_id", "weird-localhost", w, origin="http://localhost:8080", localhost=True))
        out.append(strcase("rp_origin", "weird", "https://" + w))
    pool = ["", "a", "b", "www", "com", "co", "uk", "jp", "ck", "kobe", "city", "*", "!", "COM", "公司", "é",
            "xn--55qx5d", "xn--p1ai", "xn--", "xn---", "xn--a", "xn--é", "xn--zz-zz-zz", "a-b", "-", "_", "0", "\U0001F600",
            " ", "%2e", "example", "localhost"]
    for _ in range(200 * scale):
        k = rng.choice([1, 2, 2, 3, 3, 4, 5, 8, 20])
        d = ".".join(rng.choice(pool) for _ in range(k))
        out.append(strcase("psl", "labels", d))
        out.append(strcase("rp_id", "labels", d, origin="https://www.example.com" if rng.random() < 0.5 else "https://a." + "b.example.co.uk"))
    for _ in range(120 * scale):
        s = rand_unicode(rng, rng.randrange(0, 300))
        out.append(strcase("psl", "random", s))
        out.append(strcase("rp_id", "random", s))
        out.append(strcase("rp_origin", "random", rng.choice(["", "https://", "http://", "https://user:pw@", "file:///", "android:"]) + s))
    for shape, d in [("many-labels", "a." * 10000 + "com"), ("many-labels", "a." * 100000 + "example.com"), ("many-labels", "." * 100000), ("long-label", "x" * 100000 + ".co.uk"),
                     ("many-labels", ("xn--55qx5d." * 5000) + "cn"), ("long-label", "xn--" + "a" * 100000 + ".com"),
                     ("many-labels", ".".join(["kobe", "jp"] * 20000)), ("long-unicode", "公司" * 30000 + ".cn")]:
        out.append(strcase("psl", shape, d))
        out.append(strcase("rp_id", shape, d))
        out.append(strcase("rp_origin", shape, "https://" + d + "/x"))
    # an origin host with a great many labels against a short RP ID (the suffix test walks the host)
    for n in (1000, 20000, 100000):
        host = "a." * n + "example.com"
        for rp in ("example.com", "a.example.com", "other.org", ""):
            out.append(strcase("rp_id", "many-label-origin", rp, origin="https://" + host))
    return out


def gen_u2f(run, scale):
    """the raw request parser through this worker (class / allocation / time); the model comparison of the
    same parser runs through c17.check_u2f_robust"""
    import c17
    rng, out = run.rng, []
    frames = c17.gen_malformed(run)
    step = 1 if run.tier != "quick" else 5
    for f in frames[::step]:
        out.append(hexcase("u2f_request", "malformed", f))
    for f in c17.gen_wellformed(run)[::(4 * step)]:
        out.append(hexcase("u2f_request", "wellformed", f))
    for _ in range(100 * scale):
        out.append(hexcase("u2f_request", "random", rb(rng, rng.randrange(0, 300))))
    out.append(hexcase("u2f_request", "long", b"\x00\x02\x03\x00\x00\xff\xff" + rb(rng, 70000)))
    return out


COMMANDS = [0x03, 0x10, 0x06, 0x01, 0x11, 0x3F, 0x3B, 0x08, 0x04]


def hid_message_packets(ch, cmd, payload, bcnt=None):
    """the CTAPHID packets of a message (written from the CTAP specification)"""
    bcnt = len(payload) if bcnt is None else bcnt
    pk = [ch.to_bytes(4, "little") + bytes([0x80 | cmd]) + bcnt.to_bytes(2, "big") + payload[:57].ljust(57, b"\0")]
    rest, seq = payload[57:], 0
    while rest:
        pk.append(ch.to_bytes(4, "little") + bytes([seq & 0x7f]) + rest[:59].ljust(59, b"\0"))
        rest, seq = rest[59:], seq + 1
    return pk


def gen_hid(run, scale):
    rng, out = run.rng, []
    def case(shape, packets):
        return C("hid_packets", shape, sum(len(p) for p in packets), packets=[bytes(p).hex() for p in packets])
    ch = (0x01020304).to_bytes(4, "little")
    # the F9 shapes
    out.append(case("f9-7-byte-init-nonzero-bcnt", [ch + b"\x81\x00\x05"]))
    out.append(case("f9-7-byte-init-nonzero-bcnt", [ch + b"\x83\xff\xff"]))
    out.append(case("f9-short-continuation", [ch + b"\x81\x00\x64" + bytes(57), ch + b"\x00" + bytes(3)]))
    out.append(case("f9-short-continuation", [ch + b"\x81\x00\x64" + bytes(57), ch + b"\x00"]))
    out.append(case("f9-overlong-init-then-continuation", [ch + b"\x81\x00\x64" + bytes(120), ch + b"\x00" + bytes(59)]))
    out.append(case("f9-overlong-init-then-continuation", [ch + b"\x81\x00\x3a" + bytes(250), ch + b"\x00" + bytes(59), ch + b"\x01" + bytes(59)]))
    for n in range(0, 9):
        for first in (0x81, 0x00, 0xbf):
            out.append(case("short-packet", [(ch + bytes([first]) + b"\x00\x07" + bytes(60))[:n]]))
    # arbitrary / malformed sequences (same family as the C16 receiver cases, plus over-long packets)
    for _ in range(260 * scale):
        seq = []
        chs = [rng.randrange(1 << 32) for _ in range(2)]
        for _ in range(rng.randrange(1, 9)):
            ln = rng.choice([0, 1, 3, 4, 5, 6, 7, 8, 10, 63, 64, 64, 64, 65, 100, 300])
            p = bytearray(rb(rng, ln))
            if ln >= 4 and rng.random() < 0.8:
                p[0:4] = chs[rng.randrange(2)].to_bytes(4, "little")
            if ln >= 5:
                r = rng.random()
                if r < 0.4: p[4] = 0x80 | rng.choice(COMMANDS)
                elif r < 0.8: p[4] = rng.randrange(0, 4)
            if ln >= 7 and p[4] & 0x80 and rng.random() < 0.7:
                bc = rng.choice([0, 1, 56, 57, 58, 60, 116, 117, 200, 7609, 65535, ln - 7])
                p[5:7] = bc.to_bytes(2, "big")
            seq.append(bytes(p))
        out.append(case("random-sequence", seq))
    # valid messages, alone and interleaved, with truncated / extended / dropped / repeated packets
    for _ in range(30 * scale):
        msgs = []
        for _ in range(rng.randrange(1, 4)):
            n = rng.choice([0, 1, 57, 58, 116, 117, 300, 1000])
            msgs.append(hid_message_packets(rng.randrange(1 << 32), rng.choice(COMMANDS), rb(rng, n)))
        order = [i for i, m in enumerate(msgs) for _ in m]
        rng.shuffle(order)
        pos = [0] * len(msgs); merged = []
        for i in order:
            merged.append(msgs[i][pos[i]]); pos[i] += 1
        out.append(case("interleaved-valid", merged))
        m = list(merged)
        k = rng.randrange(len(m))
        r = rng.random()
        if r < 0.25: m[k] = m[k][:rng.randrange(0, 64)]
        elif r < 0.5: m[k] = m[k] + rb(rng, rng.randrange(1, 80))
        elif r < 0.75: del m[k]
        else: m.insert(k, m[k])
        out.append(case("interleaved-damaged", m))
    # declared length far above what is ever sent, on many channels (memory held per channel)
    many = [c.to_bytes(4, "little") + b"\x81\xff\xff" + bytes(57) for c in range(1, 301 if run.tier == "quick" else 5001)]
    out.append(case("many-pending-channels", many))
    # processing time in proportion to the input: N and 8N init packets on as many distinct channels, each leaving a
    # transaction open (BCNT one more than an init packet carries) - every packet must cost the same whatever the number of
    # open channels (judged as a pair below: SCALING)
    for n in SCALING_SIZES:
        cs = case("pending-scaling-%d" % n, [c.to_bytes(4, "little") + b"\x81\x00\x3a" + bytes(57) for c in range(1, n + 1)])
        cs["_scale_group"], cs["_scale_n"] = "hid-open-channels", n
        out.append(cs)
    # the longest messages: 7608 bytes accepted by the sender, 65535 declared
    out.append(case("longest-message", hid_message_packets(7, 0x10, rb(rng, 7608))))
    long_seq = hid_message_packets(9, 0x10, bytes(65535))          # sequence numbers wrap in this writer: receiver must stop at 128
    out.append(case("declared-65535", long_seq[:300]))
    if run.tier != "quick":
        big_seq = []
        for c in range(200):
            big_seq += hid_message_packets(c + 1, 0x10, rb(rng, 7608))
        rng.shuffle(big_seq)
        out.append(case("long-shuffled-sequence", big_seq))
        for _ in range(400):
            seq = []
            for _ in range(rng.randrange(50, 400)):
                p = bytearray(rb(rng, rng.choice([5, 7, 64, 64, 64, 64, 80])))
                if len(p) >= 5:
                    p[0:4] = rng.randrange(1, 4).to_bytes(4, "little")
                    p[4] = rng.choice([0x81, 0x90, 0, 1, 2, 3, 0x7f, rng.randrange(256)])
                if len(p) >= 7 and p[4] & 0x80:
                    p[5:7] = rng.choice([0, 57, 58, 116, 175, 300, 65535]).to_bytes(2, "big")
                seq.append(bytes(p))
            out.append(case("long-random-sequence", seq))
    return out


# P-256, only to produce valid points for the COSE key cases
P = 0xffffffff00000001000000000000000000000000ffffffffffffffffffffffff
B_ = 0x5ac635d8aa3a93e7b3ebbd55769886bc651d06b0cc53b0f63bce3c3e27d2604b
G = (0x6b17d1f2e12c4247f8bce6e563a440f277037d812deb33a0f4a13945d898c296, 0x4fe342e2fe1a7f9b8ee7eb4a7c0f9e162bce33576b315ececbb6406837bf51f5)


def ec_add(p, q):
    if p is None: return q
    if q is None: return p
    if p[0] == q[0] and (p[1] + q[1]) % P == 0: return None
    if p == q: l = (3 * p[0] * p[0] - 3) * pow(2 * p[1], -1, P) % P
    else: l = (q[1] - p[1]) * pow(q[0] - p[0], -1, P) % P
    x = (l * l - p[0] - q[0]) % P
    return (x, (l * (p[0] - x) - p[1]) % P)


def ec_mul(k, p):
    r = None
    while k:
        if k & 1: r = ec_add(r, p)
        p = ec_add(p, p); k >>= 1
    return r


def gen_cose(run, samples, scale):
    rng, out = run.rng, []
    def keycase(shape, kty, alg, params):
        n = sum(len(v.get("b", "")) // 2 + 16 for _, v in params) + 16
        return C("cose_to_der", shape, n, key={"kty": kty, "alg": alg, "params": params})
    EC2, ES256 = {"i": 2}, {"i": -7}
    def xy(x, y, crv=True):
        ps = [[{"i": -1}, {"n": 1}]] if crv else []
        return ps + [[{"i": -2}, {"b": x.hex()}], [{"i": -3}, {"b": y.hex()}]]
    pts = [G] + [ec_mul(rng.randrange(2, 2 ** 200), G) for _ in range(6 * scale)]
    for (x, y) in pts:
        X, Y = x.to_bytes(32, "big"), y.to_bytes(32, "big")
        out.append(keycase("valid-point", EC2, ES256, xy(X, Y)))
        out.append(keycase("valid-point-no-crv", EC2, ES256, xy(X, Y, False)))
        out.append(keycase("negated-point", EC2, ES256, xy(X, (P - y).to_bytes(32, "big"))))
        out.append(keycase("off-curve", EC2, ES256, xy(X, ((y + 1) % P).to_bytes(32, "big"))))
        out.append(keycase("swapped", EC2, ES256, xy(Y, X)))
    X, Y = G[0].to_bytes(32, "big"), G[1].to_bytes(32, "big")
    # the F10 shapes: coordinates of every other length
    for n in list(range(0, 36)) + [47, 48, 63, 64, 65, 66, 100, 1000, 70000]:
        out.append(keycase("x-length", EC2, ES256, xy(X[:n] if n <= 32 else X + bytes(n - 32), Y)))
        out.append(keycase("y-length", EC2, ES256, xy(X, Y[:n] if n <= 32 else Y + bytes(n - 32))))
        out.append(keycase("xy-length", EC2, ES256, xy(rb(rng, n), rb(rng, n))))
    out.append(keycase("leading-zero-33", EC2, ES256, xy(b"\0" + X, b"\0" + Y)))
    out.append(keycase("field-overflow", EC2, ES256, xy(P.to_bytes(32, "big"), Y)))
    out.append(keycase("field-overflow", EC2, ES256, xy(b"\xff" * 32, b"\xff" * 32)))
    out.append(keycase("zero-point", EC2, ES256, xy(bytes(32), bytes(32))))
    # structure: algorithm, key type, labels, duplicates, value types
    for alg in (None, {"i": -8}, {"i": -257}, {"i": -35}, {"p": -70000}, {"t": "ES256"}):
        out.append(keycase("other-alg", EC2, alg, xy(X, Y)))
    for kty in ({"i": 1}, {"i": 3}, {"i": 4}, {"t": "EC2"}):
        out.append(keycase("other-kty", kty, ES256, xy(X, Y)))
    out.append(keycase("missing-x", EC2, ES256, [[{"i": -3}, {"b": Y.hex()}]]))
    out.append(keycase("missing-y", EC2, ES256, [[{"i": -2}, {"b": X.hex()}]]))
    out.append(keycase("missing-both", EC2, ES256, []))
    out.append(keycase("x-not-bytes", EC2, ES256, [[{"i": -2}, {"n": 5}], [{"i": -3}, {"b": Y.hex()}]]))
    out.append(keycase("y-text", EC2, ES256, [[{"i": -2}, {"b": X.hex()}], [{"i": -3}, {"t": "y"}]]))
    out.append(keycase("duplicate-x-last-wins", EC2, ES256, [[{"i": -2}, {"b": "00"}]] + xy(X, Y)))
    out.append(keycase("duplicate-x-last-short", EC2, ES256, xy(X, Y) + [[{"i": -2}, {"b": "00"}]]))
    out.append(keycase("duplicate-x-nonbytes-ignored", EC2, ES256, xy(X, Y) + [[{"i": -2}, {"n": 1}]]))
    out.append(keycase("private-d", EC2, ES256, xy(X, Y) + [[{"i": -4}, {"b": "01" * 32}]]))
    for lab in (0, 1, -5, -6, 7, 2 ** 40, -2 ** 40):
        out.append(keycase("unknown-int-label", EC2, ES256, xy(X, Y) + [[{"i": lab}, {"n": 1}]]))
        out.append(keycase("unknown-int-label-first", EC2, ES256, [[{"i": lab}, {"b": "00"}]] + xy(X[:3], Y)))
    out.append(keycase("text-label", EC2, ES256, [[{"t": "x"}, {"b": "00"}]] + xy(X, Y)))
    out.append(keycase("many-params", EC2, ES256, [[{"t": "p%d" % i}, {"n": i}] for i in range(2000)] + xy(X, Y)))
    for _ in range(40 * scale):
        ps = []
        for _ in range(rng.randrange(0, 6)):
            lab = rng.choice([{"i": -1}, {"i": -2}, {"i": -3}, {"i": -4}, {"i": rng.randrange(-8, 4)}, {"t": "q"}])
            val = rng.choice([{"b": rb(rng, rng.choice([0, 1, 31, 32, 33])).hex()}, {"b": X.hex()}, {"b": Y.hex()}, {"n": 3}, {"t": "v"}])
            ps.append([lab, val])
        out.append(keycase("random-structure", rng.choice([EC2, EC2, {"i": 1}]), rng.choice([ES256, ES256, None, {"i": -8}]), ps))
    # keys decoded from CBOR bytes (coset, third party, then the conversion)
    v = bytes.fromhex(samples["cose_to_der"])
    out.append(hexcase("cose_to_der", "cbor-valid", v))
    for shape, m in cbor_mutations(rng, v, 20 * scale, 40 * scale, run.tier != "quick"):
        out.append(hexcase("cose_to_der", "cbor-" + shape, m))
    for n in (0, 1, 16, 31, 33, 64):
        k = {1: 2, 3: -7, -1: 1, -2: rb(rng, n), -3: Y}
        out.append(hexcase("cose_to_der", "cbor-x-length", cenc(k)))
        k = {1: 2, 3: -7, -1: 1, -2: X, -3: rb(rng, n)}
        out.append(hexcase("cose_to_der", "cbor-y-length", cenc(k)))
    out.append(hexcase("cose_to_der", "cbor-duplicate-x", head(5, 5) + cenc(1) + cenc(2) + cenc(3) + cenc(-7) + cenc(-2) + cenc(b"\0") + cenc(-2) + cenc(X) + cenc(-3) + cenc(Y)))
    for _ in range(40 * scale):
        out.append(hexcase("cose_to_der", "cbor-random", rb(rng, rng.randrange(0, 200))))
    return out


# ---- inputs of the modelled visitors

ELEM_MENU = [cenc(0), cenc(1), cenc(23), cenc(24), cenc(255), cenc(256), cenc(-1), cenc(65535), cenc(2 ** 32), cenc("a"), cenc(b"\x01"),
             cenc([1]), cenc({1: 2}), b"\xf4", b"\xf6", b"\xf9\x3c\x00", b"\xfb" + bytes(8), b"\xc1\x05", b"\xc1\xc5\x18\xff",
             b"\xc2\x41\x05", b"\xc2\x42\x01\x00", b"\xc3\x41\x05", b"\x18\x05", b"\x19\x00\x07", b"\x1b" + (9).to_bytes(8, "big"),
             b"\xff", b"\x1c", b"\xf8\x14"]


def gen_cbor_bytes(run, scale):
    """from_reader::<Bytes>: arrays whose declared length and available elements differ, strings, text"""
    rng, out = run.rng, []
    def c(shape, b): return hexcase("cbor_bytes", shape, b)
    out.append(c("f6-9-byte-array-header", bytes.fromhex("9b0000010000000000")))
    for h in HUGE:
        for k in (0, 1, 3, 40):
            out.append(c("huge-declared", head(4, h, 4 if h < 2 ** 32 else 8) + bytes(rng.randrange(24) for _ in range(k))))
    for _ in range(160 * scale):
        k = rng.choice([0, 1, 2, 5, 23, 24, 30, 100, 300])
        elems = [cenc(rng.randrange(256)) if rng.random() < 0.93 else rng.choice(ELEM_MENU) for _ in range(k)]
        declared = rng.choice([k, k, k, k + 1, k + 5, max(0, k - 1), 2 * k + 1, 10 ** 6])
        width = rng.choice([None, None, 1, 2, 4, 8])
        if width is not None and declared >= 1 << (8 * width): width = None
        body = b"".join(elems)
        r = rng.random()
        if r < 0.7: b = head(4, declared, width) + body
        elif r < 0.85: b = b"\x9f" + body + b"\xff"
        else: b = b"\x9f" + body
        if rng.random() < 0.2: b = b[:rng.randrange(len(b) + 1)]
        if rng.random() < 0.2: b = b + rb(rng, 3)
        out.append(c("array", b))
    for e in ELEM_MENU:
        out.append(c("array-element", b"\x83\x01" + e + b"\x02"))
    out.append(c("array-long", head(4, 5000) + b"\x07" * 5000))
    out.append(c("array-long", head(4, 4096) + b"\x07" * 4096))
    out.append(c("array-long", head(4, 4097) + b"\x07" * 4097))
    out.append(c("array-long-indefinite", b"\x9f" + b"\x18\xff" * 9000 + b"\xff"))
    out.append(c("array-very-long", head(4, 300000) + b"\x01" * 300000))
    for n in (0, 1, 23, 24, 255, 256, 1000, 4095, 4096, 4097, 5000, 70000):
        data = rb(rng, n)
        out.append(c("byte-string", head(2, n) + data))
        out.append(c("byte-string-cut", head(2, n + 1) + data))
        out.append(c("byte-string-indefinite", b"\x5f" + head(2, n // 2) + data[:n // 2] + head(2, n - n // 2) + data[n // 2:] + b"\xff"))
        s = b64(data, rng.random() < 0.5, rng.choice([0, 0, 1, 2])).encode()
        out.append(c("text-base64", head(3, len(s)) + s))
        out.append(c("text-base64-bad", head(3, len(s) + 1) + s + b"!"))
    for h in HUGE:
        out.append(c("byte-string-huge-declared", head(2, h, 4 if h < 2 ** 32 else 8) + bytes(5)))
        out.append(c("text-huge-declared", head(3, h, 4 if h < 2 ** 32 else 8) + b"QUJD"))
    out.append(c("text-not-utf8", b"\x62\xff\xfe"))
    out.append(c("text-indefinite", b"\x7f\x62QU\x62JD\xff"))
    for b in (b"", b"\x00", b"\x20", b"\xa0", b"\xc1\x43\x01\x02\x03", b"\xc2\x41\x05", b"\xf4", b"\xf6", b"\xf7", b"\xfb" + bytes(8), b"\xff",
              deep("arr", 300), deep("arr", 100000), deep("ibytes", 1000), deep("ibytes", 100000), deep("tag", 1000) + b""):
        out.append(c("other-type", b))
    for _ in range(120 * scale):
        n = rng.randrange(1, 80)
        s = bytearray(rb(rng, n))
        s[0] = rng.choice([0x40, 0x58, 0x5f, 0x60, 0x78, 0x80, 0x83, 0x98, 0x99, 0x9a, 0x9b, 0x9f]) | (rng.randrange(24) if s[0] & 1 else 0)
        if s[0] >> 5 == 4:
            for i in range(1, n):           # keep most elements small unsigned integers
                if rng.random() < 0.85: s[i] = rng.randrange(24)
        out.append(c("random", bytes(s)))
    return out


def gen_json_bytes(run, scale):
    """serde_json::from_slice::<Bytes> on arrays rendered from an abstract source (hint None)"""
    rng, out = run.rng, []
    for _ in range(60 * scale):
        k = rng.choice([0, 1, 2, 10, 100, 1000])
        elems, avail = [], []
        for _ in range(k):
            r = rng.random()
            if r < 0.95:
                v = rng.randrange(256); elems.append(str(v)); avail.append(v)
            else:
                elems.append(rng.choice(["256", "-1", "1.5", '"a"', "null", "[1]", "1e2", "99999999999999999999"])); avail.append(None)
                break
        closed = rng.random() < 0.75
        text = "[" + rng.choice(["", " "]) + rng.choice([",", " , ", ",\n"]).join(elems) + ("]" if closed else "")
        out.append(C("json_bytes", "array", len(text), hex=text.encode().hex(), _src=(avail, closed)))
    for text in ['"QUJD"', '"QUJD=="', '"QUJD!"', '""', "null", "12", "{}", "[", "[1,", "[1,]", "[1 2]", '"' + "QUJD" * 100000 + '"',
                 "[" + ",".join(["1"] * 100000) + "]", "[" * 200, "[[" + "1]]"]:
        out.append(C("json_bytes", "other", len(text), hex=text.encode().hex()))
    return out


DESC_PREFIX = head(5, 3) + cenc("type") + cenc("public-key") + cenc("id") + cenc(b"\x08" * 16) + cenc("transports")
T_ELEMS = [cenc("usb"), cenc("nfc"), cenc("ble"), cenc("hybrid"), cenc("cable"), cenc("internal"), cenc("wifi"), cenc("USB"), cenc(""),
           cenc(7), cenc(-1), cenc(b"usb"), cenc(["usb"]), cenc({"a": 1, "b": 2}), b"\xf4", b"\xf6", b"\xf9\x3c\x00",
           b"\xc1" + cenc("usb"), b"\xc1\xc5" + cenc("ble"), cenc([[[]]]), b"\x7f\x61u\x62sb\xff", b"\x9f\x01\xff", b"\xbf\xff"]


def gen_transports(run, scale):
    """from_reader::<PublicKeyCredentialDescriptor>(DESC_PREFIX ++ list): the list is ignore_unknown_opt_vec"""
    rng, out = run.rng, []
    def c(shape, arr): return C("cbor_descriptor", shape, len(DESC_PREFIX) + len(arr), hex=(DESC_PREFIX + arr).hex(), _arr=arr.hex())
    for h in HUGE:
        for tail in (b"", cenc("usb"), cenc("usb") + cenc("foo") + cenc(1), b"\x63us"):
            out.append(c("f7-huge-declared", head(4, h, 4 if h < 2 ** 32 else 8) + tail))
    for _ in range(200 * scale):
        k = rng.choice([0, 1, 2, 3, 5, 8, 30, 200])
        elems = [rng.choice(T_ELEMS) for _ in range(k)]
        declared = rng.choice([k, k, k, k + 1, k + 3, max(0, k - 1), 1000, 1025])
        width = rng.choice([None, None, 1, 2, 4, 8])
        if width is not None and declared >= 1 << (8 * width): width = None
        body = b"".join(elems)
        r = rng.random()
        if r < 0.7: b = head(4, declared, width) + body
        elif r < 0.85: b = b"\x9f" + body + b"\xff"
        else: b = b"\x9f" + body
        if rng.random() < 0.15: b = b[:rng.randrange(len(b) + 1)]
        if rng.random() < 0.1: b = b"\xc1" + b
        out.append(c("list", b))
    for e in T_ELEMS:
        out.append(c("element", b"\x83" + cenc("usb") + e + cenc("ble")))
    for d in (100, 250, 252, 253, 254, 255, 256, 257, 300, 1000):
        out.append(c("deep-element-%d" % d, b"\x82" + deep("arr", d, b"\x80") + cenc("nfc")))
        out.append(c("deep-element-tag-%d" % d, b"\x82" + deep("tag", d) + cenc("nfc")))
    out.append(c("deep-element-100000", b"\x81" + deep("arr", 100000)))
    out.append(c("long-list", head(4, 5000) + cenc("usb") * 5000))
    out.append(c("long-list-unknown", head(4, 20000) + cenc(1) * 20000))
    for b in (b"", b"\xf6", b"\x00", b"\x40", b"\x43usb", b"\x58\x05abcde", b"\x5f\x41a\xff", b"\x60", b"\xa0", b"\xc1\xc2\x80", b"\xff",
              b"\x5a\x7f\xff\xff\xff" + b"ab"):
        out.append(c("not-a-list", b))
    for _ in range(80 * scale):
        n = rng.randrange(1, 60)
        s = bytearray(rb(rng, n))
        s[0] = rng.choice([0x80, 0x81, 0x83, 0x85, 0x98, 0x99, 0x9a, 0x9f])
        out.append(c("random", bytes(s)))
    return out


def gen_cbor_value(run, samples, scale):
    rng, out = run.rng, []
    for d in (1, 100, 255, 256, 257, 258, 300):
        for kind in ("arr", "map", "tag", "iarr", "mixed"):
            out.append(hexcase("cbor_value", "depth-%s-%d" % (kind, d), deep(kind, d)))
    for kind in ("arr", "map", "tag", "iarr", "imap", "ibytes", "itext", "open_iarr", "mixed"):
        for k in (1000, 100000):
            out.append(hexcase("cbor_value", "deep-%s-%d" % (kind, k), deep(kind, k)))
    for op in CBOR_OPS + ["cose_to_der"]:
        v = bytes.fromhex(samples[op])
        out.append(hexcase("cbor_value", "valid", v))
        for shape, m in cbor_mutations(rng, v, 6 * scale, 10 * scale, False)[:: (2 if run.tier == "quick" else 1)]:
            out.append(hexcase("cbor_value", shape, m))
    for _ in range(150 * scale):
        out.append(hexcase("cbor_value", "random", rb(rng, rng.randrange(0, 120))))
    return out


# ---------------------------------------------------------------------------------------------
# observation -> Coq term (None: judged on the observation only)

CLS = {"value": "OValue", "error": "OError", "panic": "OPanic"}
COSE_ERR = {"UnsupportedAlgorithm": 0, "InvalidCredential": 1, "InvalidCbor": 2, "CborUnexpectedType": 3}
TRANSPORT_IDX = {"usb": 0, "nfc": 1, "ble": 2, "hybrid": 3, "internal": 4}


def zlit(i):
    return "(%d)%%Z" % i


def label_term(l):
    if "i" in l: return "(LInt %s)" % zlit(l["i"])
    return "(LText %s)" % blit(l["t"].encode("utf-8"))


def key_term(k):
    def reg(r):
        if "i" in r: return "(Assigned %s)" % zlit(r["i"])
        if "p" in r: return "(PrivateUse %s)" % zlit(r["p"])
        return "(TextLabel %s)" % blit(r["t"].encode("utf-8"))
    alg = "None" if k["alg"] is None else "(Some %s)" % reg(k["alg"])
    ps = "; ".join("(%s, %s)" % (label_term(l), ("(Some %s)" % blit(bytes.fromhex(v["b"]))) if "b" in v else "None") for l, v in k["params"])
    return "(CoseKey %s %s [%s])" % (reg(k["kty"]), alg, ps)


def det_bytes(o):
    d = o.get("detail") or {}
    return blit(bytes.fromhex(d.get("bytes", "")))


def term(c, o):
    if o.get("crash") or "class" not in o:
        return None
    op, cls = c["op"], CLS[o["class"]]
    amax = o["max"]
    if op == "cbor_bytes" and c["_n"] <= MAX_COQ_LITERAL:
        return "CBytesCbor %s %s %s %d" % (blit(bytes.fromhex(c["hex"])), cls, det_bytes(o), amax)
    if op == "json_bytes" and "_src" in c and c["_n"] <= 4 * MAX_COQ_LITERAL:
        avail, closed = c["_src"]
        av = "; ".join("EBad" if a is None else "EOk %d" % a for a in avail)
        return "CBytesSeq (Src None [%s] %s) %d %s %s %d" % (av, "true" if closed else "false", c["_n"], cls, det_bytes(o), amax)
    if op == "cbor_descriptor" and "_arr" in c and c["_n"] <= MAX_COQ_LITERAL:
        d = o.get("detail") or {}
        if o["class"] == "value":
            t = d.get("transports")
            val = "None" if t is None else "(Some [%s])" % "; ".join(str(TRANSPORT_IDX[x]) for x in t)
        else:
            val = "None"
        return "CTransports %s %s %s %s %d" % (blit(DESC_PREFIX), blit(bytes.fromhex(c["_arr"])), cls, val, amax)
    if op == "bytes_from_str" and c["_n"] <= MAX_COQ_LITERAL:
        return "CBytesStr %s %s %s %d" % (blit(c["s"].encode("utf-8")), cls, det_bytes(o), amax)
    if op == "fingerprint" and c["_n"] <= MAX_COQ_LITERAL:
        d = o.get("detail") or {}
        err = {"parse": 0, "length": 1}.get(d.get("err"), 9)
        return "CFingerprint %s %s %d %s %d" % (blit(c["s"].encode("utf-8")), cls, err, det_bytes(o), amax)
    if op == "cose_to_der":
        d = o.get("detail") or {}
        if "key" not in d:
            return None                      # coset refused the bytes: third party, class only
        if sum(len(v.get("b", "")) for _, v in d["key"]["params"]) > 2 * MAX_COQ_LITERAL or len(d["key"]["params"]) > 50:
            return None
        return "CCose %s %s %d %s" % (key_term(d["key"]), cls, COSE_ERR.get(d.get("err"), 9), blit(bytes.fromhex(d.get("der", ""))))
    if op == "cbor_value" and c["_n"] <= MAX_COQ_LITERAL:
        return "CCborValue %s %s" % (blit(bytes.fromhex(c["hex"])), cls)
    if op == "authdata" and c["_n"] <= 400:
        return "CAuthData %s %s" % (blit(bytes.fromhex(c["hex"])), cls)
    return None


def hid_term(c, o):
    if c["op"] != "hid_packets" or o.get("class") != "value" or c["_n"] > 12000:
        return None
    def trip(x):
        return "None" if x is None else "Some (%d, %d, %s)" % (x["ch"], x["cmd"], blit(bytes.fromhex(x["payload"])))
    return "CRecv [%s] [%s]" % ("; ".join(blit(bytes.fromhex(p)) for p in c["packets"]),
                                "; ".join(trip(x) for x in o["detail"]["outs"]))


MODEL_VIEW = ("match (%s) with "
              "| CBytesCbor i _ _ _ => (class_of (fst (bytes_deserialize_cbor BYTES_ELEM_FUEL i)), snd (bytes_deserialize_cbor BYTES_ELEM_FUEL i)) "
              "| CBytesSeq s _ _ _ _ => (class_of (fst (bytes_visit_seq s)), snd (bytes_visit_seq s)) "
              "| CTransports _ a _ _ _ => (class_of (fst (transports_deserialize_cbor TRANSPORT_ELEM_FUEL a)), snd (transports_deserialize_cbor TRANSPORT_ELEM_FUEL a)) "
              "| CBytesStr s _ _ _ => (class_of (fst (bytes_try_from_str_cost s)), snd (bytes_try_from_str_cost s)) "
              "| CFingerprint s _ _ _ _ => (class_of (fst (valid_fingerprint s)), snd (valid_fingerprint s)) "
              "| CCose k _ _ _ => (class_of (fst (public_key_der_from_cose_key k)), snd (public_key_der_from_cose_key k)) "
              "| CCborValue i _ => (match cbor_decode cbor_fuel i with Some _ => OValue | None => OError end, Cost 0 []) "
              "| CAuthData i _ => (match AuthData.from_slice i with AuthData.Val _ => OValue | AuthData.Err => OError | AuthData.Panic => OPanic end, Cost 0 []) end")


def model_view(t):
    if len(t) > 20000:
        return "(large)"
    return common.coq_show(PROP, PREAMBLE.replace("Wire.RobustCheck.", "Wire.RobustCheck Wire.AuthData."), MODEL_VIEW % t)


# ---------------------------------------------------------------------------------------------

def public(c):
    return {k: v for k, v in c.items() if not k.startswith("_")}


def corpus():
    d = os.path.join(common.VERIF, "corpus", PROP)
    out = []
    if os.path.isdir(d):
        for f in sorted(os.listdir(d)):
            if f.endswith(".json"):
                j = json.load(open(os.path.join(d, f)))
                c = dict(j["case"])
                c["_shape"] = "corpus/" + f[:-5]
                c["_n"] = case_size(c)
                if c["op"] == "cbor_descriptor" and c["hex"].startswith(DESC_PREFIX.hex()):
                    c["_arr"] = c["hex"][len(DESC_PREFIX.hex()):]
                out.append(c)
    return out


def case_size(c):
    if "hex" in c: return len(c["hex"]) // 2
    if "s" in c: return len(c["s"].encode("utf-8"))
    if "packets" in c: return sum(len(p) // 2 for p in c["packets"])
    if "key" in c: return sum(len(v.get("b", "")) // 2 + 16 for _, v in c["key"]["params"]) + 16
    return 0


def verdict(c, o):
    """the property on one observation; returns None or a description of the failure"""
    if o.get("crash"):
        se = [l for l in (o.get("stderr") or "").strip().splitlines() if not l.startswith("note:")]
        return "the worker process died on this input (%s%s)" % (o["crash"], ": " + se[-1][:160] if se else "")
    if o.get("panic") and "class" not in o:
        return "harness error: %s" % o.get("msg")
    if o["class"] == "panic":
        return "panic: %s" % (o.get("detail") or {}).get("msg", "")[:160]
    a, b, ta, tb = OP_BOUNDS.get(c["op"], (ALLOC_A, ALLOC_B, None, None))
    if o["max"] > a * c["_n"] + b:
        return "largest allocation request %d bytes for an input of %d bytes (bound %d * n + %d)" % (o["max"], c["_n"], a, b)
    if ta is not None and o.get("total", 0) > ta * c["_n"] + tb:
        return "allocation requests add up to %d bytes for an input of %d bytes (bound %d * n + %d)" % (o["total"], c["_n"], ta, tb)
    if o["us"] > TIME_T_US:
        return "slow"
    return None


def check(run):
    t_start = time.time()
    os.environ["PK_ROBUST_KILL_MS"] = str(KILL_MS)
    for tr in ("hid_consts", "psl_table", "psl_rules"):
        common.run_translator(tr)
    bad = common.hygiene_gate()
    if bad:
        raise common.Tie("hygiene gate: " + "; ".join(bad))
    # the executable models and checkers do not depend on the proofs: build them first
    common.coq_build(MODEL_TARGETS)
    proof_tie, thms, assum = None, [], {"closed": 0, "with_allowed_axioms": []}
    try:
        common.coq_build(PROOF_TARGETS)
        thms, assum = common.props_check(PROP)
    except common.Tie as t:
        proof_tie = t
    binary = common.harness_build("robust")
    u2f_binary = common.harness_build("u2fwire")
    t_built = time.time()

    samples = common.harness_one(binary, {"op": "samples"})
    if "cbor_make_credential_request" not in samples:
        raise common.Tie("robust worker cannot produce the valid sample encodings", json.dumps(samples)[:500])
    scale = 1 if run.tier == "quick" else 40

    cases = corpus()
    n_corpus = len(cases)
    cases += gen_cbor_messages(run, samples, scale)
    cases += gen_authdata(run, samples, scale)
    cases += gen_json(run, scale)
    cases += gen_bytes_from_str(run, scale)
    cases += gen_fingerprint(run, scale)
    cases += gen_domains(run, scale)
    cases += gen_u2f(run, scale)
    cases += gen_hid(run, scale)
    cases += gen_cose(run, samples, scale)
    cases += gen_cbor_bytes(run, scale)
    cases += gen_json_bytes(run, scale)
    cases += gen_transports(run, scale)
    cases += gen_cbor_value(run, samples, scale)

    outs = common.harness_run(binary, [public(c) for c in cases], timeout=600)
    t_ran = time.time()

    # ---- the property on every observation
    failures, slow = [], []
    for i, (c, o) in enumerate(zip(cases, outs)):
        v = verdict(c, o)
        if v == "slow":
            slow.append(i)
        elif v:
            failures.append((i, v))
    # a slow case is measured again, alone, before it counts (the machine is shared)
    for i in slow[:40]:
        best = None
        for _ in range(3):
            o2 = common.harness_one(binary, public(cases[i]), timeout=30)
            if o2.get("crash"):
                best = o2; break
            if best is None or o2["us"] < best["us"]:
                best = o2
            if best["us"] <= TIME_T_US:
                break
        outs[i] = best
        if best.get("crash"):
            failures.append((i, verdict(cases[i], best)))
        elif best["us"] > TIME_T_US:
            failures.append((i, "decoding took %.2f s for an input of %d bytes (bound %.1f s)" % (best["us"] / 1e6, cases[i]["_n"], TIME_T_US / 1e6)))
    # time in proportion to the input, judged on pairs of equally shaped inputs of different size (re-measured alone, best of 3)
    groups = {}
    for i, c in enumerate(cases):
        if c.get("_scale_group"):
            groups.setdefault(c["_scale_group"], []).append(i)
    scaling = {}
    for g, idx in groups.items():
        idx.sort(key=lambda i: cases[i]["_scale_n"])
        lo, hi = idx[0], idx[-1]
        def best_us(i):
            b = outs[i].get("us") if "us" in outs[i] else None
            for _ in range(2):
                o2 = common.harness_one(binary, public(cases[i]), timeout=60)
                if "us" in o2 and (b is None or o2["us"] < b):
                    b = o2["us"]
            return b
        t_lo, t_hi = best_us(lo), best_us(hi)
        if t_lo is None or t_hi is None:
            continue          # a crash / kill of these cases is already a failure above
        allowed = SCALING_K * (cases[hi]["_scale_n"] / cases[lo]["_scale_n"]) * max(t_lo, SCALING_FLOOR_US)
        scaling[g] = {"n": [cases[lo]["_scale_n"], cases[hi]["_scale_n"]], "us": [t_lo, t_hi], "allowed_us": round(allowed)}
        if t_hi > allowed:
            failures.append((hi, "processing time out of proportion to the input: %d equally shaped packets took %.1f ms, %d took %.1f ms "
                                 "(more than %d x the size ratio)" % (cases[hi]["_scale_n"], t_hi / 1000, cases[lo]["_scale_n"], t_lo / 1000, SCALING_K)))
    run.cov["scaling"] = scaling
    # the same inputs on the development profile (debug assertions, integer-overflow checks): a decoder that only panics
    # there (arithmetic overflow, debug_assert!) still "panics on untrusted input"; timing and allocation bounds are not
    # judged on this build (it is slow by design), only the outcome class, which must equal the release build's
    dbg = common.harness_build("robust", profile="debug")
    small = [i for i, c in enumerate(cases) if c["_n"] <= 20000]
    outs_dbg = common.harness_run(dbg, [public(cases[i]) for i in small], timeout=900)
    n_dbg_fail = 0
    for i, od in zip(small, outs_dbg):
        o = outs[i]
        bad = None
        if od.get("crash"):
            bad = "the worker died on this input on the development build (%s)" % od.get("crash")
        elif od.get("class") == "panic" and o.get("class") != "panic":
            bad = "panic on the development build only (overflow check / debug assertion): %s" % (od.get("detail") or {}).get("msg", "")[:160]
        elif od.get("class") != o.get("class") and "class" in od and "class" in o:
            bad = "outcome class differs between builds: release %s, development %s" % (o.get("class"), od.get("class"))
        if bad:
            n_dbg_fail += 1
            failures.append((i, bad))
    run.cov["debug_profile_cases"] = len(small); run.cov["debug_profile_failures"] = n_dbg_fail
    # valid encodings must decode (otherwise the mutation families mutate nothing meaningful)
    not_valid = [c for c, o in zip(cases, outs) if c["_shape"] == "valid" and o.get("class") != "value"]
    failures.sort(key=lambda iv: (cases[iv[0]]["_n"], iv[0]))
    seen_kinds = set()
    for i, v in failures:
        kind = (cases[i]["op"], v[:14])
        if kind in seen_kinds:
            continue
        seen_kinds.add(kind)
        run.violation({"kind": v, "op": cases[i]["op"], "shape": cases[i]["_shape"], "input_bytes": cases[i]["_n"],
                       "case": public(cases[i]), "observed": {k: x for k, x in outs[i].items() if k != "detail"},
                       "others_failing": len(failures) - 1, "broken": proof_tie.what if proof_tie else None})
        if len(seen_kinds) >= 5:
            break

    # ---- the models, inside Coq
    terms, tidx = [], []
    for i, (c, o) in enumerate(zip(cases, outs)):
        t = term(c, o)
        if t is not None:
            terms.append(t); tidx.append(i)
    res = common.coq_eval(PROP, PREAMBLE, terms, ["agree", "oracle"], shard=max(60, len(terms) // 48 + 1), shard_chars=140000)
    hterms, hidx = [], []
    for i, (c, o) in enumerate(zip(cases, outs)):
        t = hid_term(c, o)
        if t is not None:
            hterms.append(t); hidx.append(i)
    hres = common.coq_eval(PROP + "-hid", HID_PREAMBLE, hterms, ["agree"], shard=max(20, len(hterms) // 32 + 1), shard_chars=140000)
    t_model = time.time()
    for k in res["oracle"][:2]:
        i = tidx[k]
        if not any(i == f[0] for f in failures):
            run.violation({"kind": "property oracle (Wire.RobustCheck.oracle) false on the implementation's observation",
                           "op": cases[i]["op"], "shape": cases[i]["_shape"], "case": public(cases[i]), "observed": outs[i],
                           "model (class, cost)": model_view(terms[k])})
    u2f = None
    if not failures:
        import c17
        u2f = c17.check_u2f_robust(run, u2f_binary, PROP + "-u2f")
    t_u2f = time.time()
    if not run.violations:
        dis = sorted(res["agree"], key=lambda k: cases[tidx[k]]["_n"])
        if dis:
            k = dis[0]; i = tidx[k]
            run.violation({"kind": "model and implementation disagree (%s); the property holds on all %d observations of this run"
                                   % (cases[i]["op"], len(cases)),
                           "broken": "correspondence robust/%s (Wire.RobustCheck.agree)" % cases[i]["op"],
                           "shape": cases[i]["_shape"], "case": public(cases[i]), "observed": outs[i],
                           "model (class, cost)": model_view(terms[k]), "others": len(dis) - 1}, found_input=False)
        elif hres["agree"]:
            i = hidx[hres["agree"][0]]
            run.violation({"kind": "HID model and implementation disagree; no panic on any packet sequence of this run",
                           "broken": "correspondence hid/recv (Hid.HidCheck.agree)", "shape": cases[i]["_shape"],
                           "case": public(cases[i]), "observed": outs[i]}, found_input=False)
        elif not_valid:
            c = not_valid[0]
            run.violation({"kind": "a valid sample encoding is no longer accepted by its decoder; the mutation families are built on it",
                           "broken": "generator base (valid encodings)", "case": public(c)}, found_input=False)
        elif proof_tie is not None:
            run.violation({"broken": proof_tie.what, "detail": proof_tie.detail,
                           "note": "a C15 theorem (or one it re-exports) no longer checks; no failing input among %d" % len(cases)},
                          found_input=False)

    # ---- evidence
    ok = [(c, o) for c, o in zip(cases, outs) if "class" in o]
    per_op, sig = {}, set()
    worst_ratio, worst_alloc, worst_us = (0, None), (0, None), (0, None)
    for c, o in ok:
        d = per_op.setdefault(c["op"], {"cases": 0, "value": 0, "error": 0, "panic": 0, "max_alloc": 0, "max_us": 0, "max_input": 0})
        d["cases"] += 1; d[o["class"]] += 1
        d["max_alloc"] = max(d["max_alloc"], o["max"]); d["max_us"] = max(d["max_us"], o["us"]); d["max_input"] = max(d["max_input"], c["_n"])
        over = o["max"] - ALLOC_B
        if c["_n"] and over / c["_n"] > worst_ratio[0]: worst_ratio = (round(over / c["_n"], 2), c["op"] + "/" + c["_shape"])
        if o["max"] > worst_alloc[0]: worst_alloc = (o["max"], "%s/%s (%d bytes in)" % (c["op"], c["_shape"], c["_n"]))
        if o["us"] > worst_us[0]: worst_us = (o["us"], "%s/%s (%d bytes in)" % (c["op"], c["_shape"], c["_n"]))
        nb = 0 if c["_n"] == 0 else min(20, c["_n"].bit_length())
        sig.add((c["op"], c["_shape"], o["class"], nb, min(24, o["max"].bit_length())))
    small = max((o["max"] for c, o in ok if c["_n"] <= 64), default=0)
    n_lem = common.count_lemmas(COQ_FILES)
    run.cov.update({
        "obligations": n_lem, "discharged": 0 if proof_tie else n_lem,
        "checker_cmd": "make -C coq theories/Props/C15.vo (coqc 8.16.1, full .vo build) + hygiene gate + Print Assumptions",
        "trusted_base": ["Coq 8.16.1 kernel, vm_compute",
                         "hand-written models Wire/Robust.v tied by the differential run only (no translator): worker pkharness robust "
                         "(counting global allocator, catch_unwind, watchdog) + driver/c15.py",
                         "re-exported theorems: their own ties (translators hid_consts, psl_table, psl_rules; C16/C17/C12/C10 correspondences)",
                         "NOT proved, observed only: internals of ciborium, serde/serde_json, coset, data-encoding, nom, url, idna, p256; "
                         "the real allocator, stack (8 MiB main thread) and clock",
                         "Print Assumptions: %d closed under the global context, axioms: %s" % (assum["closed"], assum["with_allowed_axioms"] or "none")],
        "theorems": thms,
        "evaluations": len(cases), "distinct_nontrivial": len(sig),
        "rule": "per decoder family: arbitrary bytes/strings of length 0..300; valid encodings of every message type (real encoders) under "
                "truncation, extension, bit flips, every length head rewritten to 4/8-byte heads with 2^16..2^64-1, +-1, indefinite; byte "
                "strings replaced by huge array heads (F6), transports lists with huge declared lengths (F7), nesting 200..100000 of "
                "arrays/maps/tags/indefinite strings, JSON nesting 200/10000, 1 MB strings; U2F frames (F8 shapes); HID packet sequences "
                "(F9 shapes, random, interleaved valid/damaged, 300 pending channels, 65535 declared); COSE keys with coordinates of every "
                "length (F10), off-curve points, label/value/alg/kty variations. distinct = (op, shape, class, log2 size, log2 largest allocation)",
        "bound": {"per_op (A, B, TA, TB)": OP_BOUNDS, "ALLOC_A": ALLOC_A, "ALLOC_B": ALLOC_B, "TIME_T_us": TIME_T_US, "watchdog_kill_ms": KILL_MS,
                  "allocator_refuses_above": 1 << 30},
        "measured": {"largest_allocation": worst_alloc, "largest_(alloc-B)/input": worst_ratio, "slowest_us": worst_us,
                     "largest_allocation_for_inputs_up_to_64_bytes": small},
        "per_op": per_op,
        "model_cases": {"robust": len(terms), "hid": len(hterms), "u2f": (u2f or {}).get("evaluations", 0)},
        "model_disagreements": len(res["agree"]) + len(hres["agree"]) + (u2f or {}).get("model_disagreements", 0),
        "oracle_failures": len(res["oracle"]), "property_failures": len(failures), "slow_remeasured": len(slow),
        "corpus_cases": n_corpus, "u2f": u2f,
        "samples": [json.dumps(public(cases[0]))[:300], terms[0][:300] if terms else "", terms[-1][:300] if terms else ""],
        "phase_s": {"build": round(t_built - t_start, 1), "worker": round(t_ran - t_built, 1), "models_in_coq": round(t_model - t_ran, 1),
                    "u2f": round(t_u2f - t_model, 1)},
    })
    run.assumptions += ["usize is 64 bits; main-thread stack 8 MiB; allocation requests above 1 GiB are refused by the worker's allocator "
                        "(= the allocation-failure abort)",
                        "steps are not observable: the step bounds are tied through outcome class, values and elapsed time only"]
    if proof_tie:
        run.level = "other"


def replay(payload):
    os.environ["PK_ROBUST_KILL_MS"] = str(KILL_MS)
    c = payload["case"]
    if c.get("op") in ("parse", "auth", "reg"):
        import c17
        return c17.replay(payload)
    binary = common.harness_build("robust")
    o = common.harness_one(binary, c, timeout=30)
    print(json.dumps(o)[:3000])
    c = dict(c, _n=case_size(c), _shape="replay")
    if c["op"] == "cbor_descriptor" and c["hex"].startswith(DESC_PREFIX.hex()):
        c["_arr"] = c["hex"][len(DESC_PREFIX.hex()):]
    print("property on this observation:", verdict(c, o) or "holds")
    t = term(c, o)
    if t is not None and len(t) < 200000:
        print(common.coq_show(PROP, PREAMBLE, "let c := %s in (agree c, oracle c)" % t))
    return 0
