"""./pkv setup: build everything the registered checks need, from files on disk only (offline)."""
import importlib, json, os, sys
import common

def main():
    man = json.load(open(os.path.join(common.VERIF, "MANIFEST.json")))
    props = [c["property_id"] for c in man["checks"]]
    for name in common.TRANSLATORS:
        common.run_translator(name)
    bad = common.hygiene_gate()
    if bad:
        print("hygiene gate:", bad); return 1
    targets, bins = set(), set()
    for p in props:
        mod = importlib.import_module(p.lower())
        targets.update(getattr(mod, "COQ_TARGETS", []))
        targets.add("theories/Props/%s.vo" % p)
        bins.update(getattr(mod, "HARNESS_BINS", []))
    for b in sorted(bins):
        common.harness_build(b)
        for prof in getattr(common, "EXTRA_PROFILES", {}).get(b, []):
            common.harness_build(b, profile=prof)
    common.coq_build(sorted(targets), timeout=3000)
    print("setup ok: %d Coq targets, harness bins %s" % (len(targets), sorted(bins)))
    return 0
