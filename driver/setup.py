"""./pkv setup: build everything the registered checks need, from files on disk only (offline)."""
import importlib, json, os, sys
import common

def main():
    man = json.load(open(os.path.join(common.VERIF, "MANIFEST.json")))
    props = [c["property_id"] for c in man["checks"]]
    for name in common.TRANSLATORS:
        common.run_translator(name)
    targets, bins = set(), set()
    for p in props:
        mod = importlib.import_module(p.lower())
        targets.update(getattr(mod, "COQ_TARGETS", []))
        targets.add("theories/Props/%s.vo" % p)
        bins.update(getattr(mod, "HARNESS_BINS", []))
    # the gate covers everything any registered check depends on (files of properties that are not claimed yet are
    # reported, but cannot fail the setup of the claimed ones)
    common.CURRENT = ("C16", sorted(targets))
    bad = common.hygiene_gate()
    common.CURRENT = None
    if bad:
        print("hygiene gate:", bad); return 1
    other = common.hygiene_gate()
    if other:
        print("note: files outside the registered checks' closure do not pass the gate yet:", other)
    for b in sorted(bins):
        common.harness_build(b)
        for prof in getattr(common, "EXTRA_PROFILES", {}).get(b, []):
            common.harness_build(b, profile=prof)
    common.coq_build(sorted(targets), timeout=3000)
    print("setup ok: %d Coq targets, harness bins %s" % (len(targets), sorted(bins)))
    return 0
