"""./pkv setup: build everything from files on disk only (offline)."""
import os, sys
import common

def main():
    for name in common.TRANSLATORS:
        common.run_translator(name)
    bad = common.hygiene_gate()
    if bad:
        print("hygiene gate:", bad); return 1
    common.harness_build("release")
    common.coq_build(["all"], timeout=3000)
    print("setup ok")
    return 0
