"""C09 - PRF results are the specified HMAC, per credential, and gated on verification.

Three streams, all run through the real passkey-client / passkey-authenticator code by the ceremony harness:
  * WebAuthn-level histories (Client::register / Client::authenticate) with PRF inputs of every shape,
  * a malformed-request stream (each shape the client must refuse before invoking the authenticator),
  * CTAP2-level histories (Authenticator::make_credential / get_assertion) where the requested uv option and the
    verification the user reports vary independently.
Each observation is (a) replayed against the Coq model (wagree / agree), (b) judged by the Coq oracles c09_ok /
c09_ctap_ok / wprf_ok / prf_ok, which recompute every reported result with the Gallina HMAC-SHA-256 from the secrets
read back from the call log, and (c) judged by the independent Python oracle below (hashlib/hmac, secrets read back
from the store snapshot)."""
import base64, hashlib, hmac as pyhmac, json, os
import common, ceremony
from ceremony import *

PROP = "C09"
COQ_TARGETS = ["theories/Auth/C09Facts.vo", "theories/Props/C09.vo"]
HARNESS_BINS = ceremony.HARNESS_BINS
replay = ceremony.replay

UVB = 0x3C            # CTAP2_ERR_UV_BLOCKED (60)
LENGTHS = [0, 1, 31, 32, 33, 64, 200]
CONFIGS = [None] + [{"without_uv": w, "on_mc": m} for w in (False, True) for m in (False, True)]
RP = "example.com"
SHARD = 24          # cases per coqc process: SHA-256/HMAC in Coq cost ~1 s per case, spread them over all cores
PREFIX = b"WebAuthn PRF\x00"


# --------------------------------------------------------------------------------------------
# independent reference (shares nothing with the implementation or the model)

def H(k, m):
    return pyhmac.new(k, m, hashlib.sha256).digest()


def salt(should_hash, value):
    return hashlib.sha256(PREFIX + value).digest() if should_hash else value


def b64_any(s):
    """what Bytes::try_from(&str) accepts: base64url, else standard base64; padding optional"""
    try:
        t = s.decode("ascii")
    except UnicodeDecodeError:
        return None
    t = t.rstrip("=")
    for alt in ("-_", "+/"):
        import re
        if re.fullmatch("[A-Za-z0-9%s]*" % re.escape(alt), t) and len(t) % 4 != 1:
            try:
                return base64.b64decode(t + "=" * (-len(t) % 4), altchars=alt.encode(), validate=True)
            except Exception:
                pass
    return None


def client_inputs(ext):
    """(inputs, should_hash): `prf` when present, else `prfAlreadyHashed`"""
    if ext is None: return None
    if ext.get("prf") is not None: return ext["prf"], True
    if ext.get("prf_hashed") is not None: return ext["prf_hashed"], False
    return None


STATS = {}
def stat(level, k, n=1):
    d = STATS.setdefault(level, {})
    d[k] = d.get(k, 0) + n


def allowed_keys(hm, verified, registration):
    """the secrets the statement allows: the gated one only for a verified user - and then always at an assertion -
    otherwise the non-gated one (if the credential has it)"""
    keys = []
    if verified: keys.append(("gated", hm["w"]))
    if (not verified or registration) and hm["wo"] is not None: keys.append(("non_gated", hm["wo"]))
    return keys


def expect_results(fails, level, what, keys, values, should_hash, got, per_credential=False):
    """got: {"first","second"} hex; values: request values {"first","second"} hex; keys: [(name, hex)] allowed"""
    first = bytes.fromhex(values["first"])
    if not should_hash and len(first) != 32:
        fails.append("%s: a pre-hashed input of %d bytes produced a result" % (what, len(first))); return
    if got["second"] is not None and values["second"] is None:
        fails.append("%s: a second result without a second input" % what); return
    if not keys:
        fails.append("%s: a result although the user was not verified and the credential has no non-gated secret" % what); return
    for name, key in keys:
        k = bytes.fromhex(key)
        if got["first"] == H(k, salt(should_hash, first)).hex() and (
                got["second"] is None or got["second"] == H(k, salt(should_hash, bytes.fromhex(values["second"]))).hex()):
            stat(level, "results_checked"); stat(level, name + "_secret")
            stat(level, "hashed_inputs" if should_hash else "pre_hashed_inputs")
            if per_credential: stat(level, "per_credential_inputs")
            if got["second"] is not None: stat(level, "second_results")
            elif values["second"] is not None: stat(level, "second_input_dropped")
            return
    fails.append("%s: the results are not HMAC-SHA-256 under %s over %s" % (
        what, " or ".join("the %s secret" % n.replace("_", "-") for n, _ in keys),
        "SHA-256('WebAuthn PRF'||0||input)" if should_hash else "the pre-hashed input"))


def only_info_calls(log):
    return all(e["c"] in ("info", "verif", "presence") for e in log)


def reported_verification(log):
    v = None
    for e in log:
        if e["c"] == "check" and "ok" in e["r"]:
            v = e["r"]["ok"][1]
    return v


def client_oracle(sc, out):
    fails = []
    cfg = sc["config"]["hmac"]
    store = list(sc["store"]["content"])
    if sc["store"]["kind"] in ("option", "arc_mutex_option"):
        store = store[-1:]
    for op, obs in zip(sc["ops"], out["ops"]):
        if "origin_error" in obs:
            continue
        res, log, after = obs["result"], obs["log"], obs["store_after"]
        ext = op["req"]["ext"]
        inp = client_inputs(ext)
        exp = op.get("expect")
        if exp is not None:
            # malformed stream: refused with this error, before the authenticator is invoked
            if "err" not in res or res["err"].get("kind") != exp:
                fails.append("malformed request (%s) must be refused with %s, got %s" % (op.get("shape"), exp, json.dumps(res)[:120]))
            if not only_info_calls(log):
                fails.append("malformed request (%s): the authenticator was invoked before the refusal (calls: %s)" % (op.get("shape"), [e["c"] for e in log]))
            if after != store:
                fails.append("malformed request (%s) changed the store" % op.get("shape"))
            if not fails: stat("client", "refused_before_invocation:" + exp)
        elif op["op"] == "register":
            sel = op["req"]["selection"]
            uv = (sel or {}).get("uv") != "discouraged"
            saves = [e for e in log if e["c"] == "save"]
            if "ok" in res:
                o = res["ok"]
                saved = [p for p in after if p["cred_id"] == o["raw_id"]]
                if len(saved) != 1 or not saves or saves[0]["p"]["hmac"] != saved[0]["hmac"]:
                    fails.append("registration: the new credential is not (uniquely) in the store as it was saved")
                else:
                    hm = saved[0]["hmac"]
                    prf = o["prf"]
                    if cfg is None and (prf is not None or hm is not None):
                        fails.append("authenticator without the capability produced a PRF output or stored a secret")
                    if prf is None:
                        if hm is not None:
                            fails.append("secrets were stored with the new credential but 'enabled' was not reported")
                    else:
                        if prf["enabled"] is not (hm is not None):
                            fails.append("registration reports enabled=%s, secrets stored: %s" % (prf["enabled"], hm is not None))
                        if hm is not None and (len(hm["w"]) != 64 or (hm["wo"] is not None and len(hm["wo"]) != 64) or hm["w"] == hm["wo"]):
                            fails.append("stored secrets are not two distinct 32-byte strings")
                        stat("client", "enabled_true" if prf["enabled"] else "enabled_false")
                        verified = reported_verification(log) is True
                        if prf["results"] is not None:
                            if hm is None or inp is None or inp[0]["eval"] is None:
                                fails.append("registration: results without stored secrets / without default inputs")
                            else:
                                expect_results(fails, "client", "registration (user %sverified)" % ("" if verified else "not "),
                                               allowed_keys(hm, verified, True), inp[0]["eval"], inp[1], prf["results"])
                        elif (cfg is not None and cfg.get("on_mc") and hm is not None and inp is not None and inp[0]["eval"] is not None
                              and not verified and hm["wo"] is None):
                            fails.append("registration: evaluation requested, user not verified, no non-gated secret: must be an error")
            else:
                if res["err"].get("code") == UVB: stat("client", "blocked_errors")
                if saves and "ok" in saves[0]["r"] and cfg is None and saves[0]["p"]["hmac"] is not None:
                    fails.append("authenticator without the capability stored a secret")
        else:
            if "err" in res and res["err"].get("code") == UVB: stat("client", "blocked_errors")
            if "ok" in res:
                o = res["ok"]
                used = [p for p in store if p["cred_id"] == o["raw_id"]]
                prf = o["prf"]
                if prf is None or prf["results"] is None:
                    if (cfg is not None and inp is not None and len(used) == 1 and used[0]["hmac"] is not None and used[0]["hmac"]["wo"] is None
                            and reported_verification(log) is not True and (inp[0]["eval"] is not None or any(
                                b64_any(bytes.fromhex(k)) == bytes.fromhex(o["raw_id"]) for k, _ in (inp[0]["by_cred"] or [])))):
                        fails.append("assertion: evaluation requested, user not verified, no non-gated secret: must be an error")
                if prf is not None and prf["results"] is not None:
                    if cfg is None:
                        fails.append("authenticator without the capability produced a PRF output")
                    elif len(used) != 1 or used[0]["hmac"] is None:
                        fails.append("assertion: PRF output for a credential that is not in the store with secrets")
                    elif inp is None:
                        fails.append("assertion: PRF output without PRF inputs")
                    else:
                        v = reported_verification(log) is True
                        hm = used[0]["hmac"]
                        entry = None
                        for k, vals in (inp[0]["by_cred"] or []):
                            if b64_any(bytes.fromhex(k)) == bytes.fromhex(o["raw_id"]):
                                entry = vals
                        chosen = entry if entry is not None else inp[0]["eval"]
                        if chosen is None:
                            fails.append("assertion: a result although no inputs apply to the used credential")
                        else:
                            expect_results(fails, "client", "assertion (%s inputs, user %sverified)" % ("per-credential" if entry is not None else "default", "" if v else "not "),
                                           allowed_keys(hm, v, False), chosen, inp[1], prf["results"], per_credential=entry is not None)
        store = after
    return fails


def ctap_oracle(sc, out):
    fails = []
    cfg = sc["config"]["hmac"]
    store = list(sc["store"]["content"])
    for op, obs in zip(sc["ops"], out["ops"]):
        res, log, after = obs["result"], obs["log"], obs["store_after"]
        if op["op"] == "get_info":
            continue
        q = op["req"]
        prf_in = (q["ext"] or {}).get("prf")
        if op["op"] == "make_credential":
            if res.get("err") == UVB: stat("ctap", "blocked_errors")
            if "ok" in res:
                o = res["ok"]
                cid = o["auth_data"]["acd"]["cred_id"]
                saved = [p for p in after if p["cred_id"] == cid]
                if len(saved) != 1:
                    fails.append("registration: the new credential is not (uniquely) in the store"); store = after; continue
                hm, prf = saved[0]["hmac"], o["prf"]
                if cfg is None and (prf is not None or hm is not None):
                    fails.append("authenticator without the capability produced a PRF output or stored a secret")
                if prf is None:
                    pass    # at the bare CTAP2 level `hmac-secret: true` without `prf` stores secrets and reports nothing
                else:
                    stat("ctap", "enabled_true" if prf["enabled"] else "enabled_false")
                    if prf["enabled"] is not (hm is not None):
                        fails.append("registration reports enabled=%s, secrets stored: %s" % (prf["enabled"], hm is not None))
                    verified = reported_verification(log) is True
                    if prf["results"] is not None:
                        if hm is None or prf_in is None or prf_in["eval"] is None:
                            fails.append("registration: results without stored secrets / default inputs")
                        else:
                            expect_results(fails, "ctap", "registration (ctap, uv %srequested, user %sverified)" % ("" if q["opts"]["uv"] else "not ", "" if verified else "not "),
                                           allowed_keys(hm, verified, True), prf_in["eval"], False, prf["results"])
        else:
            if res.get("err") == UVB: stat("ctap", "blocked_errors")
            if "ok" in res and res["ok"]["prf"] is not None:
                o = res["ok"]
                used = [p for p in store if p["cred_id"] == o["cred_id"]]
                if cfg is None:
                    fails.append("authenticator without the capability produced a PRF output")
                elif len(used) != 1 or used[0]["hmac"] is None or prf_in is None:
                    fails.append("assertion: PRF output without stored secrets / inputs")
                else:
                    v = reported_verification(log) is True
                    hm = used[0]["hmac"]
                    entry = None
                    for k, vals in (prf_in["by_cred"] or []):
                        if k == o["cred_id"]:
                            entry = vals
                    chosen = entry if entry is not None else prf_in["eval"]
                    if chosen is None:
                        fails.append("assertion: a result without applicable inputs")
                    else:
                        expect_results(fails, "ctap", "assertion (ctap, %s inputs, user %sverified)" % ("per-credential" if entry is not None else "default", "" if v else "not "),
                                       allowed_keys(hm, v, False), chosen, False, o["prf"], per_credential=entry is not None)
        store = after
    return fails


# --------------------------------------------------------------------------------------------
# generators

def rbytes(rng, n):
    return bytes(rng.randrange(256) for _ in range(n))


def b64u(b, rng=None):
    s = base64.urlsafe_b64encode(b).decode().rstrip("=")
    if rng is not None and rng.random() < 0.2:
        s += "=" * (-len(s) % 4)
    return s


def gen_values(rng, hashed, n=None):
    """(first, second) inputs: any length when hashed by the client, 32 bytes when pre-hashed"""
    n = n or rng.choice([1, 1, 2])
    ln = (lambda: rng.choice(LENGTHS)) if hashed else (lambda: 32)
    return rbytes(rng, ln()), (rbytes(rng, ln()) if n == 2 else None)


def gen_store(rng, with_secrets=0.85):
    creds = []
    for j in range(rng.randrange(1, 4)):
        hm = None
        if rng.random() < with_secrets:
            hm = (rbytes(rng, 32), rbytes(rng, 32) if rng.random() < 0.6 else None)
        creds.append(mk_passkey(rng, RP, cred_id=bytes([0xA0 + j]) + rbytes(rng, rng.choice([15, 15, 19, 31])), counter=rng.choice([None, 0, 7]),
                                hmac=hm, keyidx=j, user_handle=bytes([j + 1, 9])))
    return creds


def gen_client_history(rng):
    cfg = rng.choice(CONFIGS + CONFIGS[1:])
    creds = gen_store(rng)
    ids = [bytes.fromhex(p["cred_id"]) for p in creds]
    ops, script = [], []
    for _ in range(rng.randrange(1, 4)):
        verified = rng.random() < 0.6
        script.append({"presence": True, "verification": verified})
        hashed = rng.random() < 0.6
        both = rng.random() < 0.15
        if rng.random() < 0.4:
            ev = gen_values(rng, hashed) if rng.random() < 0.85 else None
            inputs = (ev, None)
            ext = wext(cred_props=rng.choice([None, True]), prf=inputs if hashed or both else None,
                       prf_hashed=(inputs if not both else (gen_values(rng, False), None)) if (not hashed or both) else None)
            if rng.random() < 0.1: ext = None
            ops.append(reg_op(rng, selection=rng.choice([None, {"uv": "preferred"}, {"uv": "discouraged"}, {"uv": "discouraged"}, {"uv": "required"},
                                                         {"uv": "discouraged", "rk": "required"}]), ext=ext, params=(-7,)))
        else:
            allow = rng.choice([None, ids[:1], ids, list(reversed(ids)), ids[-1:]])
            ev = gen_values(rng, hashed) if rng.random() < 0.8 else None
            by = None
            if allow and rng.random() < 0.6:
                ks = rng.sample(allow, rng.randrange(1, len(allow) + 1))
                by = [(b64u(k, rng), *gen_values(rng, hashed)) for k in ks]
            inputs = (ev, by)
            ext = wext(prf=inputs if hashed or both else None,
                       prf_hashed=(inputs if not both else ((gen_values(rng, False)), None)) if (not hashed or both) else None)
            if rng.random() < 0.08: ext = None
            ops.append(auth_op(rng, allow=allow, uv=rng.choice(["preferred", "discouraged", "discouraged", "required"]), ext=ext))
    return client_scenario(store_kind=rng.choice(["ref", "ref", "memory", "arc_mutex_memory"]), content=creds,
                           config={"hmac": cfg, "counter": rng.random() < 0.3, "id_len": rng.choice([16, 16, 32])},
                           user={"verif_enabled": rng.choice([True] * 8 + [False, None]), "script": script}, ops=ops)


def malformed_stream(rng, reps):
    """each shape the client must refuse, on a capable authenticator, one defect per request"""
    scs = []
    for _ in range(reps):
        creds = gen_store(rng, with_secrets=1.0)
        ids = [bytes.fromhex(p["cred_id"]) for p in creds]
        good = lambda hashed: gen_values(rng, hashed)
        bad_len = lambda: rbytes(rng, rng.choice([0, 1, 31, 33, 64, 200]))
        shapes = []
        # registration
        shapes.append(("reg: evalByCredential in prf", "NotSupportedError",
                       reg_op(rng, ext=wext(prf=(good(True), rng.choice([[], [(b64u(ids[0]), *good(True))]]))))))
        shapes.append(("reg: evalByCredential in prfAlreadyHashed", "NotSupportedError",
                       reg_op(rng, ext=wext(prf_hashed=(rng.choice([None, good(False)]), [(b64u(ids[0]), *good(False))])))))
        shapes.append(("reg: pre-hashed first input not 32 bytes", "ValidationError",
                       reg_op(rng, ext=wext(prf_hashed=((bad_len(), rng.choice([None, rbytes(rng, 32)])), None)))))
        shapes.append(("reg: pre-hashed second input not 32 bytes", "ValidationError",
                       reg_op(rng, ext=wext(prf_hashed=((rbytes(rng, 32), bad_len()), None)))))
        # authentication
        hashed = rng.random() < 0.5
        field = (lambda inp: wext(prf=inp)) if hashed else (lambda inp: wext(prf_hashed=inp))
        entry = lambda k: (k, *good(hashed))
        shapes.append(("auth: evalByCredential without an allow list", "NotSupportedError",
                       auth_op(rng, allow=rng.choice([None, []]), ext=field((rng.choice([None, good(hashed)]), [entry(b64u(ids[0]))])))))
        shapes.append(("auth: empty credential key", "SyntaxError",
                       auth_op(rng, allow=ids, ext=field((good(hashed), [entry(b64u(ids[0])), entry("")][::rng.choice([1, -1])])))))
        # ... also when the allow list itself contains a descriptor with an empty id (membership alone must not admit it)
        shapes.append(("auth: empty credential key, empty id in the allow list", "SyntaxError",
                       auth_op(rng, allow=ids + [b""], ext=field((good(hashed), [entry(""), entry(b64u(ids[0]))][::rng.choice([1, -1])])))))
        shapes.append(("auth: only an empty credential key, empty id in the allow list", "SyntaxError",
                       auth_op(rng, allow=[b""] + ids, ext=field((rng.choice([None, good(hashed)]), [entry("")])))))
        shapes.append(("auth: undecodable credential key", "SyntaxError",
                       auth_op(rng, allow=ids, ext=field((good(hashed), [entry(rng.choice(["!!!!", "a", "ab=c", "éé", "AAAA AAAA"]))])))))
        shapes.append(("auth: credential key not in the allow list", "SyntaxError",
                       auth_op(rng, allow=ids[:1], ext=field((good(hashed), [entry(b64u(ids[0])), entry(b64u(rbytes(rng, 16)))][::rng.choice([1, -1])])))))
        shapes.append(("auth: pre-hashed default input not 32 bytes", "ValidationError",
                       auth_op(rng, allow=rng.choice([None, ids]), ext=wext(prf_hashed=((bad_len(), None), None)))))
        shapes.append(("auth: pre-hashed per-credential input not 32 bytes", "ValidationError",
                       auth_op(rng, allow=ids, ext=wext(prf_hashed=(rng.choice([None, good(False)]), [(b64u(ids[0]), rbytes(rng, 32), bad_len())])))))
        for shape, kind, op in shapes:
            op["expect"], op["shape"] = kind, shape
            cfg = rng.choice(CONFIGS[1:])
            scs.append(client_scenario(store_kind="ref", content=creds, config={"hmac": cfg},
                                       user={"script": [{"presence": True, "verification": True}]}, ops=[op]))
    return scs


def gen_ctap_history(rng):
    cfg = rng.choice(CONFIGS + CONFIGS[1:])
    creds = gen_store(rng)
    ids = [bytes.fromhex(p["cred_id"]) for p in creds]
    ops, script = [], []
    for _ in range(rng.randrange(1, 4)):
        script.append({"presence": True, "verification": rng.random() < 0.6})
        f, s = rbytes(rng, 32), rng.choice([None, rbytes(rng, 32)])
        if rng.random() < 0.4:
            ext = prf_ext_mc(first=rng.choice([f, f, None]), second=s, hmac_secret=rng.choice([None, None, True, False]), with_prf=rng.random() < 0.85)
            if ext["prf"] and ext["prf"]["eval"] and ext["prf"]["eval"]["first"] is None: ext["prf"]["eval"] = None
            ops.append({"op": "make_credential", "req": mc_req(rng, rp=RP, uv=rng.random() < 0.5, ext=rng.choice([ext] * 9 + [None]))})
        else:
            allow = rng.choice([None, ids[:1], ids, list(reversed(ids)), ids[-1:]])
            by = None
            if rng.random() < 0.5:
                ks = rng.sample(ids, rng.randrange(1, len(ids) + 1)) + ([rbytes(rng, 16)] if rng.random() < 0.3 else [])
                by = [(k, rbytes(rng, 32), rng.choice([None, rbytes(rng, 32)])) for k in ks]
            ext = prf_ext_ga(first=rng.choice([f, f, None]), second=s, by_cred=by, with_prf=rng.random() < 0.9)
            if ext["prf"] and ext["prf"]["eval"] and ext["prf"]["eval"]["first"] is None: ext["prf"]["eval"] = None
            ops.append({"op": "get_assertion", "req": ga_req(rng, rp=RP, allow=allow, uv=rng.random() < 0.4, ext=rng.choice([ext] * 9 + [None]))})
    return scenario(store_kind=rng.choice(["ref", "ref", "memory"]), content=creds,
                    config={"hmac": cfg, "counter": rng.random() < 0.3}, user={"script": script}, ops=ops)


def client_meta(sc):
    def shape(p):
        if p is None: return None
        ev = p["eval"]
        return (None if ev is None else (len(ev["first"]) // 2, None if ev["second"] is None else len(ev["second"]) // 2),
                None if p["by_cred"] is None else len(p["by_cred"]))
    return (json.dumps(sc["config"]["hmac"]), sc["user"].get("verif_enabled"), len(sc["store"]["content"]),
            tuple(p["hmac"] is None or p["hmac"]["wo"] is None for p in sc["store"]["content"]),
            tuple((o["op"], o.get("shape"), (o["req"].get("selection") or {}).get("uv") if o["op"] == "register" else o["req"].get("uv"),
                   None if o["req"]["ext"] is None else (shape(o["req"]["ext"].get("prf")), shape(o["req"]["ext"].get("prf_hashed"))),
                   None if o["req"].get("allow") is None else len(o["req"]["allow"])) for o in sc["ops"]),
            tuple(json.dumps(s) for s in sc["user"]["script"]))


def ctap_meta(sc):
    return (json.dumps(sc["config"]["hmac"]), len(sc["store"]["content"]),
            tuple(p["hmac"] is None or p["hmac"]["wo"] is None for p in sc["store"]["content"]),
            tuple((o["op"], json.dumps(o["req"]["opts"]), json.dumps(o["req"]["ext"])[:0] if o["req"]["ext"] is None else
                   (o["req"]["ext"].get("hmac_secret"), o["req"]["ext"]["prf"] is not None and (o["req"]["ext"]["prf"]["eval"] is not None,
                    None if o["req"]["ext"]["prf"]["by_cred"] is None else len(o["req"]["ext"]["prf"]["by_cred"]))),
                   None if o["req"].get("allow") is None else len(o["req"]["allow"])) for o in sc["ops"]),
            tuple(json.dumps(s) for s in sc["user"]["script"]))


def own_corpus(sub):
    d = os.path.join(common.VERIF, "corpus", PROP, sub)
    out = []
    if os.path.isdir(d):
        for f in sorted(os.listdir(d)):
            if f.endswith(".json"):
                c = json.load(open(os.path.join(d, f)))
                out.append(c.get("scenario", c))
    return out


def check(run):
    quick = run.tier == "quick"
    STATS.clear()
    rng = run.rng
    n_client, n_bad, n_ctap = (240, 5, 180) if quick else (1200, 20, 1000)
    n_corpus = len(own_corpus("client")) + len(own_corpus("ctap"))
    client_scs = own_corpus("client") + [gen_client_history(rng) for _ in range(n_client)] + malformed_stream(rng, n_bad)
    ctap_scs = own_corpus("ctap") + [gen_ctap_history(rng) for _ in range(n_ctap)]
    extra = "From PK Require Import Auth.C09Facts.\n"
    files = ["theories/Auth/Authenticator.v", "theories/Auth/Client.v", "theories/Auth/C09Facts.v", "theories/Lib/Sha256.v", "theories/Lib/Hmac.v"]
    rule = ("WebAuthn-level histories of 1-3 register/authenticate operations: PRF inputs of length {0,1,31,32,33,64,200} (hashed) or 32 (pre-hashed), "
            "one or two values, default and per-credential (base64url keys with distinct decoded values, some padded), prf / prfAlreadyHashed / both, "
            "authenticator without hmac-secret, UV-only, with non-UV secret, evaluation at creation on/off, userVerification preferred/discouraged/required "
            "with a user who is or is not verified, 1-3 stored credentials with both/one/no secrets; a malformed stream with one defect per request "
            "(10 shapes); CTAP2-level histories where the requested uv option and the reported verification vary independently")
    def hmac_tie(level, live, scs, fn, preamble):
        """the model asks HMAC for the same (secret, salt) as the implementation used: part of the correspondence
        (internal events are not in the call log, the HMAC value is the only place where key and salt show).  A failure
        here with every property oracle true is a divergence the statement allows, reported without a failing input."""
        terms = [t for (_, _, _, _, t) in live]
        bad = common.coq_eval(PROP + "-tie-" + level, preamble + extra, terms, [fn], shard=SHARD)[fn]
        if bad and not run.violations:
            si, oi, op, obs, t = live[bad[0]]
            run.violation({"kind": "model and implementation select a different secret or salt for an HMAC; the property oracles are true on all %d observations of this run" % len(terms),
                           "broken": "correspondence ceremony/%s (Auth.%s: HMAC key/salt selection)" % (op["op"], fn),
                           "scenario": scs[si], "op_index": oi, "observed": obs}, found_input=False)
        return len(bad)
    # 1. WebAuthn client level
    scs1, outs1, live1, res1 = ceremony.standard_check(
        run, PROP, client_scs, [client_meta(s) for s in client_scs], ["c09_ok"], py_oracle=client_oracle,
        coq_files=files, rule=rule, extra_targets=COQ_TARGETS, client=True, extra_preamble=extra, shard=SHARD)
    cov1 = dict(run.cov)
    tie1 = hmac_tie("client", live1, scs1, "wprf_ok", ceremony.WPREAMBLE)
    # 2. CTAP2 level
    scs2, outs2, live2, res2 = ceremony.standard_check(
        run, PROP, ctap_scs, [ctap_meta(s) for s in ctap_scs], ["c09_ctap_ok"], py_oracle=ctap_oracle,
        coq_files=files, rule=rule, extra_targets=COQ_TARGETS, client=False, extra_preamble=extra, shard=SHARD)
    tie2 = hmac_tie("ctap", live2, scs2, "prf_ok", ceremony.PREAMBLE)
    cov2 = dict(run.cov)
    hist = dict(cov1["outcome_histogram"]); hist.update(cov2["outcome_histogram"])
    run.cov.update({
        "evaluations": cov1["evaluations"] + cov2["evaluations"],
        "distinct_nontrivial": cov1["distinct_nontrivial"] + cov2["distinct_nontrivial"],
        "samples": cov1["samples"] + cov2["samples"][:1],
        "outcome_histogram": hist,
        "scenarios": cov1["scenarios"] + cov2["scenarios"],
        "model_disagreements": cov1["model_disagreements"] + cov2["model_disagreements"],
        "hmac_key_salt_disagreements": {"wprf_ok": tie1, "prf_ok": tie2},
        "oracle_failures": dict(cov1["oracle_failures"], **cov2["oracle_failures"]),
        "python_oracle_failures": cov1["python_oracle_failures"] + cov2["python_oracle_failures"],
        "crashes": cov1["crashes"] + cov2["crashes"],
        "client_level": STATS.get("client", {}), "ctap_level": STATS.get("ctap", {}),
        "malformed_requests": sum(1 for s in scs1 for o in s["ops"] if o.get("expect")),
        "corpus": n_corpus,
    })
    run.cov["trusted_base"] = cov1["trusted_base"] + [
        "Lib/Sha256.v and Lib/Hmac.v are hand transcriptions of FIPS 180-4 / RFC 2104 (NIST and RFC 4231 vectors as Examples); the sha2/hmac crates are tied to them "
        "on every observed (secret, salt, output) of the run by c09_ok / c09_ctap_ok / wprf_ok / prf_ok, and to Python's hashlib/hmac by the independent oracle",
        "per-credential maps are generated with distinct decoded keys (two spellings of one id would make HashMap iteration order observable)"]
    run.assumptions += ["the HMAC theorems of part D are conditional on hmac_honest (every EHmac event answered by HMAC-SHA-256): established per observed run by the oracles, not proved of the hmac crate",
                        "a missing second result (UV-only configuration drops the second input) and a missing evaluation are not violations of the statement ('every PRF result equals ...')"]
