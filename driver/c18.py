"""C18 - the sealed CTAP2 API trait behaves exactly like the direct authenticator methods."""
import copy, json
import common, ceremony
from ceremony import *

PROP = "C18"
COQ_TARGETS = ceremony.COQ_TARGETS + ["theories/Disp/Dispatch.vo"]
HARNESS_BINS = ceremony.HARNESS_BINS
replay = ceremony.replay


def summary(obs):
    """what must be equal between the direct and the trait run of the same scenario (random values
    differ between two runs: compare shapes, statuses, call sequences and store sizes)"""
    out = []
    fresh = {}                      # credential ids created during THIS run (random): compared by order of creation, their PRF secrets by presence
    def cid(c):
        return "fresh#%d" % fresh[c] if c in fresh else c
    def call(e):
        if e["c"] == "save":
            # everything the store is asked to save except the random parts (key, credential id, PRF secrets)
            p = e["p"]
            fresh.setdefault(p["cred_id"], len(fresh))
            return "save" + json.dumps([e["r"], e["user"], e["rp"], e["opts"], p["rp_id"], p["user_handle"], p["counter"], p["hmac"] is not None,
                                        len(p["cred_id"])], sort_keys=True)
        if e["c"] == "update":
            p = e["p"]
            hm = p["hmac"] if p["cred_id"] not in fresh else (None if p["hmac"] is None else [p["hmac"]["w"] is not None, p["hmac"]["wo"] is not None])
            return "update" + json.dumps([e["r"], cid(p["cred_id"]), p["rp_id"], p["user_handle"], p["counter"], hm], sort_keys=True)
        if e["c"] == "find":
            return "find" + json.dumps([None if e["ids"] is None else [cid(i) for i in e["ids"]], e["rp"], "ok" if "ok" in e["r"] else e["r"]], sort_keys=True)
        return e["c"] + json.dumps(e.get("r"))
    for o in obs["ops"]:
        r = o["result"]
        res = "ok" if "ok" in r else r.get("err")
        if "ok" in r and isinstance(r["ok"], dict) and "versions" in r["ok"]:
            res = json.dumps(r["ok"], sort_keys=True)              # getInfo is deterministic: the whole response is compared
        out.append(([call(e) for e in o["log"]], res, len(o["store_after"]),
                    sorted(json.dumps([p["rp_id"], p["counter"], p["user_handle"]]) for p in o["store_after"])))
    return out


def directed(run):
    """sequences the random histories rarely contain: getInfo repeated (around other operations), and registrations whose
    user / RP names are long (64, 65, 100, 300 bytes, multi-byte characters) - the store must be asked to save the same
    entities through the trait as directly"""
    rng = run.rng
    scs = []
    gi = lambda: {"op": "get_info"}
    for kind in ("memory", "ref", "option"):
        for disc in ("full", "only_non", "forced"):
            scs.append(scenario(store_kind=kind, disc=disc, ops=[gi(), gi()], user={"verif_enabled": rng.choice([None, False, True])}))
        scs.append(scenario(store_kind=kind, ops=[gi(), {"op": "make_credential", "req": mc_req(rng, rk=True)}, gi()],
                            config={"hmac": {"without_uv": True, "on_mc": False}}))
    # authenticators built with an explicit transports list (empty, with duplicates): getInfo must be the same through the trait
    for tr in ([], ["usb", "internal", "usb"], ["hybrid"], ["internal", "internal"]):
        scs.append(scenario(store_kind="ref", config={"transports": tr}, ops=[gi(), {"op": "make_credential", "req": mc_req(rng)}, gi()]))
    # silent assertions (up = false) and assertions without uv on credentials with and without a counter: same store effect
    cid = bytes([0x5A]) * 16
    for counter in (None, 0, 5, 2**32 - 2):
        for up, uv in ((False, False), (True, False), (False, True)):
            content = [mk_passkey(rng, "example.com", cred_id=cid, counter=counter, keyidx=0)]
            for kind in ("ref", "memory"):
                scs.append(scenario(store_kind=kind, content=content, config={"counter": True},
                                    ops=[{"op": "get_assertion", "req": ga_req(rng, allow=[cid], up=up, uv=uv)},
                                         {"op": "get_assertion", "req": ga_req(rng, allow=[cid], up=True, uv=uv)}],
                                    user={"script": [{"presence": up, "verification": uv}, {"presence": True, "verification": uv}]}))
    # descriptor lists whose entries carry a `type` other than "public-key" (allow and exclude lists, held and unknown ids), and a
    # pinAuth that is present with 0, 1, 16 or 32 bytes: the request must reach the ceremony as it is - same answer, same store effect
    held = bytes([0x5B]) * 16
    for kind in ("option", "memory", "ref"):
        content = [mk_passkey(rng, "example.com", cred_id=held, counter=1, keyidx=0)]
        for lst, tys in (([held], [False]), ([bytes(16)], [False]), ([bytes(16), held], [False, True]), ([held, bytes(16)], [False, False]), ([bytes(16)], [True])):
            q = ga_req(rng, allow=lst); q["allow_ty"] = tys
            q2 = mc_req(rng, exclude=lst); q2["exclude_ty"] = tys
            scs.append(scenario(store_kind=kind, content=content, config={"counter": True},
                                ops=[{"op": "get_assertion", "req": q}, {"op": "make_credential", "req": q2}],
                                user={"script": [{"presence": True, "verification": True}] * 2}))
        for n in (0, 1, 16, 32):
            q = ga_req(rng, allow=[held], pin_auth=True); q["pin_auth_len"] = n
            q2 = mc_req(rng, pin_auth=True); q2["pin_auth_len"] = n
            scs.append(scenario(store_kind=kind, content=content, config={"counter": True},
                                ops=[{"op": "make_credential", "req": q2}, {"op": "get_assertion", "req": q}],
                                user={"script": [{"presence": True, "verification": True}] * 2}))
    # a store that fails with a status of its own (vendor 0xF0.., extension 0xE0.., reserved values, CTAP1 codes) at each call of a
    # ceremony: the status reaches the caller unchanged on both paths
    for kind in ("ref", "memory"):
        content = [mk_passkey(rng, "example.com", cred_id=held, counter=1, keyidx=0)]
        for code in (0xF1, 0xF2, 0xFF, 0xE0, 0xEF, 0x40, 0x7E, 0xDF, 0x01, 0x27):
            for at in range(0, 4):
                scs.append(scenario(store_kind=kind, content=content, config={"counter": True}, faults=[{"at": at, "code": code}],
                                    ops=[{"op": "get_assertion", "req": ga_req(rng, allow=[held])}, {"op": "make_credential", "req": mc_req(rng, rk=True, exclude=[bytes(16)])}],
                                    user={"script": [{"presence": True, "verification": True}] * 2}))
    for n in (64, 65, 100, 300):
        for ch in ("a", "\u00e9", "\u6f22"):
            name = (ch * n)[: n if ch == "a" else n // len(ch.encode("utf-8"))]
            for kind in ("ref", "memory"):
                scs.append(scenario(store_kind=kind, ops=[{"op": "make_credential", "req": mc_req(rng, name=name, display=name + "!", rp_name=name + "?")}]))
    return scs


def check(run):
    common.run_translator("dispatch")
    n = 60 if run.tier == "quick" else 2000
    direct = directed(run) + [gen_history(run.rng, run.tier, with_hmac=True, max_ops=3) for _ in range(n)]
    n = len(direct)
    viaapi = []
    for sc in direct:
        t = copy.deepcopy(sc)
        for op in t["ops"]:
            op["op"] = "trait_" + op["op"]
        viaapi.append(t)
    def pairs(scenarios, outs):
        fails = []
        k = len(scenarios) - 2 * n    # corpus first
        d, t = outs[k:k + n], outs[k + n:k + 2 * n]
        for i, (od, ot) in enumerate(zip(d, t)):
            if "ops" in od and "ops" in ot and summary(od) != summary(ot):
                fails.append({"kind": "the trait call and the direct call differ on the same scenario",
                              "scenario": scenarios[k + n + i], "direct": summary(od), "via_trait": summary(ot)})
        return fails
    scenarios = direct + viaapi
    ceremony.standard_check(
        run, PROP, scenarios, [("direct",) + history_meta(s) for s in direct] + [("trait",) + history_meta(s) for s in viaapi],
        ["store_ok", "c04_ok"], py_oracle=signature_oracle, pair_oracle=pairs,
        coq_files=["theories/Disp/Dispatch.v", "theories/Auth/Authenticator.v"], extra_targets=["theories/Disp/Dispatch.vo"],
        rule="random histories of get_info / make_credential / get_assertion (successful and failing, all store kinds, extensions) run twice: "
             "through the direct methods and through <Authenticator as Ctap2Api>:: by path, each in a worker process (a stack overflow or "
             "hang kills the worker and is reported); both replayed against the same ceremony model and compared with each other",
        assumptions=["rustc's method resolution is modelled only as far as this forwarding impl exercises it (three-step receiver probe, "
                     "inherent before trait, silent skipping of inherent candidates whose bounds do not hold); the differential run keeps that honest"])


def search(run):
    """a proof or translator tie broke: look for a concrete request / sequence on which the trait call does not behave like
    the direct call (crash, hang, different result, different effect on the store) - the basic three calls first, then
    the directed sequences and a sample of random histories, each run directly and through the trait"""
    binary = common.harness_build("ceremony")
    rng = run.rng
    scs = []
    cid = bytes([0xC1]) * 16
    content = [mk_passkey(rng, "example.com", cred_id=cid, counter=1, keyidx=0)]
    for kind, req in (("get_info", None), ("make_credential", mc_req(rng)), ("get_assertion", ga_req(rng, allow=[cid]))):
        op = {"op": kind}
        if req is not None: op["req"] = req
        scs.append(scenario(store_kind="memory", content=content, ops=[op]))
    scs += directed(run) + [gen_history(rng, "quick", with_hmac=True, max_ops=3) for _ in range(40)]
    via = []
    for sc in scs:
        t = copy.deepcopy(sc)
        for op in t["ops"]:
            op["op"] = "trait_" + op["op"]
        via.append(t)
    outs = ceremony.run_scenarios(binary, scs + via)
    n = len(scs)
    for i in range(n):
        d, t = outs[i], outs[n + i]
        if "ops" not in t:
            return {"kind": "calling %s through the Ctap2Api trait kills the process (%s); the direct method returns normally" % (via[i]["ops"][0]["op"], t.get("crash")),
                    "scenario": via[i], "observed": t, "direct": d}
        if "ops" in d and summary(d) != summary(t):
            return {"kind": "the trait call and the direct call differ (result or effect on the store)", "scenario": via[i],
                    "via_trait": summary(t), "direct": summary(d)}
    return None
