"""Shared machinery for all property checks: translators, Coq build + hygiene gate,
harness build/run, evaluation of generated case files inside Coq, evidence, verdicts."""
import fcntl, glob, hashlib, json, os, random, re, subprocess, sys, time

VERIF = os.path.dirname(os.path.dirname(os.path.abspath(__file__)))
REPO = os.environ.get("PK_REPO", "/repo")
COQ = os.path.join(VERIF, "coq")
BUILD = os.path.join(VERIF, ".build")
HARNESS = os.path.join(VERIF, "harness")
TARGET = os.path.join(BUILD, "target")
NPROC = int(os.environ.get("PK_JOBS", "16"))

COQ_TIMEOUT = 1500
# harness binaries that checks also run on a non-release cargo profile (built by ./pkv setup too)
EXTRA_PROFILES = {"ceremony": ["debug"], "psl": ["debug"], "robust": ["debug"]}
ALLOWED_AXIOMS = {
    # standard-library axioms that may appear in Print Assumptions; each must be named in DESIGN.md §7
    # (none needed so far)
}


class Tie(Exception):
    """A broken tie (translator cannot parse, proof does not build, ...)."""
    def __init__(self, what, detail=""):
        super().__init__(what)
        self.what, self.detail = what, detail


def sh(cmd, cwd=None, timeout=None, env=None, input=None):
    e = dict(os.environ)
    e["CARGO_NET_OFFLINE"] = "true"
    e["RUST_BACKTRACE"] = "0"
    if env:
        e.update(env)
    p = subprocess.run(cmd, cwd=cwd, timeout=timeout, env=e, input=input,
                       stdout=subprocess.PIPE, stderr=subprocess.STDOUT, text=True)
    return p.returncode, p.stdout


class Lock:
    def __init__(self, name, shared=False):
        os.makedirs(BUILD, exist_ok=True)
        self.path = os.path.join(BUILD, name + ".lock")
        self.shared = shared
    def __enter__(self):
        self.f = open(self.path, "a")
        fcntl.flock(self.f, fcntl.LOCK_SH if self.shared else fcntl.LOCK_EX)
        return self
    def __exit__(self, *a):
        fcntl.flock(self.f, fcntl.LOCK_UN)
        self.f.close()


# --------------------------------------------------------------------------------------------
# translators

TRANSLATORS = {
    # name: (script, [source paths relative to REPO], output relative to COQ)
    "hid_consts": ("hid_consts.py", ["passkey-transports/src/hid.rs"], "theories/Hid/gen/HidConsts.v"),
    "psl_table": ("psl_table.py", ["public-suffix/src/tld_list.rs"], "theories/Psl/gen/PslTable.v"),
    "psl_rules": ("psl_rules.py", ["public-suffix/public_suffix_list.dat"], "theories/Psl/gen/PslRules.v"),
    "status": ("status.py", ["passkey-types/src/ctap2/error.rs"], "theories/Wire/gen/Status.v"),
    "dispatch": ("dispatch.py", ["passkey-authenticator/src/ctap2.rs", "passkey-authenticator/src/authenticator/get_info.rs",
                                 "passkey-authenticator/src/authenticator/make_credential.rs",
                                 "passkey-authenticator/src/authenticator/get_assertion.rs"], "theories/Disp/gen/DispatchFacts.v"),
    "ctap_schema": ("ctap_schema.py", ["passkey-types/src"], "theories/Wire/gen/CtapSchema.v"),
    "webauthn_error": ("webauthn_error.py", ["passkey-client/src/lib.rs"], "theories/Wire/gen/WebauthnError.v"),
    "json_schema": ("json_schema.py", ["passkey-types/src"], "theories/Wire/gen/JsonSchema.v"),
    "ceremony_skeleton": ("ceremony_skeleton.py", ["passkey-authenticator/src/authenticator.rs", "passkey-authenticator/src/authenticator/get_info.rs",
                                                   "passkey-authenticator/src/authenticator/make_credential.rs",
                                                   "passkey-authenticator/src/authenticator/get_assertion.rs",
                                                   "passkey-authenticator/src/u2f.rs",
                                                   "passkey-authenticator/src/authenticator/extensions/hmac_secret.rs"], "theories/Auth/gen/Skeleton.v"),
    "client_skeleton": ("client_skeleton.py", ["passkey-client/src/lib.rs"], "theories/Auth/gen/ClientSkeleton.v"),
}


# Soft mode (set by ./pkv after a tie broke): translators, Coq builds and Props checks that fail are recorded in
# SOFT_TIES instead of raised, so that the check goes on with the last generated files / compiled models and runs
# its correspondence and oracles - that run IS the search for a concrete failing input.
SOFT = False
SOFT_TIES = []


def run_translator(name):
    if SOFT:
        try:
            return _run_translator(name)
        except Tie as t:
            SOFT_TIES.append(t); return None
    return _run_translator(name)


def _run_translator(name):
    script, srcs, out = TRANSLATORS[name]
    cmd = [sys.executable, os.path.join(VERIF, "translators", script)] + \
          [os.path.join(REPO, s) for s in srcs] + [os.path.join(COQ, out)]
    os.makedirs(os.path.dirname(os.path.join(COQ, out)), exist_ok=True)
    rc, outp = sh(cmd, timeout=600)
    if rc != 0:
        raise Tie("translator %s cannot read the current source" % name, outp[-2000:])


# --------------------------------------------------------------------------------------------
# Coq

FORBIDDEN = re.compile(r"\b(Admitted|admit|Axiom|Axioms|Parameter|Parameters|Conjecture|Conjectures)\b|"
                       r"Unset Guard|bypass_check|type-in-type|impredicative-set|Admit Obligations|"
                       r"Unset Universe Checking|Unset Positivity")


def strip_comments(src):
    out, depth, i = [], 0, 0
    while i < len(src):
        if src.startswith("(*", i):
            depth += 1; i += 2
        elif src.startswith("*)", i) and depth:
            depth -= 1; i += 2
        else:
            if depth == 0:
                out.append(src[i])
            i += 1
    return "".join(out)


CURRENT = None     # (property id, [coq targets]) of the running check: the gate then covers that property's closure


def coq_closure(targets):
    """the .v files the given .vo targets depend on, transitively (coqdep)"""
    vs = sorted(os.path.relpath(p, COQ) for p in glob.glob(os.path.join(COQ, "theories", "**", "*.v"), recursive=True))
    rc, out = sh(["coqdep", "-Q", "theories", "PK"] + vs, cwd=COQ, timeout=300)
    deps = {}
    for line in out.replace("\\\n", " ").splitlines():
        if ":" not in line: continue
        lhs, rhs = line.split(":", 1)
        vo = [t for t in lhs.split() if t.endswith(".vo")]
        if not vo: continue
        deps.setdefault(vo[0], set()).update(t for t in rhs.split() if t.endswith(".vo"))
    seen, todo = set(), [t for t in targets]
    while todo:
        t = todo.pop()
        if t in seen: continue
        seen.add(t); todo.extend(deps.get(t, ()))
    return sorted(os.path.join(COQ, t[:-1]) for t in seen if os.path.exists(os.path.join(COQ, t[:-1])))


def hygiene_gate():
    """No Admitted/admit/Axiom/Parameter/... in the development (comments ignored); top-level
    Variable/Hypothesis outside a section would also be an axiom.  During `./pkv check Cnn` the gate covers
    every file Props/Cnn.vo and the check's targets depend on (so an unfinished file of another property
    cannot raise an alarm here); `./pkv setup` and a call without a running check cover everything."""
    bad = []
    if CURRENT is not None:
        paths = coq_closure(["theories/Props/%s.vo" % CURRENT[0]] + list(CURRENT[1]))
    else:
        paths = sorted(glob.glob(os.path.join(COQ, "theories", "**", "*.v"), recursive=True))
    for path in paths:
        src = strip_comments(open(path).read())
        src_nostr = re.sub(r'"[^"]*"', '""', src)
        for m in FORBIDDEN.finditer(src_nostr):
            bad.append("%s: %s" % (os.path.relpath(path, COQ), m.group(0)))
        depth = 0
        for line in src_nostr.splitlines():
            t = line.strip()
            if re.match(r"Section\b", t): depth += 1
            elif re.match(r"End\b", t) and depth: depth -= 1
            elif re.match(r"(Variable|Variables|Hypothesis|Hypotheses|Context)\b", t) and depth == 0:
                bad.append("%s: top-level %s" % (os.path.relpath(path, COQ), t[:40]))
    cp = open(os.path.join(COQ, "_CoqProject")).read()
    for w in ("type-in-type", "impredicative-set", "-vos", "-vok", "bypass"):
        if w in cp:
            bad.append("_CoqProject: " + w)
    return bad


def coq_makefile():
    vs = sorted(os.path.relpath(p, COQ) for p in glob.glob(os.path.join(COQ, "theories", "**", "*.v"), recursive=True))
    stamp = os.path.join(COQ, ".vfiles")
    cur = "\n".join(vs)
    old = open(stamp).read() if os.path.exists(stamp) else None
    if old != cur or not os.path.exists(os.path.join(COQ, "Makefile")):
        rc, out = sh(["coq_makefile", "-f", "_CoqProject", "-o", "Makefile"] + vs, cwd=COQ, timeout=120)
        if rc != 0:
            raise Tie("coq_makefile failed", out[-2000:])
        open(stamp, "w").write(cur)


def coq_build(targets, timeout=COQ_TIMEOUT):
    if SOFT:
        try:
            return _coq_build(targets, timeout, keep_going=True)
        except Tie as t:
            SOFT_TIES.append(t); return t.detail
    return _coq_build(targets, timeout)


def _coq_build(targets, timeout=COQ_TIMEOUT, keep_going=False):
    """Full .vo build of the given .vo targets (relative to coq/). Returns make output."""
    # one lock per theory area (Auth, Psl, Wire, ...): builds of different areas run concurrently,
    # they only share the stable Lib layer
    with Lock("coq-mk"):
        coq_makefile()
    area = targets[0].split("/")[1] if targets and targets[0].count("/") >= 2 else "all"
    with Lock("coq-" + area):
        rc, out = sh(["make", "-j%d" % NPROC] + (["-k"] if keep_going else []) + targets, cwd=COQ, timeout=timeout)
    if rc != 0:
        m = re.search(r'File "([^"]+)", line (\d+)', out)
        where = "%s:%s" % (m.group(1), m.group(2)) if m else "?"
        raise Tie("Coq build failed at %s" % where, out[-3000:])
    return out


def props_check(prop):
    if SOFT:
        try:
            return _props_check(prop)
        except Tie as t:
            SOFT_TIES.append(t); return [], {"closed": 0, "with_allowed_axioms": []}
    return _props_check(prop)


def _props_check(prop):
    """Rebuild Props/<prop>.v (always recompiled so Print Assumptions output is captured),
    returning (n_theorems, assumptions: {theorem: text})."""
    rel = "theories/Props/%s" % prop
    with Lock("coq-mk"):
        coq_makefile()
    with Lock("coq-Props-" + prop):
        for ext in (".vo", ".glob", ".vok", ".vos"):
            try: os.remove(os.path.join(COQ, rel + ext))
            except FileNotFoundError: pass
        rc, out = sh(["make", "-j%d" % NPROC, rel + ".vo"], cwd=COQ, timeout=COQ_TIMEOUT)
    if rc != 0:
        m = re.search(r'File "([^"]+)", line (\d+)', out)
        where = "%s:%s" % (m.group(1), m.group(2)) if m else "?"
        raise Tie("Coq build failed at %s" % where, out[-3000:])
    src = strip_comments(open(os.path.join(COQ, rel + ".v")).read())
    thms = re.findall(r"^\s*(?:Theorem|Corollary)\s+(\w+)", src, re.M)
    asked = re.findall(r"Print Assumptions\s+(\w+)\s*\.", src)
    missing = [t for t in thms if t not in asked]
    if missing:
        raise Tie("Props/%s.v: theorems without Print Assumptions: %s" % (prop, missing))
    # parse assumption blocks in order
    blocks = re.findall(r"(Closed under the global context|Axioms:\n(?:.+\n?)+?)(?=\n\S|\Z)", out)
    closed = out.count("Closed under the global context")
    axioms = []
    for m in re.finditer(r"^Axioms:\n((?:[ \t]+.*\n|\S+ :.*\n)+)", out, re.M):
        axioms.append(m.group(1))
    named = set()
    for a in axioms:
        for mm in re.finditer(r"^(\S+)\s*:", a, re.M):
            named.add(mm.group(1))
    bad = sorted(n for n in named if n not in ALLOWED_AXIOMS)
    if bad:
        raise Tie("Props/%s.v depends on axioms outside the allow-list: %s" % (prop, bad))
    if closed + len(axioms) < len(asked):
        raise Tie("Props/%s.v: could not account for every Print Assumptions (%d of %d)" % (prop, closed + len(axioms), len(asked)))
    return thms, {"closed": closed, "with_allowed_axioms": sorted(named)}


def coqchk_props(prop, timeout=3600):
    """thorough tiers: re-check the compiled closure of Props/<prop>.vo with the independent checker and
    require it to report no axioms beyond the allow-list; returns a one-line summary for the evidence"""
    with Lock("coq-Props-" + prop, shared=True):
        rc, out = sh(["coqchk", "-silent", "-o", "-Q", "theories", "PK", "PK.Props.%s" % prop], cwd=COQ, timeout=timeout)
    m = re.search(r"\* Axioms:\s*(.*?)\n\s*\n", out, re.S)
    axioms = m.group(1).strip() if m else "?"
    named = [] if axioms == "<none>" else [a.strip() for a in axioms.splitlines() if a.strip()]
    bad = [a for a in named if a.split()[0] not in ALLOWED_AXIOMS]
    if rc != 0 or not m or bad:
        raise Tie("coqchk does not accept the compiled closure of Props/%s without unexpected axioms" % prop, out[-2500:])
    return "coqchk -o PK.Props.%s: accepted; axioms: %s" % (prop, axioms if named else "<none>")


def count_lemmas(files):
    n = 0
    for f in files:
        src = strip_comments(open(os.path.join(COQ, f)).read())
        n += len(re.findall(r"^\s*(?:Theorem|Lemma|Corollary|Example|Fact|Remark|Proposition)\s+\w+", src, re.M))
    return n


def blit(b):
    """bytes -> Coq [list N] literal (plain list literals parse fastest: ~0.13 ms per byte)"""
    return "[" + ";".join(str(x) for x in bytes(b)) + "]"


def _unlimit_stack():
    import resource
    try:
        resource.setrlimit(resource.RLIMIT_STACK, (resource.RLIM_INFINITY, resource.RLIM_INFINITY))
    except Exception:
        pass


def coq_eval(tag, preamble, case_terms, funcs, shard=150, timeout=900, shard_chars=300000):
    """Write case files `Definition cases := [...]` and evaluate, for each name in `funcs`,
    `failing <func> cases` with vm_compute. Returns {func: sorted failing indices}."""
    d = os.path.join(BUILD, "cases", tag)
    os.makedirs(d, exist_ok=True)
    for f in glob.glob(os.path.join(d, "*")):
        os.remove(f)
    # shards bounded both by case count and by literal size (parse time is linear in characters)
    shards, starts, cur, cur_chars = [], [], [], 0
    for i, t in enumerate(case_terms):
        if cur and (len(cur) >= shard or cur_chars + len(t) > shard_chars):
            shards.append(cur); cur, cur_chars = [], 0
        if not cur:
            starts.append(i)
        cur.append(t); cur_chars += len(t)
    if cur or not shards:
        if not cur: starts.append(0)
        shards.append(cur)
    procs = []
    for k, sh_cases in enumerate(shards):
        path = os.path.join(d, "cases%d.v" % k)
        with open(path, "w") as f:
            f.write(preamble + "\n")
            f.write("Definition cases := [\n" + ";\n".join(sh_cases) + "\n].\n")
            for fn in funcs:
                f.write('Eval vm_compute in (failing %s cases).\n' % fn)
        procs.append((k, path))
    results = {fn: [] for fn in funcs}
    running = []
    def reap(p, k):
        out, _ = p.communicate(timeout=timeout)
        if p.returncode != 0:
            raise Tie("case file %s does not evaluate" % os.path.join(d, "cases%d.v" % k), out[-3000:])
        blocks = re.findall(r"=\s*(\[[^\]]*\]|nil)\s*:\s*list N", out)
        if len(blocks) != len(funcs):
            raise Tie("unexpected coqc output for case file %d" % k, out[-2000:])
        for fn, b in zip(funcs, blocks):
            for n in re.findall(r"\d+", b):
                results[fn].append(starts[k] + int(n))
    e = dict(os.environ)
    if True:
        pending = list(procs)
        while pending or running:
            while pending and len(running) < NPROC:
                k, path = pending.pop(0)
                p = subprocess.Popen(["coqc", "-noglob", "-Q", os.path.join(COQ, "theories"), "PK",
                                      "-w", "-notation-overridden", path],
                                     cwd=d, stdout=subprocess.PIPE, stderr=subprocess.STDOUT, text=True, env=e,
                                     preexec_fn=_unlimit_stack)
                running.append((p, k))
            p, k = running.pop(0)
            reap(p, k)
    for fn in funcs:
        results[fn].sort()
    return results


def coq_show(tag, preamble, term, timeout=300):
    """Evaluate one term and return Coq's printed result (for replay files)."""
    d = os.path.join(BUILD, "cases", tag)
    os.makedirs(d, exist_ok=True)
    path = os.path.join(d, "show.v")
    open(path, "w").write(preamble + "\nEval vm_compute in (%s).\n" % term)
    rc, out = sh(["coqc", "-noglob", "-Q", os.path.join(COQ, "theories"), "PK", path], cwd=d, timeout=timeout)
    return out.strip()[-4000:]


# --------------------------------------------------------------------------------------------
# harness

def harness_build(domain, profile="release", rustflags=None):
    with Lock("cargo"):
        lock_src = os.path.join(REPO, "Cargo.lock")
        lock_dst = os.path.join(HARNESS, "Cargo.lock")
        if not os.path.exists(lock_dst) and os.path.exists(lock_src):
            text = open(lock_src).read()
            open(lock_dst, "w").write(text)
        cmd = ["cargo", "build", "--offline", "--quiet", "--bin", domain]
        if profile == "release":
            cmd.append("--release")
        env = {}
        if rustflags:
            env["RUSTFLAGS"] = rustflags
        rc, out = sh(cmd, cwd=HARNESS, timeout=1800, env=env)
    if rc != 0:
        errs = [l for l in out.splitlines() if l.startswith("error")]
        raise Tie("harness does not build against the current tree (%s)" % "; ".join(errs[:3]), out[-3000:])
    return os.path.join(TARGET, "release" if profile == "release" else "debug", domain)


def harness_run(binary, cases, timeout=900, nproc=None):
    """Run cases (list of JSON-able dicts) through `pkharness <domain>`; returns list of outputs.
    Cases are split over several processes; a crashing process is bisected to one case."""
    nproc = nproc or min(NPROC, max(1, len(cases) // 50))
    chunks = [cases[i::nproc] for i in range(nproc)]
    outs = [None] * len(cases)
    procs = []
    for ci, ch in enumerate(chunks):
        data = "".join(json.dumps(c) + "\n" for c in ch)
        p = subprocess.Popen([binary], stdin=subprocess.PIPE, stdout=subprocess.PIPE,
                             stderr=subprocess.PIPE, text=True, env=dict(os.environ, RUST_BACKTRACE="0"))
        procs.append((ci, ch, p, data))
    for ci, ch, p, data in procs:
        try:
            so, se = p.communicate(data, timeout=timeout)
        except subprocess.TimeoutExpired:
            p.kill(); so, se = p.communicate()
            so = so or ""
        lines = so.splitlines()
        if p.returncode == 0 and len(lines) == len(ch):
            for j, l in enumerate(lines):
                outs[ci + j * nproc] = json.loads(l)
        else:
            # process died (abort / stack overflow / timeout): run one by one to isolate
            for j, c in enumerate(ch):
                outs[ci + j * nproc] = harness_one(binary, c)
    return outs


def harness_one(binary, case, timeout=60):
    try:
        p = subprocess.run([binary], input=json.dumps(case) + "\n", stdout=subprocess.PIPE,
                           stderr=subprocess.PIPE, text=True, timeout=timeout,
                           env=dict(os.environ, RUST_BACKTRACE="0"))
    except subprocess.TimeoutExpired:
        return {"crash": "timeout"}
    if p.returncode != 0 or not p.stdout.strip():
        return {"crash": "exit %s" % p.returncode, "stderr": p.stderr[-300:]}
    return json.loads(p.stdout.splitlines()[0])


# --------------------------------------------------------------------------------------------
# verdicts, evidence, known findings

class Run:
    def __init__(self, prop, tier, level="proof"):
        self.prop, self.tier, self.level = prop, tier, level
        self.seed = int(os.environ.get("VERIF_SEED", "0") or 0)
        self.rng = random.Random((self.seed << 8) ^ int(hashlib.sha1(prop.encode()).hexdigest()[:6], 16))
        self.t0 = time.time()
        self.violations = []     # (replay_path, suffix)
        self.known = []
        self.cov = {}
        self.assumptions = []
        self.known_findings = [k for k in json.load(open(os.path.join(VERIF, "KNOWN_FINDINGS.json")))["findings"]
                               if k.get("property") == prop and k.get("status") == "known"]

    def replay_path(self, payload):
        os.makedirs(os.path.join(VERIF, "replays"), exist_ok=True)
        h = hashlib.sha1(json.dumps(payload, sort_keys=True, default=str).encode()).hexdigest()[:10]
        path = os.path.join(VERIF, "replays", "%s-%s.json" % (self.prop, h))
        json.dump(payload, open(path, "w"), indent=1, default=str)
        return path

    def violation(self, payload, found_input=True):
        payload = dict(payload, property=self.prop, seed=self.seed, tier=self.tier)
        path = self.replay_path(payload)
        self.violations.append((path, "" if found_input else " no-failing-input-found"))

    def known_finding(self, finding_id, what):
        self.known.append((finding_id, what))

    def finish(self):
        wall = time.time() - self.t0
        cov = dict(self.cov)
        ev = {"property_id": self.prop, "tier": self.tier, "seed": self.seed, "level": self.level,
              "coverage": cov, "assumptions": self.assumptions, "wall_s": round(wall, 2),
              "violations": len(self.violations)}
        os.makedirs(os.path.join(VERIF, "evidence"), exist_ok=True)
        json.dump(ev, open(os.path.join(VERIF, "evidence", self.prop + ".json"), "w"), indent=1, default=str)
        seen = set()
        for fid, what in self.known:
            if fid not in seen:
                print("KNOWN-FINDING: property=%s %s" % (self.prop, what))
                seen.add(fid)
        for path, suffix in self.violations[:5]:
            print("VIOLATION property=%s replay=%s%s" % (self.prop, path, suffix))
        if self.violations:
            return 1
        print("OK property=%s tier=%s wall=%.1fs" % (self.prop, self.tier, wall))
        return 0


def tie_broken(run, tie, search=None):
    """A proof/translator/correspondence tie broke. `search` (optional callable) looks for a concrete
    failing input and returns a payload or None."""
    found = None
    if search is not None:
        try:
            found = search()
        except Tie as t2:
            found = None
    if found is not None:
        run.violation(dict(found, broken=tie.what), found_input=True)
    else:
        run.violation({"broken": tie.what, "detail": tie.detail,
                       "note": "the theorem or correspondence named in 'broken' no longer checks; "
                               "no concrete failing input was found by the search"}, found_input=False)
