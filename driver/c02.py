"""C02 - registration returns a credential that a standard relying party can verify.

Theorems: coq/theories/Props/C02.v (proofs in Auth/C02Facts.v).  Tie: WebAuthn-level scenarios through
passkey_client::Client (harness `ceremony`, mode "client"), every call of the store / user-validation
traits logged, compared with Auth/Client.v by ClientCheck.wagree (replay of the call log).
Oracles on the implementation's observations: Auth/C0203Check.c02_ok (Coq: JSON reader, CBOR decoder,
the layout decoder of Wire/AuthDataSpec.v, Gallina SHA-256, the P-256 curve equation) and `rp_oracle`
below (Python: json / base64 / hashlib, an own CBOR reader, P-256 arithmetic of ceremony.py): what a
relying party does with the response, plus store before/after."""
import base64, json
import common, ceremony
from ceremony import *

PROP = "C02"
COQ_TARGETS = ceremony.WCOQ_TARGETS + ["theories/Auth/C0203Check.vo"]
HARNESS_BINS = ceremony.HARNESS_BINS
replay = ceremony.replay
EXTRA_PREAMBLE = "From PK Require Import Auth.C0203Check.\n"

SUPPORTED = [-7]                 # Authenticator::new: ES256 only
DEFAULT_PARAMS = [-7, -257]      # PublicKeyCredentialParameters::default_algorithms()


# --------------------------------------------------------------------------------------------
# independent decoding (what a relying party does)

class Bad(Exception):
    pass


def cbor_item(b, i=0):
    """minimal definite-length CBOR reader: (value, next index); maps -> list of pairs (order kept)"""
    if i >= len(b): raise Bad("cbor: truncated")
    mt, ai = b[i] >> 5, b[i] & 31
    i += 1
    if ai < 24: n = ai
    elif ai in (24, 25, 26, 27):
        k = 1 << (ai - 24)
        if i + k > len(b): raise Bad("cbor: truncated head")
        n = int.from_bytes(b[i:i + k], "big"); i += k
    else:
        raise Bad("cbor: indefinite / reserved")
    if mt == 0: return n, i
    if mt == 1: return -1 - n, i
    if mt in (2, 3):
        if i + n > len(b): raise Bad("cbor: truncated string")
        s = bytes(b[i:i + n]); i += n
        return (s if mt == 2 else s.decode("utf-8")), i
    if mt == 4:
        out = []
        for _ in range(n):
            v, i = cbor_item(b, i); out.append(v)
        return out, i
    if mt == 5:
        out = []
        for _ in range(n):
            k, i = cbor_item(b, i); v, i = cbor_item(b, i); out.append((k, v))
        return ("map", out), i
    if mt == 7 and ai in (20, 21): return ai == 21, i
    if mt == 7 and ai == 22: return None, i
    raise Bad("cbor: unsupported item")


def parse_auth_data(ad):
    """WebAuthn 6.1 layout -> dict; raises Bad on anything that is not exactly that layout"""
    if len(ad) < 37: raise Bad("authenticator data shorter than 37 bytes")
    out = {"rp_id_hash": ad[:32], "flags": ad[32], "sign_count": int.from_bytes(ad[33:37], "big"), "acd": None, "ext": None}
    i = 37
    if ad[32] & 0x40:
        if len(ad) < i + 18: raise Bad("attested credential data truncated")
        aaguid = ad[i:i + 16]; n = int.from_bytes(ad[i + 16:i + 18], "big"); i += 18
        if len(ad) < i + n: raise Bad("credential id truncated")
        cid = ad[i:i + n]; i += n
        key, i = cbor_item(ad, i)
        if not (isinstance(key, tuple) and key[0] == "map"): raise Bad("credential public key is not a map")
        out["acd"] = {"aaguid": aaguid, "cred_id": cid, "key": key[1]}
    if ad[32] & 0x80:
        ext, i = cbor_item(ad, i)
        if not (isinstance(ext, tuple) and ext[0] == "map"): raise Bad("extensions are not a map")
        out["ext"] = ext[1]
    if i != len(ad): raise Bad("bytes after the last flagged section of the authenticator data")
    return out


def b64url(b):
    return base64.urlsafe_b64encode(b).rstrip(b"=").decode()


def expected_rp(op):
    """the effective RP ID: the one the relying party asked for, else the origin's host"""
    if op["req"]["rp_id"] is not None:
        return bytes.fromhex(op["req"]["rp_id"])
    o = op["origin"]
    host = o.split("://", 1)[1].split("/", 1)[0]
    if host.startswith("["): return host.encode()
    return host.rsplit(":", 1)[0].encode() if ":" in host else host.encode()


def expected_origin(op):
    return op["origin"].rstrip("/")


def check_client_data(op, cdj, ty):
    """type, challenge (unpadded base64url) and origin, in that order, then crossOrigin"""
    fails = []
    try:
        obj = json.loads(cdj.decode("utf-8"))
    except Exception as e:
        return ["client data JSON does not parse: %s" % e]
    keys = list(obj.keys())
    if keys[:4] != ["type", "challenge", "origin", "crossOrigin"]:
        fails.append("client data members are %s, expected type, challenge, origin, crossOrigin first" % keys[:4])
    if obj.get("type") != ty:
        fails.append("client data type is %r, expected %r" % (obj.get("type"), ty))
    ch = bytes.fromhex(op["req"]["challenge"])
    if obj.get("challenge") != b64url(ch):
        fails.append("client data challenge %r is not the unpadded base64url of the request's challenge (%r)" % (obj.get("challenge"), b64url(ch)))
    if obj.get("origin") != expected_origin(op):
        fails.append("client data origin %r is not the caller's origin %r" % (obj.get("origin"), expected_origin(op)))
    if obj.get("crossOrigin") is not False:
        fails.append("crossOrigin is %r" % (obj.get("crossOrigin"),))
    if op["cd"].get("mode") == "extra":
        for k, v in op["cd"]["extra"].items():
            if obj.get(k) != v:
                fails.append("extra client data member %r missing or changed" % k)
    return fails


def clamp_len(n):
    return max(16, min(64, n))


def first_supported(params):
    for a in (params or DEFAULT_PARAMS):
        if a in SUPPORTED: return a
    return None


def consent_in_log(log):
    return any(e["c"] == "check" and "ok" in e["r"] and (e["r"]["ok"][0] or not e["up"]) and (e["r"]["ok"][1] or not e["uv"]) for e in log)


SEEN_IDS = {}


def rp_oracle(sc, out):
    """every registration of a scenario, from the relying party's and the store's point of view"""
    fails = []
    before = sc["store"]["content"]
    if sc["store"]["kind"] in ("option", "arc_mutex_option"):
        before = before[-1:]
    one_slot = sc["store"]["kind"] in ("option", "arc_mutex_option")
    scen_ids = set(p["cred_id"] for p in before)
    for oi, (op, obs) in enumerate(zip(sc["ops"], out["ops"])):
        if "origin_error" in obs:
            continue
        after = obs["store_after"]
        if op["op"] != "register":
            before = after
            continue
        res = obs["result"]
        want_alg = first_supported(op["req"]["params"])
        if "err" in res:
            if after != before:
                fails.append("op %d: registration failed (%s) but the store content changed" % (oi, res["err"]))
            if want_alg is None and "ok" in obs["domain"]:
                log = obs["log"]
                excluded = any(e["c"] == "find" and "ok" in e["r"] and e["r"]["ok"] for e in log)
                if consent_in_log(log) and not excluded and res["err"] != {"kind": "AuthenticatorError", "code": 0x26}:
                    fails.append("op %d: no supported algorithm in %s but the error is %s, not UnsupportedAlgorithm" % (oi, op["req"]["params"], res["err"]))
            before = after
            continue
        o = res["ok"]
        where = "op %d: " % oi
        if want_alg is None:
            fails.append(where + "registration succeeded although no entry of %s is supported" % op["req"]["params"])
        cdj = bytes.fromhex(o["client_data_json"]); ad = bytes.fromhex(o["auth_data"]); raw = bytes.fromhex(o["raw_id"])
        fails += [where + f for f in check_client_data(op, cdj, "webauthn.create")]
        if bytes.fromhex(o["id"]).decode("ascii", "replace") != b64url(raw):
            fails.append(where + "id is not the base64url of rawId")
        # attestation object
        try:
            att, n = cbor_item(bytes.fromhex(o["att_obj"]))
            if n != len(bytes.fromhex(o["att_obj"])): raise Bad("bytes after the attestation object")
            if not (isinstance(att, tuple) and att[0] == "map"): raise Bad("attestation object is not a map")
            m = dict(att[1])
            if sorted(m.keys()) != ["attStmt", "authData", "fmt"] or len(att[1]) != 3: raise Bad("attestation object members %s" % [k for k, _ in att[1]])
            if m["fmt"] != "none": fails.append(where + "attestation format is %r" % (m["fmt"],))
            if m["attStmt"] != ("map", []): fails.append(where + "attStmt is not empty")
            if m["authData"] != ad:
                fails.append(where + "authenticatorData differs from the authData inside the attestation object")
        except Bad as e:
            fails.append(where + str(e))
        # authenticator data
        rp = expected_rp(op)
        try:
            f = parse_auth_data(ad)
            if f["rp_id_hash"] != sha256(rp):
                fails.append(where + "rpIdHash is not SHA-256 of the effective RP ID %r" % rp.decode("utf-8", "replace"))
            if f["acd"] is None:
                raise Bad("no attested credential data (AT clear)")
            a = f["acd"]
            if a["aaguid"] != bytes.fromhex(sc["config"]["aaguid"]): fails.append(where + "AAGUID is not the configured one")
            if a["cred_id"] != raw: fails.append(where + "attested credential id differs from rawId")
            key = a["key"]
            kd = dict(key)
            if [k for k, _ in key] != [1, 3, -1, -2, -3] or kd.get(1) != 2 or kd.get(3) != -7 or kd.get(-1) != 1:
                raise Bad("COSE key is not an ES256 / EC2 / P-256 key with exactly kty, alg, crv, x, y: %s" % [(k, v if isinstance(v, int) else "..") for k, v in key])
            x, y = kd[-2], kd[-3]
            if not (isinstance(x, bytes) and isinstance(y, bytes) and len(x) == 32 and len(y) == 32):
                raise Bad("COSE coordinates are not 32-byte strings")
            X, Y = int.from_bytes(x, "big"), int.from_bytes(y, "big")
            if not on_curve(X, Y): fails.append(where + "public key is not a point of P-256")
            if o["public_key"] is None or bytes.fromhex(o["public_key"]) != spki_der(x, y):
                fails.append(where + "DER public key is not the SubjectPublicKeyInfo of the COSE key's point")
            if o["alg"] != -7 or o["alg"] != want_alg:
                fails.append(where + "reported algorithm %s, COSE key ES256, first supported entry %s" % (o["alg"], want_alg))
            # the store: exactly one credential added, holding the matching private key
            added = [p for p in after if p not in before]
            gone = [p for p in before if p not in after]
            if len(added) != 1 or (gone and not one_slot):
                fails.append(where + "store: %d credential(s) added, %d removed by a successful registration" % (len(added), len(gone)))
            else:
                p = added[0]
                if p["cred_id"] != o["raw_id"]: fails.append(where + "stored credential id differs from rawId")
                if bytes.fromhex(p["rp_id"]) != rp: fails.append(where + "stored RP ID %r is not the effective RP ID" % bytes.fromhex(p["rp_id"]))
                k = p["key"]
                if not (k["es256"] and k["ec2"] and k["d"]): fails.append(where + "stored key is not a private ES256/EC2 key")
                elif k["x"] != x.hex() or k["y"] != y.hex() or pub_of(int(k["d"], 16)) != (X, Y):
                    fails.append(where + "stored private key does not match the returned public key (d*G != (x, y))")
            want_len = clamp_len(sc["config"]["id_len"] if sc["config"].get("id_len") is not None else 16)
            if len(raw) != want_len:
                fails.append(where + "credential id has %d bytes, configured %s -> %d" % (len(raw), sc["config"].get("id_len"), want_len))
            if o["raw_id"] in scen_ids:
                fails.append(where + "credential id is not fresh (already present in this store)")
            scen_ids.add(o["raw_id"])
            SEEN_IDS[o["raw_id"]] = SEEN_IDS.get(o["raw_id"], 0) + 1
        except Bad as e:
            fails.append(where + str(e))
        before = after
    return fails


# --------------------------------------------------------------------------------------------
# scenarios

ORIGINS = [("https://www.example.com", "example.com"), ("https://www.example.com", None), ("https://example.com:8443", "example.com"),
           ("https://login.example.com:444", "example.com"), ("https://login.example.com", "login.example.com"),
           ("https://other.org", None), ("https://a.b.other.org:9000", "other.org"), ("https://xn--bcher-kva.example", None)]
PARAMS = [(), (-7,), (-7, -257), (-257, -7), (-8, -257, -7), (-35, -7, -36), (-257,), (-8, -35), (-37, -257, -8)]
CHALLENGES = [0, 1, 31, 32, 33]
NAMES = [("wendy", "Wendy A."), ("", ""), ("名前", "表示名 ✓"), ("zürich\"\\", "Zür\u0001ich\n"), ("a" * 70, "b")]
ID_LENS = [0, 15, 16, 17, 63, 64, 65, 255]
USER_OK = {"presence": True, "verification": True}


def cd_mode(rng, k=None):
    k = rng.randrange(3) if k is None else k
    if k == 1:
        return {"mode": "extra", "extra": rng.choice([{"extra": "data"}, {"androidPackageName": "com.example.app", "n": 7}, {"k\"ey": "v\\al\n", "nested": {"a": [1, 2]}}, {},
                                                       {"payment": {"total": {"currency": "USD", "value": "5.00"}, "rpId": "pay.example"}}])}
    if k == 2:
        return {"mode": "hash", "hash": bytes(rng.randrange(256) for _ in range(rng.choice([32, 32, 0, 5]))).hex()}
    return {"mode": "default"}


def selection(rng):
    return rng.choice([None, None, {"rk": "required", "uv": "preferred"}, {"rk": "preferred", "uv": "required"},
                       {"rk": "discouraged", "uv": "discouraged"}, {"rk": None, "require_rk": True, "uv": "preferred"},
                       {"rk": None, "require_rk": False, "uv": "discouraged"}])


def gen_registrations(run, n):
    """sequences of 1..6 registrations into the same store"""
    rng = run.rng
    scs, meta = [], []
    big = 0
    for i in range(n):
        kind = rng.choice(["ref", "ref", "memory", "arc_mutex_memory", "arc_rwlock_ref", "option"])
        id_len = ID_LENS[i % len(ID_LENS)]
        hm = rng.choice([None, None, None, {"without_uv": False, "on_mc": True}, {"without_uv": True, "on_mc": True}, {"without_uv": True, "on_mc": False}])
        cfg = {"id_len": id_len, "counter": rng.random() < 0.5, "hmac": hm, "aaguid": bytes(rng.randrange(256) for _ in range(16)).hex()}
        content = [mk_passkey(rng, rng.choice(["example.com", "other.org"]), cred_id=bytes([0xD0 + j]) * 16, keyidx=j) for j in range(rng.choice([0, 0, 1, 2]))]
        if kind == "option": content = content[:1]
        ops, script, sig = [], [], []
        for _ in range(rng.choice([1, 1, 2, 3, 4, 6])):
            origin, rp = rng.choice(ORIGINS)
            clen = CHALLENGES[(i + len(ops)) % len(CHALLENGES)]
            if run.tier != "quick" and rng.random() < 0.02 or (i % 97 == 5 and big < 3 and not ops):
                clen = 1000; big += 1
            params = PARAMS[(i + 3 * len(ops)) % len(PARAMS)]
            name, disp = rng.choice(NAMES)
            excl = None
            r = rng.random()
            if r < 0.15 and content: excl = [bytes.fromhex(rng.choice(content)["cred_id"])]
            elif r < 0.3: excl = [bytes([0xEE]) * 16]
            elif r < 0.35: excl = []
            ext = None
            if hm is not None and rng.random() < 0.7:
                f = bytes(rng.randrange(256) for _ in range(rng.choice([32, 7])))
                ext = wext(cred_props=rng.choice([None, True]), prf=rng.choice([((f, None), None), (None, None), ((f, f), None)]))
            elif rng.random() < 0.2:
                ext = wext(cred_props=True)
            cd = cd_mode(rng, (i + len(ops)) % 3)
            sel = selection(rng)
            ops.append(reg_op(rng, origin=origin, rp_id=rp, challenge=bytes(rng.randrange(256) for _ in range(clen)), params=params,
                              exclude=excl, selection=sel, ext=ext, cd=cd, name=name, display=disp,
                              user_id=bytes(rng.randrange(256) for _ in range(rng.choice([1, 8, 64]))),
                              rp_name=rng.choice(["Example", "Éxämple ✓", ""])))
            if sel is not None and sel.get("uv") == "discouraged" and rng.random() < 0.6:
                script.append({"presence": True, "verification": False})      # UV stays clear
            else:
                script.append(rng.choice([USER_OK] * 27 + [{"presence": True, "verification": False}, {"presence": False, "verification": True}, {"err": 0x27}]))
            sig.append((origin, rp, clen, params, cd["mode"], excl is not None and len(excl), json.dumps(sel), ext is not None))
        sc = client_scenario(store_kind=kind, content=content, config=cfg, disc=rng.choice(["full", "full", "only_non", "forced"]),
                             empty_is_err=rng.random() < 0.5,
                             user={"verif_enabled": rng.choice([True] * 28 + [False, None]), "presence_enabled": True, "script": script}, ops=ops)
        scs.append(sc)
        meta.append((kind, id_len, cfg["counter"], json.dumps(hm), len(content), tuple(sig)))
    return scs, meta


def directed(run):
    """the corners named in the property, one scenario each"""
    rng = run.rng
    scs, meta = [], []
    def add(tag, **kw):
        scs.append(client_scenario(**kw)); meta.append(("directed", tag))
    for n in ID_LENS:
        add("idlen%d" % n, store_kind="ref", config={"id_len": n, "counter": n % 2 == 0}, user={"script": [USER_OK]}, ops=[reg_op(rng)])
    # members the client does not act on: every attestation preference (the attestation object is a "none" attestation whatever
    # the relying party prefers), timeouts, hints, formats, attachment - alone and all together
    for kind in ("ref", "memory"):
        for k, vals in ceremony.IGNORED_MEMBERS.items():
            for v in vals[1:]:
                add("ignored/%s/%s=%s" % (kind, k, v), store_kind=kind, user={"script": [USER_OK]},
                    ops=[ceremony.with_ignored(reg_op(rng, selection={"rk": "preferred", "require_rk": False, "uv": "preferred"}), **{k: v})])
        for att in ("platform", "cross-platform"):
            add("ignored/%s/attachment=%s" % (kind, att), store_kind=kind, user={"script": [USER_OK]}, ops=[ceremony.with_ignored(reg_op(rng), attachment=att)])
        add("ignored/%s/all" % kind, store_kind=kind, user={"script": [USER_OK]},
            ops=[ceremony.with_ignored(reg_op(rng), attestation="enterprise", timeout=1, hints=["hybrid"], attestation_formats=["packed"], attachment="platform")])
    # origins whose host has punycode labels: the client data carries the origin as the caller gave it (ASCII serialisation)
    for tag, o, r in (("idn", "https://xn--bcher-kva.example", None), ("idn-sub", "https://login.xn--mnchen-3ya.example", "xn--mnchen-3ya.example"),
                      ("idn-port", "https://xn--bcher-kva.example:8443", "xn--bcher-kva.example")):
        for k in range(3):
            add("origin/%s/%d" % (tag, k), store_kind="ref", user={"script": [USER_OK]}, ops=[reg_op(rng, origin=o, rp_id=r, cd=cd_mode(rng, k))])
    # the insecure-localhost exception: the caller's origin is http://localhost[:port] and the client data must say so
    for o in ("http://localhost", "http://localhost:8080", "https://localhost:8443"):
        for k in range(3):
            op = reg_op(rng, origin=o, rp_id=None if k else "localhost", cd=cd_mode(rng, k), allow_localhost=True)
            add("localhost/%s/%d" % (o, k), store_kind="ref", user={"script": [USER_OK]}, ops=[op])
    # extra client data whose members look like another ceremony type's (payment): a registration stays webauthn.create
    for ex in ({"payment": {"total": {"currency": "USD", "value": "5.00"}, "rpId": "pay.example"}}, {"payment": {}}, {"payment": {"x": 1}, "topOrigin": "https://top.example"}):
        add("extra/%s" % list(ex)[0], store_kind="ref", user={"script": [USER_OK]}, ops=[reg_op(rng, cd={"mode": "extra", "extra": ex})])
    for ps in PARAMS:
        add("params%s" % (ps,), store_kind="ref", user={"script": [USER_OK] * 2},
            ops=[reg_op(rng, params=ps), reg_op(rng, params=ps, origin="https://other.org", rp_id=None)])
    # the same user id registered at several RPs into one store: every success adds exactly one credential and leaves the others
    for kind in ("memory", "ref", "arc_mutex_memory", "arc_rwlock_memory", "option"):
        uid = b"\x42" * 8
        for sel in (None, {"rk": "required", "require_rk": True, "uv": "preferred"}):      # without / with a stored user handle
            add("same-user-id/%s/%s" % (kind, sel is not None), store_kind=kind, user={"script": [USER_OK] * 5},
                ops=[reg_op(rng, origin="https://www.example.com", rp_id="example.com", user_id=uid, selection=sel),
                     reg_op(rng, origin="https://www.example.com", rp_id="example.com", user_id=uid, selection=sel),      # the same account again
                     reg_op(rng, origin="https://shop.other.org", rp_id=None, user_id=uid, selection=sel),
                     reg_op(rng, origin="https://login.example.com", rp_id="login.example.com", user_id=uid, selection=sel),
                     reg_op(rng, origin="https://www.example.com", rp_id="example.com", user_id=uid, selection=sel)])
    # entries whose `type` is not "public-key" (the library looks at `alg` only): a non-empty list stays non-empty -
    # no silent fall-back to the defaults - whatever the types are
    for ps, tys in [((-257,), (False,)), ((-257, -8), (False, False)), ((-7,), (False,)), ((-257, -7), (False, True)), ((-257, -7), (True, False)),
                    ((-8, -257), (False, True))]:
        o1, o2 = reg_op(rng, params=ps), reg_op(rng, params=ps, cd={"mode": "hash", "hash": "11" * 32})
        o1["req"]["params_ty"] = list(tys); o2["req"]["params_ty"] = list(tys)
        add("params-types%s%s" % (ps, tys), store_kind="ref", user={"script": [USER_OK] * 2}, ops=[o1, o2])
    for clen in CHALLENGES + [1000]:
        for k in range(3):
            add("ch%d/%d" % (clen, k), store_kind="memory", user={"script": [USER_OK]},
                ops=[reg_op(rng, challenge=bytes((7 * j + clen) % 256 for j in range(clen)), cd=cd_mode(rng, k), origin="https://login.example.com:444", rp_id="example.com")])
    # an extension step that fails after the key pair exists (prf evaluation without user verification on a
    # configuration without a no-uv secret): nothing may have been stored
    f = bytes(range(32))
    add("prf-uv-blocked", store_kind="ref", config={"hmac": {"without_uv": False, "on_mc": True}}, user={"script": [USER_OK]},
        ops=[reg_op(rng, ext=wext(prf=((f, None), None)), selection={"rk": "discouraged", "uv": "discouraged"})])
    add("prf-ok", store_kind="ref", config={"hmac": {"without_uv": True, "on_mc": True}}, user={"script": [USER_OK] * 2},
        ops=[reg_op(rng, ext=wext(prf=((f, f), None)), selection={"rk": "discouraged", "uv": "discouraged"}),
             reg_op(rng, ext=wext(prf=((f, None), None), cred_props=True), selection={"rk": "required", "uv": "required"})])
    # excluded credential, denied user, unsupported algorithm after an exclusion miss
    cid = bytes([0xD7]) * 16
    add("excluded", store_kind="ref", content=[mk_passkey(rng, "example.com", cred_id=cid, keyidx=0)], user={"script": [USER_OK] * 3},
        ops=[reg_op(rng, exclude=[cid]), reg_op(rng, exclude=[cid], params=(-257,)), reg_op(rng, exclude=[bytes(16)], params=(-257,))])
    add("denied", store_kind="ref", user={"script": [{"presence": False, "verification": False}, {"err": 0x27}, USER_OK]},
        ops=[reg_op(rng), reg_op(rng, params=(-8,)), reg_op(rng)])
    # presence without verification (UV clear) where verification is discouraged; and where it is required (denied)
    for k in range(3):
        add("uv-clear/%d" % k, store_kind="ref", user={"script": [{"presence": True, "verification": False}]},
            ops=[reg_op(rng, selection={"rk": "discouraged", "uv": "discouraged"}, cd=cd_mode(rng, k)), reg_op(rng, selection={"rk": "required", "uv": "required"}),
                 reg_op(rng, selection={"rk": "preferred", "uv": "discouraged"}, origin="https://other.org", rp_id=None)])
    add("six", store_kind="ref", config={"id_len": 32, "counter": True}, user={"script": [USER_OK] * 6},
        ops=[reg_op(rng, origin=o, rp_id=r, user_id=bytes([j])) for j, (o, r) in enumerate(ORIGINS[:6])])
    return scs, meta


def check(run):
    n = 230 if run.tier == "quick" else 3500
    d_scs, d_meta = directed(run)
    g_scs, g_meta = gen_registrations(run, n)
    SEEN_IDS.clear()
    scenarios, outs, live, res = ceremony.standard_check(
        run, PROP, d_scs + g_scs, d_meta + g_meta, ["c02_ok"], py_oracle=rp_oracle, client=True,
        extra_targets=["theories/Auth/C0203Check.vo"], extra_preamble=EXTRA_PREAMBLE,
        coq_files=["theories/Auth/Authenticator.v", "theories/Auth/Client.v", "theories/Auth/C0203Check.v", "theories/Auth/C02Facts.v",
                   "theories/Auth/StoreFacts.v", "theories/Auth/History.v"],
        rule="WebAuthn-level registrations through passkey_client::Client: directed corners (credential-id length config {0,15,16,17,63,64,65,255}, "
             "algorithm lists empty / ES256 first / last / absent / other IANA ids / RS256 only, challenge lengths {0,1,31,32,33,1000} x client-data "
             "mode default/extra/hash, prf extension failing after key generation, excluded credential, denied user) plus random sequences of 1-6 "
             "registrations into one store over 3 RPs, origins with ports, non-ASCII names, counter on/off, 6 store kinds",
        assumptions=["ECDSA / P-256 arithmetic is not modelled: 'valid P-256 point' and 'private key matches public key' are checked on every observed "
                     "registration by the curve equation (Coq, Python) and d*G = (x, y) (Python big-integer arithmetic, not the p256 crate)",
                     "freshness of credential ids is observed (pairwise distinct over the run), not proved: the model proves the id is the answer of the "
                     "one ERand(c_id_len) event and nothing else",
                     "origins are generated as scheme://host[:port]; the origin text and the effective RP ID (RpIdVerifier::assert_domain, property C01) are inputs of the model"])
    dup = [i for i, k in SEEN_IDS.items() if k > 1]
    if dup:
        run.violation({"kind": "independent oracle: credential ids repeat across the run (not fresh)", "ids": dup[:3]})
    n_reg = sum(1 for (_, _, op, obs, _) in live if op["op"] == "register" and "ok" in obs["result"])
    run.cov["successful_registrations"] = n_reg
    run.cov["distinct_credential_ids"] = len(SEEN_IDS)
    run.cov["trusted_base"].append("driver/c02.py: Python relying-party oracle (json, base64, hashlib, own CBOR / authenticator-data reader)")
