"""C01 - RP ID bound to the origin at a label boundary and registrable (passkey-client RpIdVerifier, Client::register)."""
import json, os
import common
from common import blit
import c10

PROP = "C01"
PREAMBLE = ("From PK Require Import Lib.Bytes Lib.Check Psl.PslSpec Psl.PslModel Psl.PslShipped RpId.RpIdModel RpId.RpIdCheck.\n"
            "Open Scope N_scope.\n")
COQ_TARGETS = ["theories/RpId/RpIdCheck.vo", "theories/RpId/RpIdFacts.vo"]
HARNESS_BINS = ["rpid"]
COQ_FILES = ["theories/RpId/RpIdFacts.v", "theories/Props/C01.v"]
PK = {"default": "PDefault", "err": "PErr", "ok": "POk", "custom": "PCustom"}


# ------------------------------------------------------------------------------------------------
# generator

def web(url, rp, allow=False, prov="default", shape=""):
    return {"kind": "web", "url": url, "rp": rp, "allow": allow, "prov": prov, "shape": shape}


def android(host, rp, allow=False, prov="default", shape=""):
    return {"kind": "android", "host": host, "rp": rp, "allow": allow, "prov": prov, "shape": shape}


def rp_variants(host, suffix, rng):
    """RP IDs for a host whose public suffix (as text) is `suffix`: [(name of the variant, rp)]"""
    labels = host.split(".")
    out = [("absent", None), ("host", host), ("empty", ""), ("unrelated", "other.org"), ("upper", host.upper()),
           ("trailing-dot", host + "."), ("leading-dot", "." + host), ("dot-suffix", "." + suffix),
           ("suffix", suffix), ("tld", labels[-1]), ("minus-char", host[1:]), ("plus-char", "x" + host),
           ("plus-label", "x." + host)]
    for k in range(1, len(labels)):
        out.append(("label-suffix", ".".join(labels[k:])))
    # a suffix cut inside a label, ending at a registrable name: ex.ample.com / ample.com
    if len(labels[0]) > 1:
        out.append(("inside-label", host[len(labels[0]) // 2:]))
    return out


def gen_cases(run, rules):
    rng = run.rng
    thorough = run.tier == "thorough"
    wild = [r for r in rules if r[1] == "KWild"]
    exc = [r for r in rules if r[1] == "KExc"]
    idn = [r for r in rules if r[1] == "KNormal" and any(l.startswith(b"xn--") for l in r[0])]
    other = [r for r in rules if r[1] == "KNormal" and not any(l.startswith(b"xn--") for l in r[0])]
    if thorough:
        picked = rules
    else:
        picked = rng.sample(wild, 12) + exc + rng.sample(idn, 25) + rng.sample(other, 45)
    cases = []
    for labels, kind in picked:
        suffix = ".".join(l.decode() for l in reversed(labels))
        if kind == "KWild":
            suffix = "w1." + suffix
        reg = ("site." + suffix) if kind != "KExc" else suffix          # a registrable name under this rule
        hosts = [suffix, reg, "www." + reg, "a.b." + reg, "evil" + reg]
        variants_full = not thorough or rng.random() < 0.05
        for hi, host in enumerate(hosts):
            if not variants_full and hi in (2, 3) and rng.random() < 0.8:
                continue
            vs = rp_variants(host, suffix, rng)
            if host.startswith("evil"):
                vs.append(("char-suffix-registrable", reg))              # evilexample.com / example.com
            if not variants_full:
                vs = rng.sample(vs, 2) + [v for v in vs if v[0] in ("char-suffix-registrable", "suffix")]
            for name, rp in vs:
                shape = "%s/h%d/%s" % (kind, hi, name)
                r = rng.random()
                if r < 0.55:
                    cases.append(web("https://%s/" % host, rp, shape=shape))
                elif r < 0.65:
                    cases.append(web("https://user:pw@%s:8443/p?q#f" % host, rp, shape=shape + "/port-userinfo"))
                elif r < 0.75:
                    cases.append(web("%s://%s/" % (rng.choice(["http", "ftp", "wss", "HTTPS", "httpss", "ws"]), host), rp,
                                     allow=rng.random() < 0.5, shape=shape + "/scheme"))
                else:
                    cases.append(android(host, rp, shape=shape + "/android"))
    # IDN rules in their Unicode spelling: url converts the host to punycode; Android hosts and RP IDs stay as given
    uni = c10.unicode_rule_lines()
    for s in (uni if thorough else rng.sample(uni, 25)):
        s = s.lstrip("!").replace("*.", "w1.")
        puny = ".".join(l.encode("idna").decode() if not l.isascii() else l for l in s.split("."))
        for host, rp, name in [("site." + s, None, "absent"), ("site." + s, puny, "suffix-puny"), ("site." + s, s, "suffix-unicode"),
                               ("site." + s, "site." + puny, "host-puny"), ("www.site." + s, "site." + puny, "label-suffix-puny"),
                               ("site." + puny, s, "puny-host-unicode-rp"), (s, None, "suffix-as-host")]:
            cases.append(web("https://%s/" % host, rp, shape="idn-unicode/" + name))
            cases.append(android(host, rp, shape="idn-unicode/" + name + "/android"))
    # localhost family
    for host in ["localhost", "notlocalhost", "foo.localhost", "localhost.", "LOCALHOST", "localhost.example.com", "foo.notlocalhost"]:
        for rp in [None, "localhost", "notlocalhost", "foo.localhost", host, "ocalhost", ".localhost", "LOCALHOST", ""]:
            for allow in (False, True):
                for scheme in ("http", "https"):
                    for prov in ("default", "ok") if host in ("localhost", "foo.localhost", "notlocalhost") else ("default",):
                        cases.append(web("%s://%s:3000/" % (scheme, host), rp, allow=allow, prov=prov, shape="localhost/%s" % host))
                cases.append(android(host, rp, allow=allow, shape="localhost/%s/android" % host))
    # IP literals, single-label hosts, odd URLs
    for url in ["https://127.0.0.1/", "http://127.0.0.1/", "https://[::1]/", "https://[2001:db8::1]:8443/", "https://0x7f.1/",
                "https://intranet/", "http://intranet/", "https://intranet./", "https://example.com./", "https://EXAMPLE.com/",
                "https://example.com:443/", "https://a..b.com/", "https://.com/", "https://com/", "https://co.uk/",
                "file:///etc/passwd", "data:text/plain,hi", "https:///", "about:blank", "blob:https://example.com/uuid",
                "https://xn--nxasmq6b.com/", "https://xn--a.com/", "https://xn--.com/", "https://example.xn--55qx5d.cn/"]:
        for rp in [None, "127.0.0.1", "intranet", "example.com", "com", "", "example.com.", "1", "xn--55qx5d.cn", "[::1]"]:
            for allow in (False, True):
                cases.append(web(url, rp, allow=allow, shape="odd-url"))
    for host in ["127.0.0.1", "intranet", "example.com.", "EXAMPLE.COM", "a..b.com", ".com", "com", "", ".", "xn--a.com", "XN--A.com",
                 "exa mple.com", "example.com:443", "https://example.com"]:
        for rp in [None, host, "example.com", "com", "", "COM", "xn--a.com"]:
            cases.append(android(host, rp, shape="odd-android"))
    # the other providers on a fixed family (the custom list knows test, co.test, corp.internal)
    fam_hosts = ["site.test", "www.site.test", "a.co.test", "www.a.co.test", "co.test", "test", "notco.test", "x.corp.internal",
                 "corp.internal", "internal", "example.com", "www.example.com", "evilexample.com", "evilsite.test", "site.test."]
    fam_rps = [None, "site.test", "a.co.test", "co.test", "test", "ite.test", ".site.test", ".test", "", "example.com", ".com", "com",
               "corp.internal", "x.corp.internal", "internal", "SITE.TEST", "site.test.", "notco.test"]
    for prov in ("custom", "ok", "err", "default"):
        for host in fam_hosts:
            for rp in fam_rps:
                if thorough or rng.random() < 0.5:
                    if rng.random() < 0.7:
                        cases.append(web("%s://%s/" % ("https" if rng.random() < 0.85 else "http", host), rp, prov=prov,
                                         allow=rng.random() < 0.3, shape="providers/" + prov))
                    else:
                        cases.append(android(host, rp, prov=prov, shape="providers/%s/android" % prov))
    # a verdict does not depend on what the same verifier judged before: an accepted pair is judged (twice) first, then the same
    # host and RP ID under another scheme / port, a look-alike host, another RP ID, another host, the same pair again
    for host, rp in [("example.com", "example.com"), ("www.example.com", "example.com"), ("example.com", None), ("localhost", None),
                     ("site.co.uk", "site.co.uk"), ("xn--bcher-kva.example", None)]:
        first = {"kind": "web", "url": "https://%s/" % host, "rp": rp}
        for url2, rp2 in [("http://%s/" % host, rp), ("ftp://%s/" % host, rp), ("http://%s:8080/" % host, rp), ("wss://%s/" % host, rp),
                          ("https://evil%s/" % host, rp), ("https://%s/" % host, "com"), ("https://%s/" % host, rp), ("https://other.org/", rp),
                          ("https://%s./" % host, rp)]:
            for allow in (False, True):
                c = web(url2, rp2, allow=allow, shape="history")
                c["before"] = [first, first]
                cases.append(c)
        c = android(host, rp, shape="history/android"); c["before"] = [first]
        cases.append(c)
    # end to end on every third case
    for i, c in enumerate(cases):
        c["e2e"] = (i % 3 == 0)
    return cases


def neighbours(c):
    """the case with one leading character or label of the RP ID dropped / added (failing-input search)"""
    out = []
    rp = c.get("rp")
    if rp:
        alts = [rp[1:], "x" + rp, "x." + rp, "." + rp, rp.split(".", 1)[1] if "." in rp else "", rp.upper(), rp + "."]
        for a in alts:
            out.append(dict(c, rp=a, shape=c.get("shape", "") + "/neighbour", e2e=True))
    out.append(dict(c, rp=None, shape=c.get("shape", "") + "/neighbour", e2e=True))
    for flip in ("allow",):
        out.append(dict(c, allow=not c["allow"], shape=c.get("shape", "") + "/neighbour", e2e=True))
    if c["kind"] == "web":
        u = c["url"]
        if u.startswith("https://"):
            out.append(dict(c, url="http://" + u[8:], shape=c.get("shape", "") + "/neighbour", e2e=True))
    return out


# ------------------------------------------------------------------------------------------------
# Coq terms

def b(s):
    return blit(s.encode("utf-8") if isinstance(s, str) else s)


def hexb(h):
    return blit(bytes.fromhex(h))


def canon_ascii(raw):
    """canonical ASCII form of a name, computed without the idna crate: per label, lower-case, and a non-ASCII label
    becomes xn-- + punycode (Python's codec; it reproduces the IDN conversion of every rule of the shipped list).
    A name this cannot convert is used lower-cased as given (the oracle then decides on those bytes)."""
    try:
        s = raw.decode("utf-8")
    except UnicodeDecodeError:
        return raw
    out = []
    for l in s.split("."):
        l = l.lower()
        if l.isascii():
            out.append(l)
        else:
            try:
                out.append("xn--" + l.encode("punycode").decode("ascii"))
            except Exception:
                return s.lower().encode("utf-8")
    return ".".join(out).encode("ascii")


def term(c, o):
    if c["kind"] == "web":
        dom = "None" if o["domain"] is None else "(Some %s)" % hexb(o["domain"])
        origin = "(Web %s %s)" % (b(o["scheme"]), dom)
    else:
        origin = "(Android %s)" % hexb(o["domain"])
    rp = "None" if c["rp"] is None else "(Some %s)" % b(c["rp"])
    puny = "true" if o.get("puny") else "false"
    ascii_ = "None" if o.get("ascii") is None else "(Some %s)" % hexb(o["ascii"])
    canon = blit(canon_ascii(bytes.fromhex(o["eff"])) if o.get("eff") is not None else b"")
    r = o.get("res", {})
    if "ok" in r: impl = "(Some (inl %s))" % hexb(r["ok"])
    elif "err" in r: impl = "(Some (inr %d))" % r["err"]
    else: impl = "None"
    v = o.get("valid")
    valid = "None" if v is None or "v" not in v else "(Some %s)" % ("true" if v["v"] else "false")
    e = o.get("e2e")
    e2e = "None" if not e else "(Some (%s, [%s]))" % ("true" if e["ok"] else "false", "; ".join(hexb(x) for x in e["stored"]))
    return "CRp %s %s %s %s %s %s %s %s %s %s" % ("true" if c["allow"] else "false", PK[c["prov"]], origin, rp, puny, ascii_, canon,
                                                impl, valid, e2e)


def run_cases(run, binary, cases, tag):
    outs = common.harness_run(binary, cases, timeout=300)
    kept = [(c, o) for c, o in zip(cases, outs) if o.get("parse") is True]
    crashed = [(c, o) for c, o in zip(cases, outs) if o.get("crash") or o.get("panic")]
    terms = [term(c, o) for c, o in kept]
    res = common.coq_eval(tag, PREAMBLE, terms, ["agree", "oracle"], shard=max(40, min(300, len(terms) // 16 + 1)))
    return kept, crashed, terms, res, len(cases) - len(kept) - len(crashed)


def explain(t):
    return common.coq_show(PROP, PREAMBLE,
        "match %s with CRp allow pk o rp puny ascii canon impl v e => (res_code (assert_domain allow (provider_of pk) (fun _ => puny) "
        "(fun _ => ascii) o rp), impl, match impl with Some r => c01_ok allow pk o rp canon r | None => false end) end" % t)


def check(run):
    common.run_translator("psl_table")
    common.run_translator("psl_rules")
    common.run_translator("status")
    common.run_translator("client_skeleton")
    bad = common.hygiene_gate()
    if bad:
        raise common.Tie("hygiene gate: " + "; ".join(bad))
    common.coq_build(["theories/RpId/RpIdCheck.vo"])
    proof_tie, thms, assum = None, [], {"closed": 0, "with_allowed_axioms": []}
    try:
        common.coq_build(["theories/RpId/RpIdFacts.vo"])
        thms, assum = common.props_check(PROP)
    except common.Tie as t:
        proof_tie = t
    binary = common.harness_build("rpid")
    rules, _ = c10.shipped_rules()

    cases = corpus() + gen_cases(run, rules)
    kept, crashed, terms, res, unparsed = run_cases(run, binary, cases, PROP)

    for c, o in crashed[:3]:
        run.violation({"kind": "the harness process crashed or panicked outside the guarded calls", "case": c, "observed": o})
    for i in res["oracle"][:3]:
        c, o = kept[i]
        run.violation({"kind": "an accepted (origin, RP ID) pair violates the property, or Client::register disagrees with assert_domain, "
                               "or a call panicked", "case": c, "observed": o, "model, impl, c01_ok": explain(terms[i]),
                       "broken": proof_tie.what if proof_tie else None})
    searched = 0
    if not res["oracle"] and not crashed and (res["agree"] or proof_tie):
        # search: the disagreeing cases' neighbours (or, when only a proof broke, the neighbours of a sample)
        seeds = [kept[i][0] for i in res["agree"][:25]] or [c for c, _ in kept[:: max(1, len(kept) // 60)]]
        more = [n for s in seeds for n in neighbours(s)]
        k2, cr2, t2, r2, _ = run_cases(run, binary, more, PROP + "-search")
        searched = len(t2)
        if r2["oracle"]:
            i = r2["oracle"][0]
            run.violation({"kind": "found by the neighbour search: an accepted pair violates the property", "case": k2[i][0],
                           "observed": k2[i][1], "model, impl, c01_ok": explain(t2[i]),
                           "broken": proof_tie.what if proof_tie else "correspondence rpid (RpId.RpIdCheck.agree)"})
        elif res["agree"]:
            i = res["agree"][0]
            run.violation({"kind": "model and implementation disagree; oracle true on all %d cases of this run and on %d neighbours"
                                   % (len(terms), searched), "broken": "correspondence rpid (RpId.RpIdCheck.agree)",
                           "case": kept[i][0], "observed": kept[i][1], "model, impl, c01_ok": explain(terms[i])}, found_input=False)
        else:
            run.violation({"broken": proof_tie.what, "detail": proof_tie.detail,
                           "note": "a C01 theorem (or a C10 theorem it rests on) no longer checks; oracle true on all %d cases and %d "
                                   "neighbours" % (len(terms), searched)}, found_input=False)

    sig, shapes, outcomes = set(), {}, {}
    for c, o in kept:
        r = o.get("res", {})
        out = "ok" if "ok" in r else "err%s" % r.get("err")
        top = c["shape"].split("/")[0]
        var = c["shape"].split("/")[2] if c["shape"].count("/") >= 2 else c["shape"]
        sig.add((c["kind"], c["prov"], c["allow"], o.get("scheme"), top, var, out))
        shapes[top] = shapes.get(top, 0) + 1
        outcomes[out] = outcomes.get(out, 0) + 1
    # accepted RP IDs that are not in canonical (lower-case ASCII) form: the library decides "public suffix" on the bytes
    # as given, so e.g. an Android origin with RP ID "CO.UK" or a Unicode-form IDN suffix is accepted (DESIGN C01, Partial)
    noncanon = [(c, o) for c, o in kept if "ok" in o.get("res", {}) and
                (lambda r: any(x >= 128 or 65 <= x <= 90 for x in r))(bytes.fromhex(o["res"]["ok"]))]
    n_lem = common.count_lemmas(COQ_FILES)
    run.cov.update({
        "accepted_noncanonical_rp_ids": len(noncanon),
        "accepted_noncanonical_example": noncanon[0][0] if noncanon else None,
        "obligations": n_lem, "discharged": n_lem if proof_tie is None else 0,
        "checker_cmd": "make -C coq theories/Props/C01.vo (coqc 8.16.1, full .vo build, on top of C10's table_is_list) + hygiene gate + Print Assumptions",
        "trusted_base": ["Coq 8.16.1 kernel, vm_compute", "C10's trusted base (translators psl_table/psl_rules, PslSpec as the algorithm)",
                         "url crate: scheme()/domain() of the parsed origin are inputs of the model", "idna crate: its verdict is an input bit (the soundness theorems assume nothing about it)",
                         "correspondence harness (pkharness rpid) + driver/c01.py",
                         "translators/client_skeleton.py (source order of Client::register/authenticate and RpIdVerifier; the refusal theorem is about Auth/Client.v, tied to the code by the client-level correspondence of C02/C03)",
                         "Print Assumptions: %d closed under the global context, axioms: %s" % (assum["closed"], assum["with_allowed_axioms"] or "none")],
        "theorems": thms,
        "evaluations": len(terms), "distinct_nontrivial": len(sig),
        "rule": "hosts from rules of the shipped list (suffix, registrable, +1, +2 labels, 'evil'+registrable; wildcard, exception, IDN punycode and Unicode) x "
                "RP ID in {absent, host, every label suffix, public suffix, TLD, minus/plus one char, inside-label cut, char-level suffix that is registrable, "
                "unrelated, empty, leading/trailing dot, upper case} x {https, port+userinfo, other schemes, android}; localhost family x allow x http/https; "
                "IP literals, single-label, odd URLs and android hosts; four providers on a fixed family; Client::register end to end on every third case; "
                "distinct = (origin kind, provider, allow, scheme, family, variant, outcome)",
        "samples": [terms[0][:300], terms[len(terms) // 2][:300], terms[-1][:300]],
        "shape_histogram": shapes, "outcome_histogram": outcomes, "urls_not_parsed_by_url_crate": unparsed,
        "e2e_runs": sum(1 for c, o in kept if o.get("e2e")), "neighbour_search_cases": searched,
        "model_disagreements": len(res["agree"]), "oracle_failures": len(res["oracle"]), "crashes": len(crashed),
    })
    run.assumptions += ["origins are what url::Url::parse makes of the URL text", "Android hosts are used as given (not canonicalised by the library)",
                        "public suffix decided on idna::domain_to_ascii of the effective RP ID (fix 1b1a1a4); the oracle uses an independently computed canonical form (Python punycode + lower-casing)"]


def corpus():
    d = os.path.join(common.VERIF, "corpus", PROP)
    out = []
    if os.path.isdir(d):
        for f in sorted(os.listdir(d)):
            c = json.load(open(os.path.join(d, f)))
            for x in (c if isinstance(c, list) else [c]):
                x.setdefault("shape", "corpus"); x.setdefault("e2e", True); x.setdefault("allow", False); x.setdefault("prov", "default")
                out.append(x)
    return out


def replay(payload):
    binary = common.harness_build("rpid")
    c = payload["case"]
    o = common.harness_one(binary, c)
    print(json.dumps(o)[:2000])
    if o.get("parse") is True:
        print(explain(term(c, o)))
    return 0
