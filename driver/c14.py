"""C14 - WebAuthn JSON parses leniently, re-parses when emitted, client data keeps order
(passkey-types/src/utils/{bytes,encoding,serde}.rs, webauthn.rs, webauthn/**).

Documents are generated from the schema the translator reads out of the Rust definitions
(translators/json_schema.py): every optional member present/absent, every binary member in every
presentation, numeric members as number / string / float, unknown members at every position of every
object, unknown strings for every enumeration, malformed mutations (model correspondence only).
The JSON text goes to the real code (harness bin `json`), the JSON *value* serde_json reads from it
goes to the model (Wire/Json.v); both results are compared inside Coq (Wire/JsonCheck.v)."""
import base64, itertools, json, os, re, sys
from decimal import Decimal
import common
from common import blit

sys.path.insert(0, os.path.join(common.VERIF, "translators"))
import json_schema

PROP = "C14"
PREAMBLE = ("From Coq Require Import ZArith.\n"
            "From PK Require Import Lib.Bytes Lib.Check Wire.Json Wire.gen.JsonSchema Wire.JsonCheck.\n"
            "Open Scope N_scope.\n")
COQ_TARGETS = ["theories/Wire/JsonCheck.vo", "theories/Wire/JsonFacts.vo", "theories/Wire/JsonLaws.vo"]
HARNESS_BINS = ["json", "ceremony"]
COQ_FILES = ["theories/Lib/Base64.v", "theories/Lib/Base64Facts.v", "theories/Wire/Json.v",
             "theories/Wire/JsonFacts.v", "theories/Wire/JsonLaws.v", "theories/Props/C14.v"]

# what the WebAuthn specification prescribes for CollectedClientData.type, by Rust variant
CD_TYPE_SPEC = {"Create": "webauthn.create", "Get": "webauthn.get", "PaymentGet": "payment.get"}
FIXED_CD = ["type", "challenge", "origin", "crossOrigin"]

# ------------------------------------------------------------------------------------------------
# JSON values (AST): ("null",) ("bool",b) ("int",n) ("dec",m,e,text) ("str",s) ("arr",[..]) ("obj",[(k,v)..])

NULL = ("null",)
def B(b): return ("bool", bool(b))
def I(n): return ("int", int(n))
def S(s): return ("str", s)
def A(l): return ("arr", list(l))
def O(ms): return ("obj", list(ms))


def norm_dec(m, e):
    if m == 0:
        return 0, 0
    while m % 10 == 0:
        m //= 10; e += 1
    return m, e


def num(text):
    """a JSON number literal, classified the way serde_json does"""
    if re.fullmatch(r"-?(0|[1-9][0-9]*)", text) and text != "-0":
        n = int(text)
        if -(1 << 63) <= n < (1 << 64):
            return ("int", n)
    d = Decimal(text)
    sign, digits, exp = d.as_tuple()
    m = int("".join(map(str, digits))) * (-1 if sign else 1)
    m, e = norm_dec(m, exp)
    return ("dec", m, e, text)


def to_text(v):
    t = v[0]
    if t == "null": return "null"
    if t == "bool": return "true" if v[1] else "false"
    if t == "int": return str(v[1])
    if t == "dec": return v[3]
    if t == "str": return json.dumps(v[1])
    if t == "arr": return "[" + ",".join(to_text(x) for x in v[1]) + "]"
    if t == "obj": return "{" + ",".join(json.dumps(k) + ":" + to_text(x) for k, x in v[1]) + "}"
    raise ValueError(v)


class Printer:
    """AST / descriptions -> Coq terms; strings of the schema are referred to by their compiled names"""
    def __init__(self, names):
        self.names = dict(names)
        self.extra = {}
    def intern(self, s):
        nm = "xs_%d" % len(self.extra)
        self.extra[s] = nm; self.names[s] = nm
    def preamble(self):
        return PREAMBLE + "".join("Definition %s : bytes := %s.\n" % (nm, blit(s.encode())) for s, nm in self.extra.items())
    def s(self, x):
        return self.names.get(x) or blit(x.encode())
    def z(self, n):
        return "(%d)" % n if n < 0 else str(n)
    def j(self, v):
        t = v[0]
        if t == "null": return "JNull"
        if t == "bool": return "(JBool %s)" % ("true" if v[1] else "false")
        if t == "int": return "(JInt %s)" % self.z(v[1])
        if t == "dec": return "(JDec %s %s)" % (self.z(v[1]), self.z(v[2]))
        if t == "str": return "(JStr %s)" % self.s(v[1])
        if t == "arr": return "(JArr [%s])" % ";".join(self.j(x) for x in v[1])
        if t == "obj": return "(JObj %s)" % self.members(v[1])
        raise ValueError(v)
    def members(self, ms):
        return "[%s]" % ";".join("(%s,%s)" % (self.s(k), self.j(x)) for k, x in ms)
    def opt(self, o, f):
        return "None" if o is None else "(Some %s)" % f(o)


def tree_ast(t):
    """the harness's transport form of the tree serde_json read -> AST"""
    if t is None: return NULL
    if isinstance(t, bool): return B(t)
    if isinstance(t, str): return S(t)
    if isinstance(t, list): return A(tree_ast(x) for x in t)
    if "i" in t: return I(int(t["i"]))
    if "f" in t:
        d = Decimal(t["f"])
        sign, digits, exp = d.as_tuple()
        m, e = norm_dec(int("".join(map(str, digits))) * (-1 if sign else 1), exp)
        return ("dec", m, e, t["f"])
    return O((kv[0], tree_ast(kv[1])) for kv in t["o"])


def ast_tree(v):
    """AST -> transport form (input of cd_emit)"""
    t = v[0]
    if t == "null": return None
    if t in ("bool", "str"): return v[1]
    if t == "int": return {"i": str(v[1])}
    if t == "dec": return {"f": v[3]}
    if t == "arr": return [ast_tree(x) for x in v[1]]
    return {"o": [[k, ast_tree(x)] for k, x in v[1]]}


def same_value(a, b):
    """AST equality up to the literal text of decimals"""
    if a[0] != b[0]: return False
    if a[0] == "dec": return a[1:3] == b[1:3] or float(a[3]) == float(b[3])
    if a[0] == "arr": return len(a[1]) == len(b[1]) and all(same_value(x, y) for x, y in zip(a[1], b[1]))
    if a[0] == "obj":
        return len(a[1]) == len(b[1]) and all(k == k2 and same_value(x, y) for (k, x), (k2, y) in zip(a[1], b[1]))
    return a == b


# ------------------------------------------------------------------------------------------------
# schema

SCHEMA_CACHE = os.path.join(common.BUILD, "c14-schema.json")


class Schema:
    """the struct / enum tables the translator reads from the tree; when the translator cannot read the tree any more
    (stale=True) the tables of the last successful run are used, so that documents can still be generated and the
    oracle can look for a failing input on the code as it is now"""
    def __init__(self, stale=False):
        self.stale = stale
        if stale:
            if not os.path.exists(SCHEMA_CACHE):
                raise common.Tie("translator json_schema cannot read the current source and there is no earlier schema to generate documents from")
            self.sc = json.load(open(SCHEMA_CACHE))
        else:
            try:
                self.sc = json_schema.load(os.path.join(common.REPO, "passkey-types/src"))
            except SystemExit as e:
                raise common.Tie(str(e))
            os.makedirs(common.BUILD, exist_ok=True)
            json.dump(self.sc, open(SCHEMA_CACHE + ".tmp", "w"))
            os.replace(SCHEMA_CACHE + ".tmp", SCHEMA_CACHE)
        self.structs, self.enums, self.aliases = self.sc["structs"], self.sc["enums"], self.sc["aliases"]
        self.names = json_schema.string_names(self.sc)

    def top_kind(self, name):
        if name in self.aliases:
            g, a = self.aliases[name]
            return ("ref", g, [("ref", a)])
        if name == "Bytes":
            return ("bytes",)
        return ("ref", name)

    def coq_ty(self, name):
        if name == "Bytes": return "TBytes"
        if name.startswith("CollectedClientData:"):
            return "(s_CollectedClientData E_%s)" % name.split(":")[1]
        return "r_" + name

    def resolve(self, kind, env):
        while kind[0] == "param":
            kind = env[kind[1]]
        return kind

    def struct_env(self, kind, env):
        s = self.structs[kind[1]]
        args = kind[2] if len(kind) > 2 else []
        return s, dict(zip(s["generics"], [self.resolve(a, env) for a in args]))

    # ---- harness description -> Coq rv term (cross-checks the harness's field lists against the schema)
    def rv(self, P, kind, d, env=None):
        env = env or {}
        kind = self.resolve(kind, env)
        k = kind[0]
        if k == "bytes": return "(RBytes %s)" % blit(bytes.fromhex(d["B"]))
        if k == "str": return "(RStr %s)" % P.s(d["T"])
        if k == "bool": return "(RBool %s)" % ("true" if d["b"] else "false")
        if k in ("i64", "u32", "alg"): return "(RInt %s)" % P.z(int(d["I"]))
        if k == "unit": return "RUnit"
        if k == "json": return "(RJson %s)" % P.j(tree_ast(d["J"]))
        if k == "opt": return "RNone" if d is None else "(RSome %s)" % self.rv(P, kind[1], d["O"], env)
        if k == "vec": return "(RList [%s])" % ";".join(self.rv(P, kind[1], x, env) for x in d["L"])
        if k in ("hashmap", "indexmap"):
            return "(RMap [%s])" % ";".join("(%s,%s)" % (P.s(kv[0]), self.rv(P, kind[1], kv[1], env)) for kv in d["M"])
        if k == "ref" and kind[1] in self.enums:
            vs = [v["rust"] for v in self.enums[kind[1]]["variants"]]
            if d["E"] not in vs:
                raise common.Tie("harness reports variant %s of %s, unknown to the translator" % (d["E"], kind[1]))
            return "(REnum %d)" % vs.index(d["E"])
        if k == "ref":
            s, env2 = self.struct_env(kind, env)
            got = dict((f[0], f[1]) for f in d["S"])
            want = [f["rust"] for f in s["fields"]]
            if sorted(got) != sorted(want):
                raise common.Tie("field list of %s differs between the harness (%s) and the translator (%s)" % (kind[1], sorted(got), want))
            # declaration order is the translator's (the harness describes fields by name)
            return "(RStruct [%s])" % ";".join(self.rv(P, f["kind"], got[f["rust"]], env2) for f in s["fields"])
        raise ValueError(kind)


def client_data_rv(sch, P, e, d):
    """description of a CollectedClientData<E> -> rv term (extra_data by E)"""
    f = dict((x[0], x[1]) for x in d["S"])
    if sorted(x[0] for x in d["S"]) != sorted(x["rust"] for x in sch.structs["CollectedClientData"]["fields"]):
        raise common.Tie("field list of CollectedClientData differs between the harness and the translator")
    vs = [v["rust"] for v in sch.enums["ClientDataType"]["variants"]]
    m = lambda dd: "(RMap [%s])" % ";".join("(%s,(RJson %s))" % (P.s(kv[0]), P.j(tree_ast(kv[1]["J"]))) for kv in dd["M"])
    if e == "unit": extra = "RUnit"
    elif e == "map": extra = m(f["extra_data"])
    else: extra = "(RStruct [(RStr %s)])" % P.s(f["extra_data"]["M"][0][1]["J"])
    cross = "RNone" if f["cross_origin"] is None else "(RSome (RBool %s))" % ("true" if f["cross_origin"]["O"]["b"] else "false")
    return "(RStruct [(REnum %d);(RStr %s);(RStr %s);%s;%s;%s])" % (
        vs.index(f["ty"]["E"]), P.s(f["challenge"]["T"]), P.s(f["origin"]["T"]), cross, extra, m(f["unknown_keys"]))


# ------------------------------------------------------------------------------------------------
# generators (schema directed)

STR_POOL = ["", "a", "example.com", "Exämple ✓", "line\nbreak \"q\" \\", "user@example.com", "R L", "https://example.com:8443"]
UNKNOWN_KEYS = ["zzz", "Type", "x-unknown", "", "rpID", "publickey", "ü"]
UNKNOWN_ENUM = ["zzz", "", "Required", "public_key", "USB", "hybrid ", "none\u0000"]


def rbytes(rng, n=None):
    if n is None:
        n = rng.choice([0, 1, 2, 3, 4, 5, 16, 31, 32, 33])
    style = rng.randrange(4)
    if style == 0: return bytes([0xfb, 0xff, 0xbf, 0xfe, 0xff][i % 5] for i in range(n))   # '+' '/' '-' '_' heavy
    if style == 1: return bytes(n)
    return bytes(rng.randrange(256) for _ in range(n))


def bytes_arr(b):
    return A(I(x) for x in b)


def b64(b, url, pad):
    s = (base64.urlsafe_b64encode(b) if url else base64.b64encode(b)).decode()
    return s if pad else s.rstrip("=")


BYTES_PRESENTATIONS = ["array", "b64url", "b64url_padded", "b64", "b64_padded"]
def present_bytes(b, how):
    if how == "array": return bytes_arr(b)
    return S(b64(b, how.startswith("b64url"), how.endswith("padded")))


def junk(rng, depth=0):
    """an arbitrary JSON value (unknown members, client-data extras, mutations)"""
    r = rng.randrange(12 if depth < 3 else 8)
    if r == 0: return NULL
    if r == 1: return B(rng.random() < 0.5)
    if r == 2: return I(rng.choice([0, 1, -1, 255, 256, 1 << 32, (1 << 64) - 1, -(1 << 63)]))
    if r == 3: return num(rng.choice(["1.5", "-2.25", "1e-7", "0.125", "1e21"]))
    if r in (4, 5): return S(rng.choice(STR_POOL + UNKNOWN_ENUM))
    if r == 6: return A([])
    if r == 7: return O([])
    if r in (8, 9): return A(junk(rng, depth + 1) for _ in range(rng.randrange(1, 4)))
    ks = rng.sample(["z", "a", "m", "type", "k", "nested", "b"], rng.randrange(1, 4))
    return O((k, junk(rng, depth + 1)) for k in ks)


class Gen:
    def __init__(self, sch, rng):
        self.sch, self.rng = sch, rng

    def value(self, kind, env, present=None, dw=None, depth=0):
        """canonical document (arrays of numbers, plain numbers, known enum strings) for a value of `kind`;
        `present`: for the struct at this level, which optional members to write (None = random)"""
        sch, rng = self.sch, self.rng
        kind = sch.resolve(kind, env)
        k = kind[0]
        if k == "bytes": return bytes_arr(rbytes(rng))
        if k == "str": return S(rng.choice(STR_POOL))
        if k == "bool": return B(rng.random() < 0.5)
        if k == "i64": return I(rng.choice([-7, -257, 0, 1, -(1 << 63), (1 << 63) - 1, rng.randrange(-70000, 70000)]))
        if k == "u32": return I(rng.choice([0, 1, 60000, 1800000, (1 << 31), (1 << 32) - 1, rng.randrange(1 << 32)]))
        if k == "alg": return I(rng.choice([-7, -257, -8, -35, -36, -37, -65535, 1]))
        if k == "json": return junk(rng, 1)
        if k == "unit": return NULL
        if k == "opt": return self.value(kind[1], env, None, dw, depth)
        if k == "vec": return A(self.value(kind[1], env, None, None, depth + 1) for _ in range(rng.choice([0, 1, 2, 3])))
        if k in ("hashmap", "indexmap"):
            return O((b64(rbytes(rng, rng.choice([1, 16])), True, False), self.value(kind[1], env, None, None, depth + 1))
                     for _ in range(rng.choice([0, 1, 2])))
        if kind[1] in sch.enums:
            return S(rng.choice(sch.enums[kind[1]]["variants"])["json"])
        s, env2 = sch.struct_env(kind, env)
        ms = []
        for i, f in enumerate(s["fields"]):
            if f["flatten"]:
                continue
            optional = f["default"] or (f["kind"][0] == "opt" and f["de_with"] is None)
            if optional and not (present[i] if present is not None else rng.random() < 0.6):
                continue
            ms.append((f["json"], self.value(f["kind"], env2, None, f["de_with"], depth + 1)))
        return O(ms)

    def optional_fields(self, name):
        s = self.sch.structs[name]
        return [i for i, f in enumerate(s["fields"]) if not f["flatten"] and (f["default"] or (f["kind"][0] == "opt" and f["de_with"] is None))]

    def all_presence(self, name):
        """one canonical document per subset of the optional members of struct `name`"""
        s = self.sch.structs[name]
        opt = self.optional_fields(name)
        for mask in itertools.product([False, True], repeat=len(opt)):
            present = {i: True for i in range(len(s["fields"]))}
            present.update(dict(zip(opt, mask)))
            yield mask, self.value(("ref", name), {}, present)

    # ---- all Option shapes of a Rust value, as harness descriptions (for emitted credentials)
    def shapes(self, kind, env):
        sch, rng = self.sch, self.rng
        kind = sch.resolve(kind, env)
        k = kind[0]
        if k == "bytes": return [lambda: {"B": rbytes(rng).hex()}]
        if k == "str": return [lambda: {"T": rng.choice(STR_POOL)}]
        if k == "bool": return [lambda: {"b": rng.random() < 0.5}]
        if k in ("i64", "u32", "alg"):
            return [lambda: {"I": str(rng.choice([-7, -257, 0, -(1 << 63), (1 << 63) - 1, rng.randrange(-70000, 70000)]))}]
        if k == "opt":
            return [lambda: None] + [(lambda f=f: {"O": f()}) for f in self.shapes(kind[1], env)]
        if k == "vec":
            inner = self.shapes(kind[1], env)
            return [lambda: {"L": [rng.choice(inner)() for _ in range(rng.choice([0, 1, 2, 5]))]}]
        if kind[1] in sch.enums:
            vs = sch.enums[kind[1]]["variants"]
            return [lambda: {"E": rng.choice(vs)["rust"]}]
        s, env2 = sch.struct_env(kind, env)
        per_field = [self.shapes(f["kind"], env2) for f in s["fields"]]
        out = []
        for combo in itertools.product(*per_field):
            out.append(lambda combo=combo: {"S": [[f["rust"], g()] for f, g in zip(s["fields"], combo)]})
        return out


# ---- positions of a document, found by walking it along the schema

def walk(sch, kind, v, env, path, ctx):
    """yields (event, path, info).  ctx: {"list": path of the enclosing lenient-list element or None,
    "dw": de_with of the member, "default": member has #[serde(default)], "struct": owner}"""
    kind = sch.resolve(kind, env)
    k = kind[0]
    # NOTE: what must be lenient is decided by the TYPE of the member (the property: every timeout, every binary member,
    # every enumeration of the request options), never by the serde attribute the member carries now - otherwise a
    # dropped attribute would silently drop its own test
    if ctx.get("dw") == "maybe_stringified" or k == "u32" or (k == "opt" and sch.resolve(kind[1], env)[0] == "u32"):
        yield ("timeout", path, ctx); return
    if k == "bytes":
        yield ("bytes", path, ctx)
    elif k == "alg":
        yield ("alg", path, ctx)
    elif k == "opt":
        if v[0] != "null":
            yield from walk(sch, kind[1], v, env, path, ctx)
    elif k == "vec":
        if v[0] == "arr":
            lenient = True
            for i, x in enumerate(v[1]):
                c = {"list": path + [i] if lenient else ctx.get("list"), "dw": None, "elem_lenient": lenient}
                yield from walk(sch, kind[1], x, env, path + [i], c)
    elif k in ("hashmap", "indexmap"):
        if v[0] == "obj":
            for i, (_, x) in enumerate(v[1]):
                yield from walk(sch, kind[1], x, env, path + [i], {"list": ctx.get("list"), "dw": None})
    elif k == "ref" and kind[1] in sch.enums:
        yield ("enum", path, dict(ctx, enum=kind[1]))
    elif k == "ref":
        if v[0] != "obj":
            return
        s, env2 = sch.struct_env(kind, env)
        yield ("object", path, dict(ctx, struct=kind[1]))
        for i, (key, x) in enumerate(v[1]):
            for f in s["fields"]:
                if not f["flatten"] and (f["json"] == key or key in f["aliases"]):
                    c = {"list": ctx.get("list"), "dw": f["de_with"], "default": f["default"], "field": f, "owner": kind[1]}
                    yield from walk(sch, f["kind"], x, env2, path + [i], c)
                    break


def get_at(v, path):
    for i in path:
        v = v[1][i][1] if v[0] == "obj" else v[1][i]
    return v


def edit_at(v, path, f):
    """f(node) -> replacement node, or None to delete the node from its parent"""
    if not path:
        return f(v)
    i = path[0]
    items = list(v[1])
    if v[0] == "obj":
        k, x = items[i]
        r = edit_at(x, path[1:], f)
        if r is None:
            if len(path) == 1: del items[i]
            else: raise ValueError("delete below")
        else:
            items[i] = (k, r)
        return ("obj", items)
    x = items[i]
    r = edit_at(x, path[1:], f)
    if r is None:
        del items[i]
    else:
        items[i] = r
    return ("arr", items)


def insert_member(v, path, idx, k, x):
    def f(node):
        ms = list(node[1]); ms.insert(idx, (k, x)); return ("obj", ms)
    return edit_at(v, path, f)


def bytes_of_node(node):
    if node[0] == "arr":
        return bytes(x[1] for x in node[1])
    s = node[1]
    return base64.urlsafe_b64decode(s + "=" * (-len(s) % 4)) if ("-" in s or "_" in s) else base64.b64decode(s + "=" * (-len(s) % 4))


def int_forms(n):
    """presentations of the integer n that the property says are equivalent (number, string, integral float)"""
    out = [S(str(n)), num("%d.0" % n), S("%d.0" % n)]
    if n >= 0:
        out.append(S("+%d" % n))
    if n != 0 and n % 10 == 0 and abs(n) < 10 ** 15:
        m, e = norm_dec(n, 0)
        out += [num("%de%d" % (m, e)), S("%dE+%d" % (m, e))]
    if abs(n) < 10 ** 12:
        out.append(num("%d.00e0" % n))
    return out


def variants(sch, rng, kind, base, exhaustive):
    """(tag, document) pairs that must parse to the same value as `base` (a canonical document)"""
    out = []
    evs = list(walk(sch, kind, base, {}, [], {}))
    for ev, path, ctx in evs:
        node = get_at(base, path)
        if ev == "bytes":
            b = bytes_of_node(node)
            for how in BYTES_PRESENTATIONS[1:]:
                out.append(("bytes:" + how, edit_at(base, path, lambda _n, b=b, how=how: present_bytes(b, how))))
        elif ev in ("timeout", "alg") and node[0] == "int":
            for j, form in enumerate(int_forms(node[1])):
                out.append(("%s:form%d" % (ev, j), edit_at(base, path, lambda _n, form=form: form)))
        elif ev == "object":
            n = len(node[1])
            for idx in (range(n + 1) if exhaustive else [rng.randrange(n + 1)]):
                out.append(("inject:%s@%d/%d" % (ctx["struct"], idx, n),
                            insert_member(base, path, idx, rng.choice(UNKNOWN_KEYS), junk(rng))))
    return out


def unknown_enum_pairs(sch, rng, kind, base):
    """(tag, reference document, document with an unknown enumeration string / algorithm): the two must parse
    to the same value.  What the reference is says what the code does with the unknown value."""
    out, lists = [], {}
    for ev, path, ctx in walk(sch, kind, base, {}, [], {}):
        if ev == "enum":
            unk = S(rng.choice(UNKNOWN_ENUM))
            e = sch.enums[ctx["enum"]]
            var = edit_at(base, path, lambda _n: unk)
            if ctx.get("elem_lenient"):
                out.append(("enum-dropped:%s" % ctx["enum"], edit_at(base, path, lambda _n: None), var))
            elif ctx.get("field") is not None:
                f = ctx["field"]
                if f["kind"][0] == "opt":
                    if f["default"]:
                        out.append(("enum-none:%s.%s" % (ctx["owner"], f["rust"]), edit_at(base, path, lambda _n: None), var))
                    out.append(("enum-none-null:%s.%s" % (ctx["owner"], f["rust"]), edit_at(base, path, lambda _n: NULL), var))
                else:
                    if e.get("default") is None:
                        continue
                    dflt = S(e["variants"][e["default"]]["json"])
                    out.append(("enum-default:%s.%s" % (ctx["owner"], f["rust"]), edit_at(base, path, lambda _n: dflt), var))
                    if f["default"]:
                        out.append(("enum-absent:%s.%s" % (ctx["owner"], f["rust"]), edit_at(base, path, lambda _n: None), var))
        elif ev == "alg" and ctx.get("list") is not None:
            unk = rng.choice([I(-1), I(-2), S("-1"), num("-1.0"), I(999), I(-65536), I(1 << 40)])
            out.append(("alg-dropped", edit_at(base, ctx["list"], lambda _n: None), edit_at(base, path, lambda _n: unk)))
            lists.setdefault(tuple(ctx["list"][:-1]), ("alg", list(path[len(ctx["list"]):])))
        if ev == "enum" and ctx.get("elem_lenient"):
            lists.setdefault(tuple(path[:-1]), ("enum", []))
    # a list in which EVERY entry is unknown parses like the empty list (entries are dropped one by one, nothing is special
    # about dropping the last one)
    for lp, (what, tail) in lists.items():
        lp = list(lp)
        node = get_at(base, lp)
        if node[0] != "arr" or not node[1]:
            continue
        var = base
        for i in range(len(node[1])):
            unk = S(rng.choice(UNKNOWN_ENUM)) if what == "enum" else rng.choice([I(-1), I(999), I(1 << 40)])
            var = edit_at(var, lp + [i] + tail, lambda _n, unk=unk: unk)
        out.append(("all-entries-unknown:%s" % what, edit_at(base, lp, lambda _n: A([])), var))
    return out


MUTANTS = [NULL, B(True), B(False), I(0), I(5), I(-1), I(256), I(1 << 32), num("1.5"), num("5.0"), num("-0"), S(""), S("zzz"), S("AA"), S("5"),
           S("public-key"), S("required"), A([]), O([]), A([I(1)]), A([I(1), S("x")]), A([S("x"), I(1)]), A([A([])]),
           O([("a", I(1))]), O([("required", NULL)]), O([("usb", NULL)]), O([("first", S("AA"))]), O([("first", O([]))]),
           O([("prf", I(5))]), O([("prf", I(5)), ("zzz", I(1))]), O([("zzz", I(1)), ("prf", I(5))]),
           O([("eval", O([]))]), O([("credProps", A([]))]), O([("credProps", I(5))]), A([I(5), NULL]), A([B(True)]),
           O([("type", S("public-key")), ("id", S("AA"))]), O([("type", I(5)), ("id", A([I(0)]))]), O([("id", S("AA"))])]


def all_paths(v, path=()):
    yield list(path)
    if v[0] == "arr":
        for i, x in enumerate(v[1]):
            yield from all_paths(x, path + (i,))
    elif v[0] == "obj":
        for i, (_, x) in enumerate(v[1]):
            yield from all_paths(x, path + (i,))


def mutate(sch, rng, kind, base):
    """a (usually malformed) neighbour of a canonical document: model correspondence only"""
    paths = [p for p in all_paths(base) if p]
    r = rng.random()
    if not paths:
        return "replace-root", rng.choice(MUTANTS)
    p = rng.choice(paths)
    if r < 0.55:
        m = rng.choice(MUTANTS) if rng.random() < 0.8 else junk(rng)
        return "replace", edit_at(base, p, lambda _n: m)
    if r < 0.65:
        return "delete", edit_at(base, p, lambda _n: None)
    if r < 0.8:
        # duplicate a member of an object
        objs = [q for q in all_paths(base) if get_at(base, q)[0] == "obj" and get_at(base, q)[1]]
        q = rng.choice(objs)
        ms = get_at(base, q)[1]
        k, x = rng.choice(ms)
        return "duplicate", insert_member(base, q, rng.randrange(len(ms) + 1), k, x)
    if r < 0.9:
        # a struct written as an array of its member values (serde_json accepts that form)
        objs = [(q, ctx) for ev, q, ctx in walk(sch, kind, base, {}, [], {}) if ev == "object"]
        q, ctx = rng.choice(objs)
        s = sch.structs[ctx["struct"]]
        node = get_at(base, q)
        d = dict(node[1])
        vals = []
        for f in s["fields"]:
            if f["json"] in d: vals.append(d[f["json"]])
            else: break
        if rng.random() < 0.3: vals.append(NULL)
        return "array-form", edit_at(base, q, lambda _n: A(vals)) if q else A(vals)
    # the externally tagged form of an enum
    ens = [q for ev, q, ctx in walk(sch, kind, base, {}, [], {}) if ev == "enum"]
    if not ens:
        return "replace", edit_at(base, p, lambda _n: NULL)
    q = rng.choice(ens)
    node = get_at(base, q)
    return "enum-tagged", edit_at(base, q, lambda n: O([(n[1], rng.choice([NULL, NULL, I(1)]))] + ([("x", NULL)] if rng.random() < 0.2 else [])))


# ---- fixed tables

def timeout_literals():
    P2 = lambda k: str(1 << k)
    nums = ["0", "1", "5", "1800", "60000", str((1 << 31) - 1), P2(31), str((1 << 32) - 1), P2(32), str((1 << 32) + 1), P2(53),
            str((1 << 63) - 1), P2(63), str((1 << 64) - 1), P2(64), "100000000000000000000", "-1", "-0", "-2147483648",
            str(-(1 << 63)), str(-(1 << 63) - 1),
            "0.0", "0.5", "-0.5", "-0.0", "0.999999999999999", "1.5", "-1.5", "1800.1234", "1800000.0", "4294967295.0", "4294967295.5",
            "4294967295.99999", "4294967296.0", "1e3", "1E3", "1e+3", "1.5e3", "15e-1", "1e-7", "1.0e-308", "1e-320", "4.9e-324",
            "1e308", "1.7976931348623157e308", "1e19", "9.3e18", "-9.3e18", "1e15", "123456789012345e-5", "42949672950e-1",
            "0e0", "0e999", "0.0e-999", "1e-999", "4294967295e0", "0.4294967295e10", "429496729.5e1", "429496729.6e1"]
    strs = ["+5", "-5", "05", "007", "", " 5", "5 ", "5.", ".5", ".", "+.5", "-.5", "1e", "1e+", "e5", "1.e5", "1_0", "0x10", "١",
            "inf", "Inf", "INF", "infinity", "-Infinity", "+inf", "nan", "NaN", "-nan", "infinit", "nanx", "in", "1e999", "-1e999",
            "1e-999", "1e400", "1e401", "1" + "0" * 400, "0." + "0" * 400 + "1", "1e99999999999999999999", "1e-99999999999999999999",
            "0e99999999999999999999", "--5", "+-5", "5e5.0", "5e5e5", "１", "1,5", "1 000", "+", "-", "+0", "-0", "00", "4294967295",
            "4294967296", "+4294967295", "04294967295", "000000000000000000000000000001", "4294967295.", "4294967296.", "1e+", "1e-", "1E5",
            "1e05", "1e+05", ".5e1", "5.e-1", "0.1e1", "5e", "5e+", ".e5", "+e5", "Infinity", "INFINITY", "iNf", "NAN", "+nan", "+NaN", "nan ", " nan"]
    return nums, strs


def alg_literals():
    vals = [-7, -257, -8, -35, -65535, -65536, 0, 34, 35, -1, -2, 1, 7, 8, 9, 24, -47, -48]
    out = []
    for n in vals:
        out += [num(str(n)), S(str(n)), num("%d.0" % n), S("%d.0" % n), num("%d.9" % n), S("%d.5" % n), num("%de0" % n)]
    out += [S("+1"), S("+7"), S("-07"), S("- 7"), S(""), S("-"), S("ES256"), NULL, B(True), A([]), A([I(-7)]), O([]), O([("a", I(1))]),
            I(1 << 63), I((1 << 64) - 1), I(-(1 << 63)), num(str(1 << 64)), S(str(1 << 63)), S(str(-(1 << 63) - 1)), S("1e19"), S("-1e19"),
            S("nan"), S("inf"), S("0.0"), S("-0.0"), num("-0"), num("-0.7"), num("-7e0"), num("-70e-1"), S("-70e-1")]
    return out


def bytes_documents(rng, thorough):
    docs = []
    lens = list(range(0, 21)) + [31, 32, 33, 64, 65] + ([rng.randrange(200) for _ in range(200)] if thorough else [])
    for n in lens:
        b = rbytes(rng, n)
        docs.append(("same", b))
    mal = [S("A"), S("AAAAA"), S("-/8"), S("+_8"), S("A=A"), S("===="), S("="), S("QR"), S("QQ="), S("QR=="), S("+/8="), S("-_8=="), S("AA=A"),
           S(" AA"), S("AA "), S("AA\n"), S("A A"), S("AA.A"), S("ää"), S("AA" + "=" * 9), S("QUJD"), S("QUJDRA"), S("QUJDRB"),
           S("QUI"), S("QUJ"), S("+/+/"), S("-_-_"), S("+/-_"), S("+A"), S("-A"), S("/w"), S("_w"), S("_x"), S("/x"),
           A([I(256)]), A([I(-1)]), A([num("1.0")]), A([num("1e0")]), A([S("1")]), A([NULL]), A([A([I(1)])]), A([I(1), A([I(2)])]),
           A([B(True)]), A([I(1), I(2), S("x")]), A([S("x"), I(1)]), A([num("-0")]), A([I(1 << 64 - 1)]), O([]), O([("a", I(1))]), NULL,
           B(True), I(5), num("5.5"), A([O([])]), A([I(0), I(255)])]
    return docs, mal


def cd_members(rng, collide):
    ks = rng.sample(["z", "androidPackageName", "a", "m", "tokenBinding", "payment", "other_keys_can_be_added_here", "b", "topOrigin"], rng.randrange(0, 4))
    if collide:
        ks.insert(rng.randrange(len(ks) + 1), rng.choice(FIXED_CD))
    ms = []
    for k in ks:
        r = rng.random()
        if k == "payment" or r < 0.3:
            v = O([("rpId", S("localhost")), ("topOrigin", S("http://localhost:4000")),
                   ("total", O([("value", S("1.01")), ("currency", S("APT"))])), ("list", A([I(1), O([("k", NULL)]), A([])]))][: rng.randrange(1, 5)])
            if rng.random() < 0.5:
                v = O(list(reversed(v[1])))
        else:
            v = junk(rng, 1)
        ms.append((k, v))
    return ms


def dedupe_nested(v):
    """the driver builds extras through serde_json::Value: one member per key"""
    if v[0] == "arr": return A(dedupe_nested(x) for x in v[1])
    if v[0] == "obj":
        out = []
        for k, x in v[1]:
            x = dedupe_nested(x)
            for i, (k2, _) in enumerate(out):
                if k2 == k:
                    out[i] = (k, x); break
            else:
                out.append((k, x))
        return O(out)
    return v


# ------------------------------------------------------------------------------------------------

def corpus():
    d = os.path.join(common.VERIF, "corpus", PROP)
    out = []
    if os.path.isdir(d):
        for f in sorted(os.listdir(d)):
            if f.endswith(".json"):
                c = json.load(open(os.path.join(d, f)))
                c["_file"] = f
                out.append(c)
    return out


def _t(label, t0=[None]):
    import time
    if os.environ.get("PK_C14_TIMING"):
        now = time.time()
        print("[c14 %6.1fs] %s" % (0 if t0[0] is None else now - t0[0], label), flush=True)
        if t0[0] is None: t0[0] = now


def client_data_through_client(run):
    """the client data the CLIENT emits (Client::register / authenticate with DefaultClientDataWithExtra): member order in the
    emitted text - type, challenge, origin, crossOrigin, then the caller's extra members in their original order (a key that
    collides with a fixed member is the caller's business: it stays where it was)"""
    import ceremony
    from ceremony import client_scenario, reg_op, auth_op, mk_passkey
    rng = run.rng
    cid = bytes([0x4E]) * 16
    content = [mk_passkey(rng, "example.com", cred_id=cid, keyidx=0)]
    extras = [
        {"androidPackageName": "com.example.app", "origin": "android:apk-key-hash:abc", "topOrigin": "https://top.example", "payment": {"total": 5}},
        {"zeta": 1, "alpha": [1, 2], "type": "x", "challenge": "y", "mid": None, "crossOrigin": True, "omega": "\u00e9"},
        {"b": 1, "a": 2}, {"only": "one"}, {"k%d" % i: i for i in (9, 3, 7, 1, 8, 2)},
        {"origin": 1, "x1": 1, "x2": 2, "x3": 3},
        {},                                            # extras that serialise to no member at all
    ]
    scs = []
    for ex in extras:
        scs.append(client_scenario(store_kind="ref", content=content, user={"script": [{"presence": True, "verification": True}] * 2},
                                   ops=[reg_op(rng, cd={"mode": "extra", "extra": ex}), auth_op(rng, allow=[cid], cd={"mode": "extra", "extra": ex})]))
    binary = common.harness_build("ceremony")
    outs = ceremony.run_scenarios(binary, scs)
    fails, n = [], 0
    for sc, out in zip(scs, outs):
        if "ops" not in out:
            fails.append((sc, out, "the client ceremony crashed")); continue
        for op, obs in zip(sc["ops"], out["ops"]):
            if "ok" not in obs["result"]:
                fails.append((sc, obs, "a ceremony with extra client data members failed: %s" % json.dumps(obs["result"])[:100])); continue
            n += 1
            text = bytes.fromhex(obs["result"]["ok"]["client_data_json"]).decode("utf-8")
            try:
                keys = [k for k, _ in json.JSONDecoder(object_pairs_hook=lambda kv: kv).decode(text)]
            except ValueError as e:
                fails.append((sc, obs, "the client data the client emitted is not a JSON object (%s): %s" % (e, text[:200]))); continue
            want = ["type", "challenge", "origin", "crossOrigin"] + list(op["cd"]["extra"].keys())
            if keys != want:
                fails.append((sc, obs, "client data members are %s, expected the four fixed members followed by the extra members in their original order %s" % (keys, want)))
    for sc, obs, why in fails[:2]:
        run.violation({"kind": "client data emitted by the client: " + why, "scenario": sc, "observed": obs})
    return {"client_emitted_client_data": n, "client_emitted_failures": len(fails)}


def check(run):
    _t("start")
    broken = []        # ties that broke before the correspondence: the search for a failing input still runs
    stale = False
    try:
        common.run_translator("json_schema")
    except common.Tie as t:
        if not os.path.exists(os.path.join(common.COQ, common.TRANSLATORS["json_schema"][2])):
            raise
        broken.append(t); stale = True      # the last generated schema stays: the oracle does not depend on it
    bad = common.hygiene_gate()
    if bad:
        raise common.Tie("hygiene gate: " + "; ".join(bad))
    common.coq_build(COQ_TARGETS[:1])                 # model + checks only (no proofs): needed to evaluate the cases
    thms, assum = [], {"closed": 0, "with_allowed_axioms": []}
    try:
        common.coq_build(COQ_TARGETS[1:])             # theorems over the schemas generated from the tree as it is now
        thms, assum = common.props_check(PROP)
    except common.Tie as t:
        broken.append(t)
    coqchk = "not run (quick tier)"
    if run.tier != "quick" and not broken:
        with common.Lock("coq", shared=True):
            rc, out = common.sh(["coqchk", "-silent", "-o", "-Q", "theories", "PK", "PK.Props.C14"], cwd=common.COQ, timeout=1800)
        if rc != 0 or "Axioms: <none>" not in out:
            broken.append(common.Tie("coqchk does not accept the compiled closure of Props/C14 without axioms", out[-2000:]))
        else:
            coqchk = "coqchk -o: accepted, Axioms: <none>"
    _t("proofs built")
    binary = common.harness_build("json")
    _t("harness built")
    try:
        sch = Schema(stale)
    except common.Tie as t:
        if stale:
            raise
        broken.append(t); sch = Schema(True)
    rng = run.rng
    quick = run.tier == "quick"
    P = Printer(sch.names)
    for s in STR_POOL + UNKNOWN_KEYS + UNKNOWN_ENUM + ["androidPackageName", "localhost", "http://localhost:4000"]:
        if len(s) > 2 and s not in P.names:
            P.intern(s)
    G = Gen(sch, rng)

    # every case: dict(kind=..., tag=..., reqs=[harness requests], build=function(outputs) -> Coq term or None)
    cases = []

    def parse_req(ty, v, via="json"):
        return {"op": "parse", "ty": ty, "via": via, "text": to_text(v)}

    def impl_rv(ty_kind, o, cd=None):
        if "ok" not in o:
            return None
        return client_data_rv(sch, P, cd, o["ok"]) if cd else sch.rv(P, ty_kind, o["ok"])

    def check_tree(v, o):
        t = o.get("tree")
        if t is None or "ok" not in t:
            raise common.Tie("the driver generated text serde_json does not read: " + to_text(v)[:200])
        if not same_value(tree_ast(t["ok"]), v):
            raise common.Tie("serde_json reads a different value than the driver printed: " + to_text(v)[:200])

    def add_parse(tag, ty, v, via="json", cd=None):
        def build(outs, ty=ty, v=v, via=via, cd=cd):
            check_tree(v, outs[0])
            r = impl_rv(sch.top_kind(ty) if not cd else None, outs[0], cd)
            return "CParse %s %s %s %s" % ("Stream" if via == "json" else "Cb", sch.coq_ty(ty), P.j(v), P.opt(r, lambda x: x))
        req = parse_req(ty, v, via) if not cd else {"op": "cd_parse", "e": cd, "text": to_text(v)}
        cases.append({"kind": "parse", "tag": tag, "ty": ty, "via": via, "reqs": [req], "build": build})

    def add_same(tag, ty, base, vs, via="json"):
        def build(outs, ty=ty, base=base, vs=vs, via=via):
            for v, o in zip([base] + vs, outs):
                check_tree(v, o)
            rs = [impl_rv(sch.top_kind(ty), o) for o in outs]
            return "CSame %s %s %s [%s] %s [%s]" % ("Stream" if via == "json" else "Cb", sch.coq_ty(ty), P.j(base),
                                                   ";".join(P.j(v) for v in vs), P.opt(rs[0], lambda x: x),
                                                   ";".join(P.opt(r, lambda x: x) for r in rs[1:]))
        cases.append({"kind": "same", "tag": tag, "ty": ty, "via": via, "reqs": [parse_req(ty, v, via) for v in [base] + vs], "build": build})

    # ---- corpus first
    for c in corpus():
        if c.get("kind") == "parse":
            # text only: the value is what serde_json reads (through the harness)
            cases.append({"kind": "corpus", "tag": "corpus:" + c["_file"], "ty": c["ty"], "via": c.get("via", "json"),
                          "reqs": [{"op": "parse", "ty": c["ty"], "via": c.get("via", "json"), "text": c["text"]}],
                          "expect_ok": c.get("expect_ok"),
                          "build": (lambda outs, c=c: None if "ok" not in outs[0].get("tree", {}) else
                                    "CParse %s %s %s %s" % ("Stream" if c.get("via", "json") == "json" else "Cb", sch.coq_ty(c["ty"]),
                                                            P.j(tree_ast(outs[0]["tree"]["ok"])),
                                                            P.opt(impl_rv(sch.top_kind(c["ty"]), outs[0]), lambda x: x)))})
        elif c.get("kind") == "same":
            base = tree_of_text = None
            cases.append({"kind": "corpus-same", "tag": "corpus:" + c["_file"], "ty": c["ty"], "via": "json",
                          "reqs": [{"op": "parse", "ty": c["ty"], "via": "json", "text": t} for t in c["texts"]],
                          "build": (lambda outs, c=c: "CSame Stream %s %s [%s] %s [%s]" % (
                              sch.coq_ty(c["ty"]), P.j(tree_ast(outs[0]["tree"]["ok"])),
                              ";".join(P.j(tree_ast(o["tree"]["ok"])) for o in outs[1:]),
                              P.opt(impl_rv(sch.top_kind(c["ty"]), outs[0]), lambda x: x),
                              ";".join(P.opt(impl_rv(sch.top_kind(c["ty"]), o), lambda x: x) for o in outs[1:])))})

    # ---- (1) request options: every optional member present/absent, with sampled presentations
    OPTS = ["PublicKeyCredentialCreationOptions", "PublicKeyCredentialRequestOptions"]
    for ty in OPTS:
        reps = 1 if quick else 8
        for _ in range(reps):
            for mask, base in G.all_presence(ty):
                vs = variants(sch, rng, ("ref", ty), base, False)
                pick = rng.sample(vs, min(len(vs), 2 if quick else 4))
                add_same("presence:%s:%s|%s" % (ty, "".join("1" if m else "0" for m in mask), ",".join(t for t, _ in pick)),
                         ty, base, [v for _, v in pick])
    # ---- (2) full documents: every presentation of every member, unknown members at every position of every object
    for ty in OPTS + ["CredentialCreationOptions", "CredentialRequestOptions"]:
        for rep in range(2 if quick else 12):
            present = None
            base = G.value(("ref", ty), {}, {i: True for i in range(20)})
            # nested optional members all present as well in the first repetition
            if rep == 0:
                while True:
                    base = G.value(("ref", ty), {}, {i: True for i in range(20)})
                    if len(to_text(base)) > (900 if "Creation" in ty else 500):
                        break
            vs = variants(sch, rng, ("ref", ty), base, True)
            for i in range(0, len(vs), 10):
                chunk = vs[i:i + 10]
                add_same("full:%s|%s" % (ty, ",".join(t for t, _ in chunk)), ty, base, [v for _, v in chunk])
            for tag, ref, var in unknown_enum_pairs(sch, rng, ("ref", ty), base):
                add_same("unknown:%s|%s" % (ty, tag), ty, ref, [var])
    # ---- (2b) leniently read lists: entries that do not deserialise, at every position, are dropped
    for ty, vias in [(t, ("json",)) for t in OPTS] + [("PublicKeyCredentialDescriptor", ("json", "cbor"))]:
        for f in sch.structs[ty]["fields"]:
            if not (f["kind"][0] == "vec" or (f["kind"][0] == "opt" and f["kind"][1][0] == "vec")):
                continue            # by type, not by attribute: every list of the request options is read leniently
            ekind = f["kind"][1] if f["kind"][0] == "vec" else f["kind"][1][1]
            is_enum = ekind[0] == "ref" and ekind[1] in sch.enums
            for rep in range(1 if quick else 6):
                base = G.value(("ref", ty), {}, {i: True for i in range(20)})
                idx = [i for i, (k, _) in enumerate(base[1]) if k == f["json"]][0]
                elems = [G.value(ekind, {}, None, None, 1) for _ in range(rng.choice([1, 2]))]
                base = edit_at(base, [idx], lambda _n: A(elems))
                unk = [S(rng.choice(UNKNOWN_ENUM)), I(5), NULL, A([]), B(True)] + \
                      ([O([("zzz", I(1))])] if is_enum else [O([]), O([("type", S("public-key"))]), O([("type", S("public-key")), ("alg", I(-1))]),
                                                             O([("type", S("public-key")), ("id", I(5))])])
                vs = []
                for pos in range(len(elems) + 1):
                    for u in rng.sample(unk, 2):
                        l = list(elems); l.insert(pos, u)
                        vs.append(edit_at(base, [idx], lambda _n, l=l: A(l)))
                l = list(elems)
                for u in unk:
                    l.insert(rng.randrange(len(l) + 1), u)
                vs.append(edit_at(base, [idx], lambda _n, l=l: A(l)))
                for via in vias:
                    add_same("lenient-list:%s.%s:%s" % (ty, f["rust"], via), ty, base, vs, via)
    # nested structs on their own (both deserialiser flavours)
    NESTED = ["PublicKeyCredentialRpEntity", "PublicKeyCredentialUserEntity", "PublicKeyCredentialParameters",
              "PublicKeyCredentialDescriptor", "AuthenticatorSelectionCriteria", "AuthenticationExtensionsClientInputs",
              "AuthenticationExtensionsPrfInputs", "AuthenticationExtensionsPrfValues"]
    for ty in NESTED:
        for via in ("json", "cbor"):
            for mask, base in G.all_presence(ty):
                vs = variants(sch, rng, ("ref", ty), base, True)
                vs = vs if len(vs) <= 6 else rng.sample(vs, 6)
                add_same("nested:%s:%s|%s" % (ty, via, ",".join(t for t, _ in vs)), ty, base, [v for _, v in vs], via)
                for tag, ref, var in unknown_enum_pairs(sch, rng, ("ref", ty), base)[:3]:
                    add_same("unknown:%s:%s|%s" % (ty, via, tag), ty, ref, [var], via)
    # ---- (3) numbers
    nums, strs = timeout_literals()
    for lit in nums:
        for v in (num(lit), S(lit)):
            add_parse("timeout:%s" % to_text(v)[:40], "PublicKeyCredentialRequestOptions", O([("challenge", A([])), ("timeout", v)]))
    for s in strs:
        add_parse("timeout:str:%s" % s[:30], "PublicKeyCredentialRequestOptions", O([("challenge", A([])), ("timeout", S(s))]))
    for n in [0, 1, 5, 10, 1800, 60000, 300000, 1800000, (1 << 31) - 1, 1 << 31, (1 << 32) - 1] + [rng.randrange(1 << 32) for _ in range(10 if quick else 300)]:
        base = O([("challenge", A([])), ("timeout", I(n))])
        add_same("timeout:forms:%d" % n, "PublicKeyCredentialRequestOptions", base,
                 [O([("challenge", A([])), ("timeout", f)]) for f in int_forms(n)])
    for v in alg_literals():
        doc = O([("type", S("public-key")), ("alg", v)])
        add_parse("alg:stream:%s" % to_text(v)[:30], "PublicKeyCredentialParameters", doc, "json")
        add_parse("alg:cb:%s" % to_text(v)[:30], "PublicKeyCredentialParameters", doc, "cbor")
    for n in [-7, -257, -8, -65535, 34, 0, 1]:
        base = O([("type", S("public-key")), ("alg", I(n))])
        for via in ("json", "cbor"):
            add_same("alg:forms:%d:%s" % (n, via), "PublicKeyCredentialParameters", base,
                     [O([("type", S("public-key")), ("alg", f)]) for f in int_forms(n) if not (f[0] == "str" and f[1].startswith("+") and n < 0)], via)
    # ---- (4) Bytes
    bdocs, bmal = bytes_documents(rng, not quick)
    for _, b in bdocs:
        for via in ("json", "cbor"):
            add_same("bytes:len%d:%s" % (len(b), via), "Bytes", bytes_arr(b), [present_bytes(b, how) for how in BYTES_PRESENTATIONS[1:]], via)
    for v in bmal:
        for via in ("json", "cbor"):
            add_parse("bytes:malformed:%s:%s" % (via, to_text(v)[:30]), "Bytes", v, via)
    # ---- (5) malformed neighbours (model correspondence: where the streaming deserialiser gives up)
    for ty in OPTS + NESTED[2:6]:
        for _ in range((40 if ty in OPTS else 25) if quick else (1500 if ty in OPTS else 400)):
            base = G.value(("ref", ty), {})
            tag, m = mutate(sch, rng, ("ref", ty), base)
            for via in (("json",) if ty in OPTS else ("json", "cbor")):
                add_parse("mutant:%s:%s:%s" % (ty, via, tag), ty, m, via)
    # ---- (6) emitted credentials: every Option shape
    for ty in ("CreatedPublicKeyCredential", "AuthenticatedPublicKeyCredential"):
        shapes = G.shapes(sch.top_kind(ty), {})
        for rep in range(1 if quick else 6):
            for sh in shapes:
                d = sh()
                def build(outs, ty=ty, d=d):
                    o = outs[0]
                    if "text" not in o or "ok" not in o["tree"]:
                        return None
                    return "CEmit %s %s %s %s" % (sch.coq_ty(ty), sch.rv(P, sch.top_kind(ty), d), P.j(tree_ast(o["tree"]["ok"])),
                                                   P.opt(impl_rv(sch.top_kind(ty), o["reparse"]), lambda x: x))
                cases.append({"kind": "emit", "tag": "emit:%s" % ty, "ty": ty, "via": "json", "desc": d,
                              "reqs": [{"op": "emit", "ty": ty, "desc": d}], "build": build})
        # what a credential from elsewhere may look like: presentations + unknown members (re-parse side)
        for _ in range(12 if quick else 200):
            base = G.value(sch.top_kind(ty), {})
            vs = variants(sch, rng, sch.top_kind(ty), base, False)
            pick = rng.sample(vs, min(len(vs), 4))
            add_same("credential:%s|%s" % (ty, ",".join(t for t, _ in pick)), ty, base, [v for _, v in pick])
            tag, m = mutate(sch, rng, sch.top_kind(ty), base)
            add_parse("mutant:%s:%s" % (ty, tag), ty, m)
    # ---- (7) client data
    cd_types = [v["rust"] for v in sch.enums["ClientDataType"]["variants"]]
    for e in ("unit", "map", "android"):
        for i in range(36 if quick else 600):
            tyn = cd_types[i % len(cd_types)]
            cross = [None, True, False][(i // 3) % 3]
            challenge = b64(rbytes(rng, rng.choice([0, 16, 32])), True, False)
            origin = rng.choice(STR_POOL[2:])
            collide = (i % 4 == 3)
            extra = [(k, dedupe_nested(v)) for k, v in cd_members(rng, collide)] if e == "map" else \
                    [("androidPackageName", S(rng.choice(["com.android.chrome", "", "a.b"])))] if e == "android" else []
            unknown = [(k, dedupe_nested(v)) for k, v in cd_members(rng, collide and rng.random() < 0.5)]
            for ms in (extra, unknown):           # a serde_json::Map / IndexMap holds one value per key
                seen = set()
                ms[:] = [kv for kv in ms if not (kv[0] in seen or seen.add(kv[0]))]
            req = {"op": "cd_emit", "e": e, "ty": tyn, "challenge": challenge, "origin": origin, "cross": cross,
                   "extra": ast_tree(O(extra)), "unknown": ast_tree(O(unknown))}
            def build(outs, e=e, tyn=tyn, challenge=challenge, origin=origin, cross=cross, extra=extra, unknown=unknown):
                o = outs[0]
                if "text" not in o or "ok" not in o["tree"]:
                    return None
                ms = tree_ast(o["tree"]["ok"])
                if ms[0] != "obj":
                    return None
                extra_rv = "RUnit" if e == "unit" else "(RStruct [(RStr %s)])" % P.s(extra[0][1][1]) if e == "android" else \
                           "(RMap [%s])" % ";".join("(%s,(RJson %s))" % (P.s(k), P.j(v)) for k, v in extra)
                re_ = client_data_rv(sch, P, e, o["reparse"]["ok"]) if "ok" in o["reparse"] else None
                return "CCdEmit E_%s %d %s %s %s %s %s %s %s %s %s" % (
                    e, cd_types.index(tyn), P.s(CD_TYPE_SPEC[tyn]), P.s(challenge), P.s(origin),
                    "None" if cross is None else "(Some %s)" % ("true" if cross else "false"),
                    extra_rv, P.members(extra), P.members(unknown), P.members(ms[1]), P.opt(re_, lambda x: x))
            cases.append({"kind": "cd_emit", "tag": "cd_emit:%s:%s" % (e, "collide" if collide else "plain"), "ty": "CollectedClientData:" + e,
                          "via": "json", "reqs": [req], "build": build, "collide": collide})
        # arbitrary client data documents
        for i in range(30 if quick else 500):
            ms = [("type", S(rng.choice(list(CD_TYPE_SPEC.values())))), ("challenge", S("AAEC")), ("origin", S("https://example.com")),
                  ("crossOrigin", B(rng.random() < 0.5))]
            r = rng.random()
            if r < 0.25: rng.shuffle(ms)
            if r > 0.85: del ms[rng.randrange(len(ms))]
            more = cd_members(rng, rng.random() < 0.3)
            if e == "android" and rng.random() < 0.8:
                more.insert(rng.randrange(len(more) + 1), ("androidPackageName", rng.choice([S("com.android.chrome"), S(""), I(5), NULL])))
            for kv in more:
                ms.insert(rng.randrange(len(ms) + 1) if rng.random() < 0.4 else len(ms), kv)
            if rng.random() < 0.25 and ms:
                k, v = rng.choice(ms)
                ms.insert(rng.randrange(len(ms) + 1), (k, rng.choice([v, junk(rng, 1)])))      # duplicate member
            if rng.random() < 0.15:
                j = rng.randrange(len(ms)); ms[j] = (ms[j][0], rng.choice(MUTANTS))
            add_parse("cd_parse:%s" % e, "CollectedClientData:" + e, O(ms), "json", cd=e)
    # ---- (8) base64
    for n in list(range(0, 67)) + ([] if quick else [rng.randrange(67, 400) for _ in range(300)]):
        b = rbytes(rng, n)
        def build(outs, b=b):
            o = outs[0]
            ob = lambda x: "None" if x is None else "(Some %s)" % blit(bytes.fromhex(x))
            return "CB64 %s %s %s %s %s %s %s" % (blit(b), blit(o["url"].encode()), blit(o["std"].encode()), blit(o["from_bytes"].encode()),
                                                  ob(o["dec_url"]), ob(o["try_from_url"]), ob(o["try_from_std"]))
        cases.append({"kind": "b64", "tag": "b64:len%d" % n, "ty": "b64", "via": "-", "reqs": [{"op": "b64", "bytes": b.hex()}], "build": build})
    # ---- (9) the algorithm table of coset, exhaustively around the registered range
    cases.append({"kind": "algs", "tag": "algs", "ty": "alg", "via": "-", "reqs": [{"op": "alg_sweep", "lo": -70000, "hi": 70000}],
                  "build": lambda outs: "CAlgs (-70000) 70000 [%s]%%Z" % ";".join("(%d)" % x for x in outs[0]["accepted"])})

    # ---- run the implementation
    reqs, owner = [], []
    for ci, c in enumerate(cases):
        for r in c["reqs"]:
            reqs.append(r); owner.append(ci)
    _t("cases generated")
    outs = common.harness_run(binary, reqs)
    _t("harness run")
    per_case = [[] for _ in cases]
    for o, ci in zip(outs, owner):
        per_case[ci].append(o)
    terms, kept, crashed = [], [], []
    for c, os_ in zip(cases, per_case):
        if any(o.get("panic") or o.get("crash") for o in os_):
            crashed.append((c, os_)); continue
        t = c["build"](os_)
        if t is None:
            crashed.append((c, os_)); continue
        terms.append(t); kept.append((c, os_))

    if os.environ.get("PK_C14_DUMP"):
        json.dump([{"tag": c["tag"], "kind": c["kind"], "reqs": c["reqs"],
                    "outs": [{k: v for k, v in o.items() if k != "tree"} for o in os_], "term": t}
                   for (c, os_), t in zip(kept, terms)], open(os.environ["PK_C14_DUMP"], "w"))
    _t("terms built")
    res = common.coq_eval(PROP, P.preamble(), terms, ["agree", "oracle"], shard=60, shard_chars=220000)
    _t("coq eval")

    # ---- verdict
    def payload(c, os_):
        return {"tag": c["tag"], "requests": c["reqs"], "observed": [{k: v for k, v in o.items() if k != "tree"} for o in os_]}
    through_client = client_data_through_client(run)
    for c, os_ in crashed[:3]:
        run.violation(dict(payload(c, os_), kind="the implementation panicked / produced no JSON on a generated case"))
    for i in res["oracle"][:3]:
        c, os_ = kept[i]
        what = {"same": "presentations of one option value do not all parse to the same value",
                "corpus-same": "presentations of one option value do not all parse to the same value",
                "emit": "an emitted credential does not parse back to an equal value",
                "cd_emit": "emitted client data does not list type, challenge, origin, crossOrigin, extras, unknown members in that order",
                "b64": "base64url encoding followed by decoding is not the identity"}.get(c["kind"], c["kind"])
        extra = {}
        if c["kind"] in ("same", "corpus-same"):
            # independent of Coq: compare the harness's normalised dumps of the parsed structs
            dumps = [json.dumps(o.get("ok"), sort_keys=True) if "ok" in o else None for o in os_]
            diff = [j for j in range(1, len(dumps)) if dumps[j] != dumps[0] or dumps[0] is None]
            extra = {"differing_presentations": diff[:5], "base_parses": dumps[0] is not None,
                     "first_differing_text": c["reqs"][diff[0]]["text"][:2000] if diff else None}
        run.violation(dict(payload(c, os_), kind="property oracle false on the implementation's observation: " + what, others=len(res["oracle"]) - 1,
                           broken="; ".join(b.what for b in broken) or None, **extra))
    if not res["oracle"] and not crashed:
        for i in res["agree"][:1]:
            c, os_ = kept[i]
            run.violation(dict(payload(c, os_), kind="model and implementation disagree (%s); oracle true on all %d cases of this run" % (c["kind"], len(terms)),
                               broken="correspondence json/%s (Wire.JsonCheck.agree)" % c["kind"], others=len(res["agree"]) - 1,
                               model=model_view(P, terms[i])), found_input=False)
        if not res["agree"]:
            for b in broken[:1]:
                run.violation({"broken": b.what, "detail": b.detail,
                               "note": "the theorem named in 'broken' no longer checks on the schemas generated from the current tree; the oracle "
                                       "was true on all %d implementation observations of this run and model and implementation agree" % len(terms)},
                              found_input=False)

    # ---- evidence
    def sig(c, os_):
        outcome = tuple(("ok" if "ok" in o else "err:" + re.sub(r"[0-9`\"].*", "", str(o.get("err", ""))[:40])) if ("ok" in o or "err" in o) else "-" for o in os_[:3])
        return (c["kind"], c["ty"], c["via"], re.sub(r"[0-9]+", "#", c["tag"])[:80], outcome)
    sigs = set(sig(c, o) for c, o in kept)
    hist = {}
    for c, _ in kept:
        hist[c["kind"]] = hist.get(c["kind"], 0) + 1
    n_docs = sum(len(c["reqs"]) for c, _ in kept)
    collide = [(c, o) for c, o in kept if c.get("collide")]
    dup = 0
    for c, o in collide:
        keys = [kv[0] for kv in o[0]["tree"]["ok"]["o"]]
        dup += len(keys) != len(set(keys))
    n_lem = common.count_lemmas(COQ_FILES) if not broken else 0
    run.cov.update(through_client)
    run.cov.update({
        "obligations": n_lem, "discharged": n_lem,
        "checker_cmd": "make -C coq theories/Props/C14.vo (coqc 8.16.1, full .vo build) + hygiene gate + Print Assumptions; " + coqchk,
        "trusted_base": ["Coq 8.16.1 kernel, vm_compute", "translators/json_schema.py (serde attributes and enum tables of the WebAuthn structs)",
                         "correspondence harness (pkharness json: serde_json text<->value, hand-written describers) + driver/c14.py",
                         "serde derive expansion, serde_json, ciborium's Value deserialiser, data-encoding, coset's algorithm table: modelled, tied by this differential run",
                         "Print Assumptions: %d closed under the global context, axioms: %s" % (assum["closed"], assum["with_allowed_axioms"] or "none")],
        "theorems": thms,
        "evaluations": len(terms), "documents": n_docs, "distinct_nontrivial": len(sigs),
        "rule": "schema-directed: every subset of optional members of both option structs (x sampled presentations), full documents with every binary member "
                "in 5 presentations, timeouts/algorithms as number/string/float/exponent, an unknown member at every position of every object, an unknown "
                "string for every enumeration member and list entry, entries that do not deserialise at every position of every list of the request options "
                "(what must be lenient is chosen by the member's TYPE, not by its current serde attribute), nested structs alone in both deserialiser flavours, literal tables for StringOrNum and "
                "Bytes incl. malformed, random malformed neighbours (replace/delete/duplicate/array-form/tagged enum), every Option shape of both credential "
                "types emitted and re-read, client data with E = (), Map, struct incl. colliding keys, base64 of every length 0..66, coset's table over "
                "[-70000,70000]; distinct = (kind, type, flavour, transformation tags, outcomes)",
        "samples": [terms[0][:300], terms[len(terms) // 2][:300], terms[-2][:300]],
        "model_disagreements": len(res["agree"]), "oracle_failures": len(res["oracle"]), "crashes": len(crashed),
        "case_histogram": hist,
        "observations": [
            "built configuration: serialize_bytes_as_base64_string OFF, Bytes emitted as arrays of numbers",
            "client data with an extra/unknown key equal to one of type/challenge/origin/crossOrigin: %d of %d such emissions contain the key twice "
            "(the fixed member first, the extra one later); order statement still holds, the JSON has duplicate members" % (dup, len(collide)),
            "timeout 2^32 (number, string or float) is an error that fails the whole options parse; null for timeout / hints / excludeCredentials too",
            "ignore_unknown on a streaming deserialiser: a non-string value for an enumeration member fails the whole parse; inside a leniently read "
            "`extensions` an unknown member after a malformed one turns a tolerated error into a failed parse (corpus obs-ext-*.json)"],
    })
    run.assumptions += ["JSON numbers: decimal literals of at most 15 significant digits (exact f64 rounding of longer literals is not modelled)",
                        "passkey-types built with default features (Bytes serialised as an array of numbers)"]


def model_view(P, term):
    if len(term) > 60000:
        return "(large)"
    return common.coq_show(PROP, P.preamble(),
                           "match %s with CParse fl t v _ => [to_opt (de fl t v)] | CSame fl t b vs _ _ => map (fun v => to_opt (de fl t v)) (b :: vs) "
                           "| CEmit t c _ _ => [parse t (ser t c)] | _ => [] end" % term)[-3000:]


def replay(payload):
    binary = common.harness_build("json")
    for r in payload.get("requests", []):
        o = common.harness_one(binary, r)
        o.pop("tree", None)
        print(json.dumps(r)[:1500]); print("  ->", json.dumps(o)[:3000])
    return 0
