"""C06 - private keys and PRF secrets never appear in anything handed back to callers.

Proof part: Props/C06.v (noninterference of the ceremony models, Auth/C06Facts.v).
Ties, on every run, from the SAME executions of the real code (harness/src/bin/leak.rs):
  * CTAP2 operations replayed against Auth/Authenticator.v (CeremonyCheck.agree),
  * WebAuthn operations against Auth/Client.v (ClientCheck.wagree),
  * U2F operations against Auth/U2f.v (U2fCheck.uagree) and the Debug rendering of every stored passkey
    against Auth/C06Model.v (C06Model.c06_agree).
Oracle (independent of the model, Python): the secrets are read back from the store (and from the
passkeys handed to the store, so a credential whose save failed counts too); every rendering of every
value handed back - CBOR, JSON, {:?}, {:#?}, raw bytes - is scanned for every secret of >= 16 bytes in
raw, hex (both cases), decimal-list, base64 and base64url form (all three byte alignments, so a secret
inside a longer encoded buffer is found); the attested COSE key is parsed from the raw authenticator
data and must have exactly the labels 1, 3, -1, -2, -3."""
import base64, json, os, re
import common, ceremony
from ceremony import *

PROP = "C06"
COQ_TARGETS = ["theories/Auth/CeremonyCheck.vo", "theories/Auth/ClientCheck.vo", "theories/Auth/U2fCheck.vo",
               "theories/Auth/C06Model.vo", "theories/Auth/C06Facts.vo"]
HARNESS_BINS = ["leak"]
UPREAMBLE = ("From PK Require Import Lib.Bytes Lib.Check Auth.U2fCheck.\n"
             "Open Scope N_scope.\n")
DPREAMBLE = ("From PK Require Import Lib.Bytes Lib.Check Auth.C06Model.\n"
             "Open Scope N_scope.\n")
MIN_SECRET = 16

# --------------------------------------------------------------------------------------------
# the oracle: scanning renderings for secrets

def _b64_cores(s):
    """base64 / base64url texts that necessarily occur when `s` is encoded inside any longer buffer:
    for each of the three alignments, the characters that depend on bytes of `s` only"""
    out = []
    for k in range(3):
        core = s[k:]
        core = core[:len(core) - len(core) % 3]
        if len(core) >= 12:
            out.append(("base64 (alignment %d)" % k, base64.b64encode(core)))
            out.append(("base64url (alignment %d)" % k, base64.urlsafe_b64encode(core)))
    return out


_PAT_CACHE = {}
def patterns(secret):
    """(encoding name, needle, applies to whitespace-stripped text?)"""
    if secret in _PAT_CACHE:
        return _PAT_CACHE[secret]
    pats = [("raw bytes", secret, False),
            ("hex (lower case)", secret.hex().encode(), False),
            ("hex (upper case)", secret.hex().upper().encode(), False),
            ("decimal list", ",".join(str(b) for b in secret).encode(), True)]
    seen = {p[1] for p in pats}
    for name, needle in _b64_cores(secret):
        if needle not in seen:
            seen.add(needle); pats.append((name, needle, False))
    _PAT_CACHE[secret] = pats
    return pats


_WS = re.compile(rb"\s+")
def blob_of(d):
    return bytes.fromhex(d["hex"]) if "hex" in d else d["text"].encode("utf-8", "surrogatepass")


def scan(dumps, secrets):
    """dumps: [(what, bytes)], secrets: {bytes: description}. Returns findings."""
    if not dumps or not secrets:
        return []
    allb = b"\x00|\x00".join(b for _, b in dumps)
    alls = _WS.sub(b"", allb)
    found = []
    for sec, desc in secrets.items():
        for name, needle, stripped in patterns(sec):
            if needle in (alls if stripped else allb):
                for what, b in dumps:
                    hay = _WS.sub(b"", b) if stripped else b
                    pos = hay.find(needle)
                    if pos >= 0:
                        found.append({"secret": desc, "secret_hex": sec.hex(), "encoding": name, "rendering": what,
                                      "excerpt": hay[max(0, pos - 40):pos + len(needle) + 40].decode("latin-1")})
    return found


def secrets_of_passkey(p, where, acc):
    cid = p["cred_id"][:16]
    k = p["key"].get("d")
    if k and len(k) >= 2 * MIN_SECRET:
        acc.setdefault(bytes.fromhex(k), "private scalar d of credential %s.. (%s)" % (cid, where))
    h = p.get("hmac")
    if h:
        if h["w"] and len(h["w"]) >= 2 * MIN_SECRET:
            acc.setdefault(bytes.fromhex(h["w"]), "PRF secret cred_with_uv of credential %s.. (%s)" % (cid, where))
        if h["wo"] and len(h["wo"]) >= 2 * MIN_SECRET:
            acc.setdefault(bytes.fromhex(h["wo"]), "PRF secret cred_without_uv of credential %s.. (%s)" % (cid, where))


def scenario_secrets(sc, out):
    """every secret that exists at any time during the scenario: initial content, every store snapshot,
    every passkey handed to or returned by the store"""
    acc = {}
    for p in sc["store"]["content"]:
        secrets_of_passkey(p, "initial store content", acc)
    for i, obs in enumerate(out["ops"]):
        for p in obs.get("store_after", []):
            secrets_of_passkey(p, "store after operation %d" % i, acc)
        for e in obs.get("log", []):
            if e["c"] in ("save", "update"):
                secrets_of_passkey(e["p"], "handed to the store in operation %d" % i, acc)
            if e["c"] == "find" and "ok" in e["r"]:
                for p in e["r"]["ok"]:
                    secrets_of_passkey(p, "returned by the store in operation %d" % i, acc)
    return acc


def op_dumps(obs):
    ds = [(d["what"], blob_of(d)) for d in obs.get("dumps", [])]
    for s in obs.get("stored", []):
        ds.append(("stored passkey %s../debug" % s["p"]["cred_id"][:16], s["dbg"].encode()))
        ds.append(("stored passkey %s../debug-pretty" % s["p"]["cred_id"][:16], s["dbg_pretty"].encode()))
    return ds


# a tiny CBOR reader (definite lengths; ints, byte/text strings, maps, arrays) for the attested key
def _cbor(b, i):
    ib = b[i]; mt, ai = ib >> 5, ib & 31; i += 1
    if ai < 24: n = ai
    elif ai in (24, 25, 26, 27):
        w = 1 << (ai - 24); n = int.from_bytes(b[i:i + w], "big"); i += w
    else: raise ValueError("cbor")
    if mt == 0: return n, i
    if mt == 1: return -1 - n, i
    if mt in (2, 3): return bytes(b[i:i + n]), i + n
    if mt == 4:
        l = []
        for _ in range(n):
            v, i = _cbor(b, i); l.append(v)
        return l, i
    if mt == 5:
        l = []
        for _ in range(n):
            k, i = _cbor(b, i); v, i = _cbor(b, i); l.append((k, v))
        return l, i
    raise ValueError("cbor major type %d" % mt)


def attested_key_oracle(auth_data_hex):
    """None if fine, else a message"""
    ad = bytes.fromhex(auth_data_hex)
    if len(ad) < 55 or not ad[32] & 0x40:
        return "registration response carries no attested credential data"
    n = int.from_bytes(ad[53:55], "big")
    try:
        key, _ = _cbor(ad, 55 + n)
    except (ValueError, IndexError):
        return "attested COSE key does not parse"
    labels = [k for k, _ in key] if isinstance(key, list) else None
    if labels is None or sorted(labels) != [-3, -2, -1, 1, 3]:
        return "attested COSE key has labels %s, public parameters are exactly [1, 3, -1, -2, -3]" % labels
    return None


def auth_data_of(op, res):
    k = op["op"].replace("trait_", "")
    if "ok" not in res: return None
    if k == "make_credential": return res["ok"]["auth_data"]["bytes"]
    if k == "register": return res["ok"]["auth_data"]
    return None


def oracle(sc, out):
    """all property failures of one scenario"""
    fails = []
    secrets = scenario_secrets(sc, out)
    for i, (op, obs) in enumerate(zip(sc["ops"], out["ops"])):
        for f in scan(op_dumps(obs), secrets):
            fails.append(dict(f, kind="a secret occurs in a value handed back (%s, as %s)" % (f["rendering"], f["encoding"]), op_index=i, op=op["op"]))
        adh = auth_data_of(op, obs.get("result", {}))
        if adh is not None:
            m = attested_key_oracle(adh)
            if m: fails.append({"kind": m, "op_index": i, "op": op["op"], "auth_data": adh})
    return fails


# --------------------------------------------------------------------------------------------
# scenarios

def rb(rng, n):
    return bytes(rng.randrange(256) for _ in range(n))


def odd_key(rng, i):
    """stored keys the assertion paths reject: other algorithm, other key type, no private part"""
    k = pool_key(rng, i)
    c = rng.randrange(4)
    if c == 0: k["es256"] = False
    elif c == 1: k["ec2"] = False
    elif c == 2: k["d"] = None
    return k


def gen_ctap(rng, tier):
    sc = gen_history(rng, tier, with_hmac=True, faults=True, max_ops=5)
    for p in sc["store"]["content"]:
        if rng.random() < 0.1:
            p["key"] = odd_key(rng, rng.randrange(6))
    for op in sc["ops"]:
        if rng.random() < 0.2:
            op["op"] = "trait_" + op["op"]
    return sc


def b64url(b):
    return base64.urlsafe_b64encode(b).rstrip(b"=")


def gen_happy_ctap(rng, tier):
    """mostly succeeding CTAP2 histories with the PRF extension in play: responses with content are where a
    leak would be"""
    kind = rng.choice(["ref", "ref", "arc_rwlock_ref", "memory", "option"])
    hc = rng.choice([{"without_uv": False, "on_mc": False}, {"without_uv": True, "on_mc": False},
                     {"without_uv": False, "on_mc": True}, {"without_uv": True, "on_mc": True}, None])
    rp = rng.choice(RPS[:2])
    content = []
    for j in range(rng.randrange(1, 4) if kind != "option" else 1):
        hm = (rb(rng, 32), rb(rng, 32) if rng.random() < 0.7 else None) if rng.random() < 0.85 else None
        content.append(mk_passkey(rng, rp, cred_id=rb(rng, rng.choice([16, 32])), user_handle=rng.choice([rb(rng, 8), None]),
                                  counter=rng.choice([None, 0, 41, 2**32 - 1]), hmac=hm, keyidx=j))
    ids = [bytes.fromhex(p["cred_id"]) for p in content]
    ops = []
    for _ in range(rng.randrange(2, 6)):
        uv = rng.random() < 0.7
        if rng.random() < 0.4:
            ext = None
            if rng.random() < 0.85:
                ext = prf_ext_mc(first=rb(rng, 32) if rng.random() < 0.7 else None, second=rb(rng, 32) if rng.random() < 0.5 else None,
                                 hmac_secret=rng.choice([None, True, True, False]), mc=rng.random() < 0.1, with_prf=rng.random() < 0.85)
                if ext["prf"] and ext["prf"]["eval"] and ext["prf"]["eval"]["first"] is None: ext["prf"]["eval"] = None
            ops.append({"op": rng.choice(["make_credential", "make_credential", "trait_make_credential"]),
                        "req": mc_req(rng, rp=rp, rk=rng.random() < 0.5, uv=uv, params=rng.choice([(-7,), (-257, -7)]), ext=ext,
                                      user_id=rb(rng, rng.choice([1, 16, 64])))})
        else:
            ext = None
            if rng.random() < 0.85:
                by = None
                if rng.random() < 0.4:
                    by = [(k, rb(rng, 32), rng.choice([None, rb(rng, 32)])) for k in rng.sample(ids, rng.randrange(1, len(ids) + 1))]
                ext = prf_ext_ga(first=rb(rng, 32) if rng.random() < 0.8 else None, second=rb(rng, 32) if rng.random() < 0.5 else None,
                                 by_cred=by, hmac_secret=rng.random() < 0.1, with_prf=rng.random() < 0.9)
                if ext["prf"] and ext["prf"]["eval"] and ext["prf"]["eval"]["first"] is None: ext["prf"]["eval"] = None
            allow = rng.choice([None, [rng.choice(ids)], ids])
            if "memory" in kind and allow is None: allow = [rng.choice(ids)]
            ops.append({"op": rng.choice(["get_assertion", "get_assertion", "trait_get_assertion"]),
                        "req": ga_req(rng, rp=rp, allow=allow, uv=uv, ext=ext)})
    return scenario(store_kind=kind, content=content, config={"counter": rng.random() < 0.5, "id_len": rng.choice([16, 32, 64]), "hmac": hc,
                                                             "aaguid": rb(rng, 16).hex()}, ops=ops)


def gen_u2f(rng, tier):
    kind = rng.choice(["ref", "ref", "memory", "option", "arc_mutex_memory", "rwlock_memory", "arc_rwlock_ref"])
    apps = [rb(rng, 32) for _ in range(2)]
    handles = [rb(rng, rng.choice([16, 16, 32, 64, 1, 255])) for _ in range(3)]
    content = []
    for j in range(rng.randrange(0, 3)):
        hm = (rb(rng, 32), rb(rng, 32) if rng.random() < 0.5 else None) if rng.random() < 0.4 else None
        content.append(mk_passkey(rng, b64url(rng.choice(apps)).decode(), cred_id=rng.choice(handles), user_handle=None,
                                  counter=rng.choice([None, 0, 7]), hmac=hm,
                                  key=odd_key(rng, j) if rng.random() < 0.4 else None, keyidx=j))
    ops = []
    known = [(a, bytes.fromhex(p["cred_id"])) for p in content for a in apps if b64url(a).decode().encode().hex() == p["rp_id"]]
    for _ in range(rng.randrange(1, 6)):
        r = rng.random()
        app = rng.choice(apps)
        if r < 0.4:
            h = rng.choice(handles)
            known.append((app, h))
            ops.append({"op": "u2f_register", "challenge": rb(rng, 32).hex(), "application": app.hex(), "handle": h.hex()})
        elif r < 0.9:
            kh = rng.choice(handles + [rb(rng, 16)])
            if known and rng.random() < 0.7:
                app, kh = rng.choice(known)
            ops.append({"op": "u2f_authenticate", "challenge": rb(rng, 32).hex(), "application": app.hex(),
                        "key_handle": kh.hex(),
                        "counter": rng.choice([0, 1, 181, 2**31, 2**32 - 1]), "presence": rng.choice([0, 1, 4, 5, 0x1D, 0xDD])})
        elif r < 0.95:
            # a CTAP2 assertion on a credential registered over U2F (its RP ID is the base64url text)
            ops.append({"op": "get_assertion", "req": ga_req(rng, rp=b64url(app).decode(), allow=[rng.choice(handles)], uv=rng.random() < 0.5)})
        else:
            ops.append({"op": "get_info"})
    sc = scenario(store_kind=kind, content=content, config={"counter": rng.random() < 0.5, "aaguid": rb(rng, 16).hex()},
                  empty_is_err=rng.random() < 0.5, ops=ops)
    if rng.random() < 0.4:
        sc["faults"] = [{"at": rng.randrange(0, 5), "code": rng.choice([0x01, 0x28, 0x2E, 0x7F, 0x27])}]
    return sc


ORIGINS = [("https://www.example.com", "example.com"), ("https://example.com", "example.com"), ("https://login.example.com", "example.com"),
           ("https://www.example.com", None), ("https://www.example.com", "other.org"), ("http://www.example.com", "example.com"),
           ("https://www.example.com", "com"), ("http://localhost:8080", "localhost"), ("https://example.com:8443", "example.com")]


def gen_client(rng, tier, happy=False):
    kind = rng.choice(["ref", "ref", "memory", "option", "arc_mutex_memory"]) if not happy else rng.choice(["ref", "ref", "arc_rwlock_ref"])
    content = []
    for j in range(rng.randrange(0, 4)):
        hm = (rb(rng, 32), rb(rng, 32) if rng.random() < 0.6 else None) if rng.random() < 0.7 else None
        content.append(mk_passkey(rng, "example.com" if happy else rng.choice(["example.com", "example.com", "www.example.com", "localhost"]), cred_id=bytes([0xD0 + j]) * 16,
                                  user_handle=rng.choice([b"\x01\x02", None]), counter=rng.choice([None, 0, 5, 2**32 - 1]), hmac=hm,
                                  key=odd_key(rng, j) if rng.random() < 0.1 and not happy else None, keyidx=j))
    ids = [bytes.fromhex(p["cred_id"]) for p in content]
    cfg = {"counter": rng.random() < 0.5, "id_len": rng.choice([16, 32, 64]), "aaguid": rb(rng, 16).hex(),
           "hmac": rng.choice([None, {"without_uv": False, "on_mc": False}, {"without_uv": True, "on_mc": False},
                               {"without_uv": False, "on_mc": True}, {"without_uv": True, "on_mc": True}])}
    ops, script = [], []
    for _ in range(rng.randrange(1, 5)):
        origin, rp = rng.choice(ORIGINS[:3]) if happy else rng.choice(ORIGINS[:3] * 4 + ORIGINS)
        script.append({"presence": True, "verification": True} if happy else
                      rng.choice([{"presence": True, "verification": True}] * 6 + [{"presence": True, "verification": False}, {"err": 0x27}]))
        def values(n=None):
            return (rb(rng, n or rng.choice([0, 5, 32, 32, 64])), rb(rng, n or 32) if rng.random() < 0.5 else None)
        cd = rng.choice([None, None, {"mode": "hash", "hash": rb(rng, 32).hex()}, {"mode": "extra", "extra": {"note": "x"}}])
        if rng.random() < 0.45:
            ext = None
            if rng.random() < 0.7:
                hashed = rng.random() < 0.3
                inp = (values(32 if hashed or happy else None) if rng.random() < 0.8 else None,
                       None if rng.random() < 0.9 or happy else [(b64url(ids[0]).decode() if ids else "AA", rb(rng, 32), None)])
                ext = wext(cred_props=rng.choice([None, True, False]), prf=None if hashed else inp, prf_hashed=inp if hashed else None)
            sel = rng.choice([None, {"rk": rng.choice([None, "required", "preferred", "discouraged"]), "require_rk": rng.random() < 0.3,
                                     "uv": rng.choice(["required", "preferred", "discouraged"])}])
            ops.append(reg_op(rng, origin=origin, rp_id=rp, params=rng.choice([(), (-7,), (-257, -7), (-257,)]),
                              exclude=rng.choice([None, [], [rb(rng, 16)]] + ([] if happy else [ids[:1]])), selection=sel, ext=ext, cd=cd,
                              allow_localhost=rng.random() < 0.5))
        else:
            ext, by = None, None
            if rng.random() < 0.7:
                hashed = rng.random() < 0.3
                if ids and rng.random() < 0.4:
                    by = [(b64url(rng.choice(ids)).decode(), rb(rng, 32), rng.choice([None, rb(rng, 32)]))]
                inp = (values(32 if hashed or happy else None) if rng.random() < 0.8 else None, by)
                ext = wext(prf=None if hashed else inp, prf_hashed=inp if hashed else None)
            allow = rng.choice([None, [], ids[:1], ids, [rb(rng, 16)]])
            if happy:
                allow = rng.choice([ids[:1], ids]) if ids else None
                if by is not None and allow is not None and not all(base64.urlsafe_b64decode(k + "==") in allow for k, _, _ in by):
                    allow = ids
            ops.append(auth_op(rng, origin=origin, rp_id=rp, allow=allow,
                               uv=rng.choice(["required", "preferred", "discouraged"]), ext=ext, cd=cd, allow_localhost=rng.random() < 0.5))
    sc = client_scenario(store_kind=kind, content=content, config=cfg, disc=rng.choice(["full", "only_non", "forced"]),
                         empty_is_err=rng.random() < 0.5,
                         user={"verif_enabled": True if happy else rng.choice([True] * 6 + [False, None]), "presence_enabled": True, "script": script}, ops=ops)
    if rng.random() < 0.25 and not happy:
        sc["faults"] = [{"at": rng.randrange(0, 8), "code": rng.choice([0x01, 0x28, 0x2E, 0x7F, 0x27])}]
    return sc


def signature(sc, out):
    """what makes a scenario distinct: store kind, extension configuration and, per operation, its kind,
    outcome class, which renderings were produced and how many secrets existed"""
    ops = []
    for op, obs in zip(sc["ops"], out.get("ops", [])):
        r = obs.get("result", {})
        oc = "ok" if "ok" in r else ("err:%s" % json.dumps(r.get("err"), sort_keys=True)[:40])
        ext = json.dumps((op.get("req") or {}).get("ext"), sort_keys=True)
        ext = re.sub(r'"[0-9a-f]{8,}"', '"h"', ext)[:120]
        ops.append((op["op"], oc, ext, tuple(sorted({d["what"] for d in obs.get("dumps", [])}))))
    return (sc["mode"], sc["store"]["kind"], json.dumps(sc["config"].get("hmac")), len(sc["store"]["content"]), tuple(ops))


# --------------------------------------------------------------------------------------------
# Coq terms for the U2F and Debug ties

def u2f_term(op, obs):
    """Auth/U2fCheck.v `ucase` term"""
    log, res = obs["log"], obs["result"]
    if op["op"] == "u2f_register":
        keys, sigs = [], []
        save = next((e for e in log if e["c"] == "save"), None)
        if save is not None:
            k = save["p"]["key"]; keys.append((k["d"] or "", k["x"], k["y"]))
        if "ok" in res:
            o = res["ok"]; sigs.append(o["signature"])
            impl = "(Ok (RegResp (PubKey %s %s) %s %s %s, Some %s))" % (hb(o["x"]), hb(o["y"]), hb(o["key_handle"]), hb(o["cert"]), hb(o["signature"]), hb(o["raw"]))
        else:
            impl = "(Err %d)" % res["err"]
        return "CUReg %s %s %s\n  %s\n  %s %s" % (hb(op["application"]), hb(op["challenge"]), hb(op["handle"]), c_log(log), c_queues([], keys, sigs, []), impl)
    sigs = []
    if "ok" in res:
        o = res["ok"]; sigs.append(o["signature"])
        impl = "(Ok (AuthResp %d %d %s, %s))" % (o["presence"], o["counter"], hb(o["signature"]), hb(o["raw"]))
    else:
        impl = "(Err %d)" % res["err"]
    return "CUAuth %s %s %s %d %d\n  %s\n  %s %s" % (hb(op["application"]), hb(op["challenge"]), hb(op["key_handle"]), op["counter"], op["presence"],
                                                     c_log(log), c_queues([], [], sigs, []), impl)


def debug_term(s):
    return "CDebug %s %s %s" % (c_passkey(s["p"]), blit(s["dbg"].encode()), blit(s["dbg_pretty"].encode()))


# --------------------------------------------------------------------------------------------

_LITS = set()
def public_candidates(p):
    """public 32-byte values a relying party can put where a pre-hashed PRF salt goes: hashes of the string constants of the
    extension code as it is now, of the RP ID, credential id and user handle, and a few fixed blocks"""
    import glob, hashlib
    lits = _LITS
    srcs = [] if lits else glob.glob(os.path.join(common.REPO, "passkey-authenticator/src/authenticator/extensions/*.rs")) + \
           [os.path.join(common.REPO, "passkey-authenticator/src/authenticator", f) for f in ("extensions.rs", "get_assertion.rs", "make_credential.rs")]
    for f in srcs:
        try:
            text = open(f, encoding="utf-8").read()
        except OSError:
            continue
        k = text.find("#[cfg(test)]\nmod")
        text = text if k < 0 else text[:k]
        for m in re.finditer(r'b?"((?:\\.|[^"\\])*)"', text):
            try:
                lits.add(m.group(1).encode("utf-8").decode("unicode_escape").encode("latin-1", "ignore"))
            except Exception:
                lits.add(m.group(1).encode("utf-8"))
    cands = {}
    def add(b, why):
        if len(b) == 32: cands.setdefault(b, why)
        cands.setdefault(hashlib.sha256(b).digest(), "SHA-256 of " + why)
    for l in sorted(lits):
        add(l, "the string constant %r of the extension code" % l[:60])
        add(b"WebAuthn PRF\x00" + l, "the PRF salt of the string constant %r" % l[:60])
    add(bytes.fromhex(p["rp_id"]), "the RP ID"); add(bytes.fromhex(p["cred_id"]), "the credential id")
    if p.get("user_handle"): add(bytes.fromhex(p["user_handle"]), "the user handle")
    for blk in (bytes(32), b"\xff" * 32, bytes(range(32))):
        cands.setdefault(blk, "the fixed block %s.." % blk[:4].hex())
    return cands


def derived_secret_probe(run, binary, scenarios, outs):
    """The two PRF secrets of a credential are independent random draws (model: two [ERand] effects; source: Props/C06
    c06_secret_provenance_in_source).  When that tie is broken this is the search for a failing input: if a stored secret equals
    HMAC-SHA-256(other stored secret, c) for a public 32-byte c, an assertion with the pre-hashed salt c RETURNS that secret.
    Every credential with two secrets that any scenario left in a store is tested against the public candidates; each hit is
    replayed as a ceremony and judged by the ordinary scan."""
    seen, probes = set(), []
    for sc, out in zip(scenarios, outs):
        if "ops" not in out: continue
        snaps = [obs.get("store_after", []) for obs in out["ops"]]
        initial = {p["cred_id"]: ((p.get("hmac") or {}).get("w"), (p.get("hmac") or {}).get("wo")) for p in sc["store"]["content"]}
        for snap in snaps:
            for p in snap:
                h = p.get("hmac")
                if not h or not h.get("w") or not h.get("wo"): continue
                if initial.get(p["cred_id"]) == (h["w"], h["wo"]): continue      # the pair the driver generated: independent by construction
                key = (p["cred_id"], h["w"], h["wo"])
                if key in seen: continue
                seen.add(key)
                A, B = bytes.fromhex(h["w"]), bytes.fromhex(h["wo"])
                for c, why in public_candidates(p).items():
                    for gated, (k, v) in ((True, (A, B)), (False, (B, A))):
                        if ceremony.hmac_sha256(k, c) == v:
                            probes.append((p, c, why, gated, sc["config"]))
    fails = 0
    for p, c, why, gated, cfg in probes[:4]:
        rng = run.rng
        cid = bytes.fromhex(p["cred_id"])
        sc = scenario(store_kind="ref", content=[p], config=dict(cfg, hmac={"without_uv": True, "on_mc": True}),
                      user={"script": [{"presence": True, "verification": gated}]},
                      ops=[{"op": "get_assertion", "req": ga_req(rng, rp=bytes.fromhex(p["rp_id"]).decode(), allow=[cid], uv=gated, ext=prf_ext_ga(first=c))}])
        out = run_all(binary, [sc])[0]
        found = oracle(sc, out) if "ops" in out else []
        for f in found[:1]:
            run.violation(dict(f, kind="a stored PRF secret is returned to the relying party: one stored secret is HMAC-SHA-256(the other, %s), so an "
                                       "assertion with that value as pre-hashed salt returns it (%s)" % (why, f["kind"]), scenario=sc,
                               observed_result=out["ops"][f["op_index"]].get("result")))
            fails += 1
        if not found:
            run.violation({"kind": "the stored PRF secrets of a credential are not independent: one is HMAC-SHA-256(the other, %s)" % why,
                           "credential": p, "scenario": sc, "observed": out})
            fails += 1
    return {"credentials_with_two_secrets_tested": len(seen), "derivations_found": len(probes), "failures": fails}


def run_all(binary, scenarios):
    return common.harness_run(binary, scenarios, timeout=1200)


def check(run):
    import time
    rng = run.rng
    phases, t0 = {}, time.time()
    def mark(name):
        nonlocal t0
        phases[name] = round(time.time() - t0, 1); t0 = time.time()
    common.run_translator("status")
    common.run_translator("ceremony_skeleton")
    bad = common.hygiene_gate()
    if bad:
        raise common.Tie("hygiene gate: " + "; ".join(bad))
    common.coq_build(COQ_TARGETS)
    thms, assum = common.props_check(PROP)
    mark("coq build + Props")
    binary = common.harness_build("leak")
    mark("harness build")
    n = {"quick": (260, 160, 160), "thorough": (1500, 800, 800)}[run.tier]
    corpus = ceremony.load_corpus(PROP)
    scenarios = corpus + [gen_ctap(rng, run.tier) for _ in range(n[0] // 2)] + [gen_happy_ctap(rng, run.tier) for _ in range(n[0] // 2)] \
        + [gen_u2f(rng, run.tier) for _ in range(n[1])] \
        + [gen_client(rng, run.tier, happy=i % 2 == 0) for i in range(n[2])]
    outs = run_all(binary, scenarios)

    n_viol = 0
    crashed = [(si, o) for si, o in enumerate(outs) if "ops" not in o]
    for si, o in crashed[:3]:
        run.violation({"kind": "ceremony crashed the process or panicked", "scenario": scenarios[si], "observed": o}); n_viol += 1

    # ---- the property oracle, on every observation
    leaks, n_dumps, n_bytes, n_secrets, renderings, enc_hist = [], 0, 0, 0, {}, {}
    for si, (sc, out) in enumerate(zip(scenarios, outs)):
        if "ops" not in out: continue
        n_secrets += len(scenario_secrets(sc, out))
        for obs in out["ops"]:
            for what, b in op_dumps(obs):
                n_dumps += 1; n_bytes += len(b)
                w = re.sub(r"stored passkey \S+", "stored passkey", what)
                renderings[w] = renderings.get(w, 0) + 1
        for f in oracle(sc, out):
            leaks.append((si, f))
    for si, f in leaks[:4]:
        run.violation(dict(f, scenario=scenarios[si], observed_result=outs[si]["ops"][f["op_index"]].get("result"))); n_viol += 1

    run.cov["derived_secret_probe"] = derived_secret_probe(run, binary, scenarios, outs)
    n_viol += run.cov["derived_secret_probe"]["failures"]
    mark("run + scan (tied scenarios)")
    # ---- many more executions through the oracle alone (the scan is cheap; the replay in Coq is not)
    extra_n = {"quick": 3000, "thorough": 30000}[run.tier]
    extra_sigs, extra_ops, extra_leaks = set(), 0, 0
    for start in range(0, extra_n, 500):
        batch = []
        for i in range(start, min(extra_n, start + 500)):
            g = (gen_ctap, gen_happy_ctap, gen_u2f, gen_client, gen_happy_ctap, lambda r, t: gen_client(r, t, happy=True))[i % 6]
            batch.append(g(rng, run.tier))
        bouts = run_all(binary, batch)
        for sc, out in zip(batch, bouts):
            if "ops" not in out:
                if n_viol < 6:
                    run.violation({"kind": "ceremony crashed the process or panicked", "scenario": sc, "observed": out}); n_viol += 1
                continue
            extra_ops += len(out["ops"])
            n_secrets += len(scenario_secrets(sc, out))
            for obs in out["ops"]:
                for what, b in op_dumps(obs):
                    n_dumps += 1; n_bytes += len(b)
            extra_sigs.add(signature(sc, out))
            for f in oracle(sc, out):
                extra_leaks += 1
                if n_viol < 6:
                    run.violation(dict(f, scenario=sc, observed_result=out["ops"][f["op_index"]].get("result"))); n_viol += 1
        del bouts

    mark("run + scan (oracle-only scenarios)")
    # ---- correspondence of the models with the same executions
    ctap, client, u2f, dbg_seen, dbg = [], [], [], set(), []
    for si, (sc, out) in enumerate(zip(scenarios, outs)):
        if "ops" not in out: continue
        for oi, (op, obs) in enumerate(zip(sc["ops"], out["ops"])):
            if sc["mode"] == "client":
                if "origin_error" not in obs:
                    client.append((si, oi, op, obs, wop_case(sc["config"], op, obs)))
            elif op["op"].startswith("u2f_"):
                u2f.append((si, oi, op, obs, u2f_term(op, obs)))
            else:
                ctap.append((si, oi, op, obs, op_case(sc["config"], op, obs)))
            for s in obs.get("stored", []):
                key = (s["p"]["key"]["ec2"], s["p"]["counter"], s["dbg"], s["dbg_pretty"])
                if key not in dbg_seen:
                    dbg_seen.add(key); dbg.append((si, oi, op, s, debug_term(s)))
    r1 = common.coq_eval(PROP + "-ctap", ceremony.PREAMBLE, [t for *_, t in ctap], ["agree"], shard=200)
    r2 = common.coq_eval(PROP + "-client", ceremony.WPREAMBLE, [t for *_, t in client], ["wagree"], shard=100)
    r3 = common.coq_eval(PROP + "-u2f", UPREAMBLE, [t for *_, t in u2f], ["uagree"], shard=200)
    r4 = common.coq_eval(PROP + "-debug", DPREAMBLE, [t for *_, t in dbg], ["c06_agree"], shard=200)
    mark("replay in Coq")
    dis = [("ceremony/%s (Auth.CeremonyCheck.agree)" % ctap[i][2]["op"], ctap[i]) for i in r1["agree"]] \
        + [("client/%s (Auth.ClientCheck.wagree)" % client[i][2]["op"], client[i]) for i in r2["wagree"]] \
        + [("u2f/%s (Auth.U2fCheck.uagree, Auth/U2f.v)" % u2f[i][2]["op"], u2f[i]) for i in r3["uagree"]] \
        + [("Debug rendering of a stored passkey (Auth.C06Model.c06_agree, debug_plain / debug_pretty)", dbg[i]) for i in r4["c06_agree"]]
    if n_viol == 0:
        for what, (si, oi, op, obs, t) in dis[:1]:
            run.violation({"kind": "model and implementation disagree; the leak oracle found no secret in any of the %d renderings of this run" % n_dumps,
                           "broken": "correspondence " + what, "scenario": scenarios[si], "op_index": oi,
                           "observed": obs if "dbg" in obs else {k: v for k, v in obs.items() if k not in ("dumps", "stored")}},
                          found_input=False)

    files = ["theories/Auth/Prog.v", "theories/Auth/Monitor.v", "theories/Auth/Effects.v", "theories/Auth/Authenticator.v",
             "theories/Auth/Client.v", "theories/Auth/U2f.v", "theories/Auth/C06Model.v", "theories/Auth/C06Facts.v",
             "theories/Props/C06.v"]
    n_lem = common.count_lemmas(files)
    sigs = {signature(sc, out) for sc, out in zip(scenarios, outs) if "ops" in out}
    kinds = {}
    for lst in (ctap, client, u2f):
        for si, oi, op, obs, t in lst:
            r = obs["result"]
            k = "%s/%s" % (op["op"], "ok" if "ok" in r else "err:%s" % json.dumps(r.get("err"), sort_keys=True)[:40])
            kinds[k] = kinds.get(k, 0) + 1
    sample_i = len(corpus)
    run.cov.update({
        "obligations": n_lem, "discharged": n_lem,
        "checker_cmd": "make -C coq theories/Props/C06.vo (coqc 8.16.1, full .vo build) + hygiene gate + Print Assumptions",
        "trusted_base": ["Coq 8.16.1 kernel, vm_compute", "translators/status.py",
                         "correspondence: harness/src/bin/leak.rs + harness/src/instr.rs (instrumented CredentialStore / UserValidationMethod), driver/ceremony.py (term printers), driver/c06.py (U2F / Debug term printers; the U2F case type and check are Auth/U2fCheck.v)",
                         "leak oracle: driver/c06.py scan (raw, hex both cases, decimal list on whitespace-stripped text, base64/base64url at 3 alignments) over the dumps produced by leak.rs; "
                         "secrets are read from the store snapshots and from the passkeys crossing the store trait; ciborium / serde_json / derive(Debug) produce the renderings",
                         "each .await on a trait object = one effect call; rand/p256/hmac crates are the answers of internal events (ERand/EKeyGen/ESign/EHmac)",
                         "Print Assumptions: %d closed under the global context, axioms: %s" % (assum["closed"], assum["with_allowed_axioms"] or "none")],
        "theorems": thms,
        "evaluations": len(ctap) + len(client) + len(u2f) + len(dbg) + extra_ops,
        "oracle_only_scenarios": extra_n, "oracle_only_operations": extra_ops,
        "distinct_nontrivial": len(sigs | extra_sigs),
        "rule": "random histories: CTAP2 make_credential/get_assertion/get_info (direct and via Ctap2Api) with hmac-secret/prf requests, store faults and all store kinds; "
                "U2F register/authenticate (hits, misses, unusable stored keys, save faults); WebAuthn register/authenticate with prf / prf-already-hashed / credProps, "
                "bad origins and RP IDs, client-data variants; requests are drawn independently of the secrets. The first `scenarios - oracle_only_scenarios` "
                "scenarios are also replayed against the Coq models (tied_cases); the rest go through the leak oracle only. distinct = distinct (mode, store kind, hmac configuration, "
                "store size, per operation: kind, outcome, extension request shape, set of renderings produced)",
        "samples": [json.dumps(scenarios[sample_i])[:700], (u2f[len(u2f) // 2][4] if u2f else "")[:500], (dbg[0][4] if dbg else "")[:400]],
        "scenarios": len(scenarios) + extra_n, "corpus": len(corpus), "operations": len(ctap) + len(client) + len(u2f) + extra_ops,
        "renderings_scanned": n_dumps, "bytes_scanned": n_bytes, "secrets_tracked": n_secrets,
        "renderings_by_kind": dict(sorted(renderings.items())),
        "encodings_searched": ["raw bytes", "hex lower", "hex upper", "decimal list (any spacing)", "base64 x3 alignments", "base64url x3 alignments"],
        "leaks_found": len(leaks) + extra_leaks, "crashes": len(crashed),
        "model_disagreements": {"ctap2": len(r1["agree"]), "client": len(r2["wagree"]), "u2f": len(r3["uagree"]), "debug": len(r4["c06_agree"])},
        "tied_cases": {"ctap2": len(ctap), "client": len(client), "u2f": len(u2f), "debug_renderings_distinct": len(dbg)},
        "outcome_histogram": dict(sorted(kinds.items())),
        "phase_seconds": phases,
    })
    run.assumptions += [
        "the theorem is noninterference of the models (results equal for any two runs that differ only in secrets; dependence only through Sign and Hmac answers); "
        "literal absence of the secret bytes is the run-time oracle, not a theorem (a caller may send the secret as its challenge)",
        "Debug / Serialize output of third-party types (coset::CoseKey, ciborium::Value, bitflags) is observed by the oracle, not modelled",
        "the credential, including its secrets, is passed by reference to UserValidationMethod::check_user and to the CredentialStore: these are the embedder's own trait objects, not callers or relying parties",
    ]


def replay(payload):
    binary = common.harness_build("leak")
    sc = payload.get("scenario")
    out = common.harness_one(binary, sc)
    if "ops" not in out:
        print(json.dumps(out)[:2000]); return 1
    fails = oracle(sc, out)
    for f in fails[:10]:
        print(json.dumps(f)[:1200])
    print("%d finding(s) on replay" % len(fails))
    return 1 if fails else 0
