"""C16 - CTAPHID fragmentation and reassembly (passkey-transports/src/hid.rs)."""
import itertools, json, os
import common
from common import blit

PROP = "C16"
PREAMBLE = "From PK Require Import Lib.Bytes Lib.Check Hid.HidModel Hid.HidCheck.\nOpen Scope N_scope.\n"
COMMANDS = [0x03, 0x10, 0x06, 0x01, 0x11, 0x3F, 0x3B, 0x08, 0x04]
COQ_TARGETS = ["theories/Hid/HidCheck.vo"]
HARNESS_BINS = ["hid"]
COQ_FILES = ["theories/Lib/Bytes.v", "theories/Hid/HidModel.v", "theories/Hid/HidFacts.v", "theories/Props/C16.v"]


def opt_triple(o):
    if o is None:
        return "None"
    return "Some (%d, %d, %s)" % (o["ch"], o["cmd"], blit(bytes.fromhex(o["payload"])))


def gen_send_cases(run):
    rng = run.rng
    lens = [0, 1, 2, 54, 55, 56, 57, 58, 59, 7548, 7549, 7550, 7606, 7607, 7608, 7609, 7610, 65535, 65536]
    for k in (1, 2, 3, 10, 50, 100, 127):
        lens += [57 + 59 * k + d for d in (-3, -2, -1, 0, 1, 2)]
    n_boundary = len(lens)
    n_rand = 200 if run.tier == "quick" else 1500
    for _ in range(n_rand):
        r = rng.random()
        lens.append(rng.randrange(0, 300) if r < 0.6 else rng.randrange(300, 7700) if r < 0.95 else rng.randrange(7700, 70000))
    if run.tier == "thorough":
        lens += list(range(0, 7700, 7)) + list(range(7540, 7700))
    chans = [0, 1, 0xFFFFFFFF, 0x01020304, 0x80000000, 0x000000FF]
    cases = []
    for i, n in enumerate(lens):
        ch = chans[i % len(chans)] if i < 40 else rng.randrange(0, 1 << 32)
        cmd = COMMANDS[i % len(COMMANDS)]
        # the boundary lengths come in every style (a stale tail shows only when the bytes before it are not zero), the rest at random
        style = rng.randrange(4)
        if style == 0: payload = bytes(rng.randrange(256) for _ in range(n))
        elif style == 1: payload = bytes([0xFF]) * n        # non-zero tail makes stale-buffer bugs visible
        elif style == 2: payload = bytes((j * 7 + 1) % 256 for j in range(n))
        else: payload = bytes([0]) * n
        cases.append({"op": "send", "ch": ch, "cmd": cmd, "payload": payload.hex()})
        if i < n_boundary and n <= 7700:
            for alt in (bytes([0xFF]) * n, bytes((j * 7 + 1) % 256 for j in range(n)), bytes(rng.randrange(1, 256) for _ in range(n))):
                if alt != payload:
                    cases.append({"op": "send", "ch": ch, "cmd": cmd, "payload": alt.hex()})
    return cases


def merges(counts):
    """all interleavings of streams with the given packet counts (as lists of stream indices)"""
    if all(c == 0 for c in counts):
        yield []
        return
    for i, c in enumerate(counts):
        if c:
            counts[i] -= 1
            for rest in merges(counts):
                yield [i] + rest
            counts[i] += 1


def check(run):
    common.run_translator("hid_consts")
    bad = common.hygiene_gate()
    if bad:
        raise common.Tie("hygiene gate: " + "; ".join(bad))
    common.coq_build(["theories/Hid/HidCheck.vo"])
    thms, assum = common.props_check(PROP)
    binary = common.harness_build("hid")

    # ---- phase 1: sender
    send_cases = corpus("send") + gen_send_cases(run)
    send_out = common.harness_run(binary, send_cases)
    terms, wires = [], {}
    for c, o in zip(send_cases, send_out):
        if o.get("panic") or o.get("crash"):
            impl = "None"  # cannot happen in the model: shows up as disagreement
            o["ok"] = "panic"
        impl = "Some %s" % blit(bytes.fromhex(o["wire"])) if o.get("ok") is True else "None"
        terms.append("CSend %d %d %s (%s)" % (c["ch"], c["cmd"], blit(bytes.fromhex(c["payload"])), impl))
    all_cases = [("send", c, o) for c, o in zip(send_cases, send_out)]

    # ---- phase 2: receiver on the implementation's own packets, interleaved
    rng = run.rng
    accepted = [(c, o) for c, o in zip(send_cases, send_out) if o.get("ok") is True]
    def packets_of(o):
        w = bytes.fromhex(o["wire"])
        return [w[i:i + 64] for i in range(0, len(w), 64)]
    stream_cases = []
    # single streams: every accepted message round-trips alone
    for c, o in accepted[: (60 if run.tier == "quick" else 400)]:
        pk = packets_of(o)
        stream_cases.append(([c], [0] * len(pk), pk))
    # exhaustive interleavings of 2-3 (quick) / up to 4 (thorough) short streams on distinct channels
    short = [(c, o) for c, o in accepted if len(bytes.fromhex(o["wire"])) // 64 <= 3]
    by_n = {}
    for c, o in short:
        by_n.setdefault(len(bytes.fromhex(o["wire"])) // 64, []).append((c, o))
    shapes = [(1, 2), (2, 2), (2, 3), (3, 3), (1, 2, 3), (2, 2, 2), (3, 3, 2)] if run.tier == "quick" else \
             [(1, 2), (2, 2), (2, 3), (3, 3), (1, 2, 3), (2, 2, 2), (3, 3, 2), (3, 3, 3), (2, 2, 2, 2), (3, 3, 2, 2)]
    n_exh = 0
    for shape in shapes:
        if not all(by_n.get(n) for n in shape):
            continue
        picks, used = [], set()
        for n in shape:
            cand = [(c, o) for c, o in by_n[n] if c["ch"] not in used]
            if not cand: break
            c, o = cand[rng.randrange(len(cand))]
            used.add(c["ch"]); picks.append((c, o))
        if len(picks) != len(shape): continue
        pks = [packets_of(o) for _, o in picks]
        allm = list(merges(list(shape)))
        if len(allm) > 3000:
            allm = rng.sample(allm, 3000)
        for sched in allm:
            pos = [0] * len(shape); merged = []
            for i in sched:
                merged.append(pks[i][pos[i]]); pos[i] += 1
            stream_cases.append(([c for c, _ in picks], sched, merged)); n_exh += 1
    # sampled interleavings of long streams
    longs = [(c, o) for c, o in accepted if len(bytes.fromhex(o["wire"])) // 64 > 3]
    for _ in range(20 if run.tier == "quick" else 200):
        k = rng.randrange(2, 5)
        picks, used = [], set()
        for c, o in rng.sample(longs + short, min(len(longs + short), 12)):
            if c["ch"] not in used and len(picks) < k:
                used.add(c["ch"]); picks.append((c, o))
        pks = [packets_of(o) for _, o in picks]
        sched = [i for i, p in enumerate(pks) for _ in p]
        rng.shuffle(sched)
        pos = [0] * len(pks); merged = []
        for i in sched:
            merged.append(pks[i][pos[i]]); pos[i] += 1
        stream_cases.append(([c for c, _ in picks], sched, merged))
    recv_in = [{"op": "recv", "packets": [p.hex() for p in merged]} for _, _, merged in stream_cases]

    # ---- phase 2b: a message abandoned after its init packet and k continuation packets, then a complete new message on
    # the SAME channel (the receiver drops the unfinished one): the new message must be delivered, once, on its last packet
    multi = [(c, o) for c, o in accepted if len(bytes.fromhex(o["wire"])) // 64 >= 2]
    reuse_cases = []
    for _ in range(40 if run.tier == "quick" else 400):
        if len(multi) < 2: break
        (ca, oa), (cb, ob) = rng.sample(multi, 2)
        pa, pb = packets_of(oa), packets_of(ob)
        ch = ca["ch"].to_bytes(4, "little")
        pb = [ch + p[4:] for p in pb]                       # same channel as the abandoned message
        k = rng.randrange(0, len(pa))                       # init + k-1 continuations of A were seen (k = 0: nothing)
        reuse_cases.append((dict(cb, ch=ca["ch"]), pa[:k], pb))
    reuse_in = [{"op": "recv", "packets": [p.hex() for p in pre + pb]} for _, pre, pb in reuse_cases]
    # ---- phase 2c: a message completes, then continuation packets arrive on that channel with no new init packet - carrying on the
    # old numbering, starting again at 0, or repeating the last one: a channel with no message in progress yields nothing
    after_cases = []
    for (c, o) in (multi[:25] if run.tier == "quick" else multi[:250]):
        pk = packets_of(o)
        ch = pk[0][:4]
        ncont = len(pk) - 1
        for tag, seqs in (("carrying on", list(range(ncont, ncont + len(pk) + 2))), ("from zero", list(range(0, len(pk) + 1))), ("repeated", [ncont - 1] * 3)):
            strays = [ch + bytes([q & 0x7f]) + bytes((7 * j + q) % 251 + 1 for j in range(59)) for q in seqs if 0 <= q]
            after_cases.append((c, pk, strays, tag))
    after_in = [{"op": "recv", "packets": [p.hex() for p in pk + strays]} for _, pk, strays, _ in after_cases]

    # ---- phase 3: arbitrary / malformed packet sequences (model correspondence on error paths)
    mal = corpus("recv")
    for _ in range(300 if run.tier == "quick" else 3000):
        seq = []
        chs = [rng.randrange(1 << 32) for _ in range(2)]
        for _ in range(rng.randrange(1, 8)):
            ln = rng.choice([0, 1, 3, 4, 5, 6, 7, 8, 10, 63, 64, 64, 64, 65, 100])
            p = bytearray(rng.randrange(256) for _ in range(ln))
            if ln >= 4 and rng.random() < 0.8:
                p[0:4] = chs[rng.randrange(2)].to_bytes(4, "little")
            if ln >= 5:
                r = rng.random()
                if r < 0.4: p[4] = 0x80 | rng.choice(COMMANDS)
                elif r < 0.8: p[4] = rng.randrange(0, 4)
            if ln >= 7 and p[4] & 0x80 and rng.random() < 0.7:
                bc = rng.choice([0, 1, 56, 57, 58, 60, 116, 117, 200, 7609, 65535, ln - 7 if ln >= 7 else 0])
                p[5:7] = bc.to_bytes(2, "big")
            seq.append(bytes(p))
        mal.append({"op": "recv", "packets": [p.hex() for p in seq]})
    recv_out_all = common.harness_run(binary, recv_in + mal + reuse_in + after_in)
    recv_out, reuse_out = recv_out_all[:len(recv_in) + len(mal)], recv_out_all[len(recv_in) + len(mal):len(recv_in) + len(mal) + len(reuse_in)]
    after_out = recv_out_all[len(recv_in) + len(mal) + len(reuse_in):]

    def outs_term(o):
        if "outs" not in o:
            return None
        return "[" + "; ".join(opt_triple(x) for x in o["outs"]) + "]"
    crashed = []
    for (msgs, sched, merged), o in zip(stream_cases, recv_out[:len(recv_in)]):
        ot = outs_term(o)
        if ot is None:
            crashed.append(({"op": "recv", "packets": [p.hex() for p in merged]}, o)); continue
        mt = "[" + "; ".join("(%d, %d, %s)" % (m["ch"], m["cmd"], blit(bytes.fromhex(m["payload"]))) for m in msgs) + "]"
        terms.append("CStreams %s [%s]%%nat [%s] %s" % (mt, "; ".join(map(str, sched)), "; ".join(blit(p) for p in merged), ot))
        all_cases.append(("streams", {"msgs": msgs, "sched": sched, "packets": [p.hex() for p in merged]}, o))
    for c, o in zip(mal, recv_out[len(recv_in):]):
        ot = outs_term(o)
        if ot is None:
            crashed.append((c, o)); continue
        terms.append("CRecv [%s] %s" % ("; ".join(blit(bytes.fromhex(p)) for p in c["packets"]), ot))
        all_cases.append(("recv", c, o))

    reuse_fail = []
    for (m, pre, pb), c, o in zip(reuse_cases, reuse_in, reuse_out):
        ot = outs_term(o)
        if ot is None:
            crashed.append((c, o)); continue
        outs = o["outs"]
        want = [None] * (len(pre) + len(pb) - 1) + [{"ch": m["ch"], "cmd": m["cmd"], "payload": m["payload"]}]
        # a complete single-packet prefix message may itself be delivered: only the new message's packets are judged
        got = outs[len(pre):]
        if got != want[len(pre):]:
            reuse_fail.append((dict(c, note="a new message on a channel whose previous message was abandoned after %d packet(s) is not delivered "
                                            "exactly once on its last packet" % len(pre)), o))
        terms.append("CRecv [%s] %s" % ("; ".join(blit(bytes.fromhex(p)) for p in c["packets"]), ot))
        all_cases.append(("recv", c, o))
    for (m, pk, strays, tag), c, o in zip(after_cases, after_in, after_out):
        ot = outs_term(o)
        if ot is None:
            crashed.append((c, o)); continue
        want = [None] * (len(pk) - 1) + [{"ch": m["ch"], "cmd": m["cmd"], "payload": m["payload"]}] + [None] * len(strays)
        if o["outs"] != want:
            k = next(i for i, (a, b) in enumerate(zip(o["outs"], want)) if a != b)
            reuse_fail.append((dict(c, note="after a message of %d packets completed, continuation packets (%s) on that channel - which has no message in "
                                            "progress - are not ignored: packet #%d yields %s" % (len(pk), tag, k, "a message of %d bytes" % (len(o["outs"][k]["payload"]) // 2) if o["outs"][k] else "nothing where the message was due")), o))
        terms.append("CRecv [%s] %s" % ("; ".join(blit(bytes.fromhex(p)) for p in c["packets"]), ot))
        all_cases.append(("recv", c, o))
    for c, o in reuse_fail[:2]:
        run.violation({"kind": "receiver: " + c["note"], "case": c, "observed": o})

    res = common.coq_eval(PROP, PREAMBLE, terms, ["agree", "oracle"], shard=120)

    # ---- verdict
    for c, o in crashed[:3]:
        run.violation({"kind": "receiver crashed (panic/abort) on a packet sequence", "case": c, "observed": o})
    for i in res["oracle"][:3]:
        kind, c, o = all_cases[i]
        run.violation({"kind": "property oracle false on the implementation's observation (%s)" % kind,
                       "case": c, "observed": o})
    if not res["oracle"] and not crashed and not reuse_fail:
        for i in res["agree"][:1]:
            kind, c, o = all_cases[i]
            run.violation({"kind": "model and implementation disagree (%s); oracle true on all %d cases of this run" % (kind, len(terms)),
                           "broken": "correspondence hid/%s (Hid.HidCheck.agree)" % kind,
                           "case": c, "observed": o,
                           "model": common.coq_show(PROP, PREAMBLE, "let c := %s in match c with CSend ch cmd p _ => (message_new ch cmd p, None) | CRecv ps _ | CStreams _ _ ps _ => (None, run [] ps) end" % terms[i]) if len(terms[i]) < 20000 else "(large)"},
                          found_input=False)

    n_lem = common.count_lemmas(COQ_FILES)
    sig = set()
    for kind, c, o in all_cases:
        if kind == "send":
            n = len(c["payload"]) // 2
            sig.add(("send", min(n, 7700) if n < 60 or n > 7500 else n // 59, o.get("ok")))
        elif kind == "streams":
            sig.add(("streams", len(c["msgs"]), tuple(c["sched"][:6])))
        else:
            sig.add(("recv", tuple(len(p) // 2 for p in c["packets"]), json.dumps(o)[:40]))
    run.cov.update({
        "obligations": n_lem, "discharged": n_lem,
        "checker_cmd": "make -C coq theories/Props/C16.vo (coqc 8.16.1, full .vo build) + hygiene gate + Print Assumptions",
        "trusted_base": ["Coq 8.16.1 kernel, vm_compute", "translators/hid_consts.py", "correspondence harness (pkharness hid) + driver/c16.py",
                         "Print Assumptions: %d closed under the global context, axioms: %s" % (assum["closed"], assum["with_allowed_axioms"] or "none")],
        "theorems": thms,
        "evaluations": len(terms), "distinct_nontrivial": len(sig),
        "rule": "send: payload lengths at every packet boundary +-1, protocol limit +-2, random; all 9 commands; recv: each accepted message alone, "
                "exhaustive interleavings of 2-4 short streams on distinct channels (%d), sampled long interleavings, random malformed packet sequences; "
                "distinct = (kind, length class/shape, outcome)" % n_exh,
        "samples": [terms[0][:300], terms[len(send_cases)][:300] if len(terms) > len(send_cases) else "", terms[-1][:300]],
        "model_disagreements": len(res["agree"]), "oracle_failures": len(res["oracle"]), "crashes": len(crashed),
        "send_cases": len(send_cases), "stream_cases": len(stream_cases), "malformed_sequences": len(mal),
        "exhaustive_interleavings": n_exh, "abandoned_then_new_message_cases": len(reuse_cases), "abandoned_then_new_failures": len(reuse_fail),
    })
    run.assumptions += ["Write::write accepts whole 64-byte packets (Vec, HID report)", "channel bytes are native-endian; check platform is little-endian"]


def corpus(kind):
    d = os.path.join(common.VERIF, "corpus", PROP)
    out = []
    if os.path.isdir(d):
        for f in sorted(os.listdir(d)):
            c = json.load(open(os.path.join(d, f)))
            if c.get("op") == kind:
                out.append(c)
    return out


def replay(payload):
    binary = common.harness_build("hid")
    c = payload["case"]
    if "op" not in c:
        c = {"op": "recv", "packets": c["packets"]}
    print(json.dumps(common.harness_one(binary, c))[:2000])
    return 0
