"""C11 - discoverability follows the request and the store's capability and is reported truthfully.

Correspondence and oracle over the COMPLETE finite product of the property's quantifier:
store capability (full / only non-discoverable / forced) x residentKey (absent, discouraged, preferred,
required) x requireResidentKey x credProps request (absent, absent inside an extensions object, false,
true), plus an absent authenticatorSelection, at the WebAuthn client; and store capability x CTAP rk at the
authenticator.  Every registration is followed by an assertion with the credential just created (without an
allow list in the same scenario, and with an allow list naming it in a follow-up scenario built from the store
content the registration left behind, next to a decoy credential of opposite kind, once with and once without
user verification).

Only the harness' reference store can be configured with a capability; the stores shipped with the library have
a fixed one (MemoryStore and Option<Passkey>: ForcedDiscoverable, credential_store.rs), their lock wrappers
delegate.  The capability each store kind answered is measured from the log and written to the evidence.

The Python oracle below shares nothing with the model: it re-transcribes the two tables and reads only the
instrumented store's log (`options`, saved passkey), the store content and the results."""
import json
import common, ceremony
from ceremony import *

PROP = "C11"
COQ_TARGETS = ["theories/Auth/ClientCheck.vo", "theories/Auth/C11Facts.vo", "theories/Auth/U2fCheck.vo", "theories/Auth/U2fFacts.vo"]
import c17cer
HARNESS_BINS = ceremony.HARNESS_BINS + c17cer.HARNESS_BINS
replay = ceremony.replay
EXTRA = "From PK Require Import Auth.C11Facts.\n"
UNSUPPORTED_OPTION = 0x2B
USER_ID = bytes([7] * 8)

# ------------------------------------------------------------------------------------------------
# the specification, transcribed independently of Coq and of the code

# WebAuthn L3 5.1.3: effective resident key requirement.
# (residentKey, requireResidentKey, authenticator capable of client-side discoverable credentials) -> rk
WEBAUTHN_RK = {
    ("required", False, False): True, ("required", False, True): True,
    ("required", True, False): True, ("required", True, True): True,
    ("preferred", False, False): False, ("preferred", False, True): True,
    ("preferred", True, False): False, ("preferred", True, True): True,
    ("discouraged", False, False): False, ("discouraged", False, True): False,
    ("discouraged", True, False): False, ("discouraged", True, True): False,
    (None, False, False): False, (None, False, True): False,
    (None, True, False): True, (None, True, True): True,
}

# property statement: "full: as requested; non-discoverable only: never; forced: always"
DISCOVERABLE = {("full", False): False, ("full", True): True,
                ("only_non", False): False, ("only_non", True): False,
                ("forced", False): True, ("forced", True): True}


def spec_rk(selection, capable):
    if selection is None:            # absent authenticatorSelection = empty dictionary
        return WEBAUTHN_RK[(None, False, capable)]
    return WEBAUTHN_RK[(selection.get("rk"), bool(selection.get("require_rk", False)), capable)]


# ------------------------------------------------------------------------------------------------
# scenarios

def store_configs(tier):
    cfgs = [("ref", "full"), ("ref", "only_non"), ("ref", "forced"), ("memory", None), ("option", None),
            # a store with its own capability behind the lock wrappers: the wrapper must report the inner store's capability
            ("arc_mutex_ref", "only_non"), ("arc_rwlock_ref", "only_non"), ("arc_rwlock_ref", "full")]
    if tier != "quick":
        cfgs += [(k, d) for k in ("arc_rwlock_ref", "arc_mutex_ref") for d in ("full", "only_non", "forced") if (k, d) not in cfgs]
        cfgs += [(k, None) for k in ("arc_mutex_memory", "arc_rwlock_memory", "mutex_memory", "rwlock_memory", "arc_mutex_option")]
    return cfgs


SELECTIONS = [("sel-absent", None)] + [
    ("%s/%s" % (rk, rr), {"rk": rk, "require_rk": rr, "uv": "preferred"})
    for rk in (None, "discouraged", "preferred", "required") for rr in (False, True)]
CRED_PROPS = [("absent", None), ("absent-in-ext", wext(cred_props=None)), ("false", wext(cred_props=False)), ("true", wext(cred_props=True))]


def is_memory(kind):
    return "memory" in kind


def client_product(run):
    scs, meta = [], []
    for kind, disc in store_configs(run.tier):
        for sname, sel in SELECTIONS:
            for cname, ext in CRED_PROPS:
                ops = [reg_op(run.rng, selection=sel, ext=ext, user_id=USER_ID), auth_op(run.rng, allow=None)]
                sc = client_scenario(store_kind=kind, disc=disc or "full", ops=ops, config={"counter": len(scs) % 2 == 0})
                sc["c11"] = {"plain": True, "phase": 1}
                scs.append(sc); meta.append(("client", kind, disc, sname, cname, 1))
    # the storage rule does not depend on user verification: the same product with verification discouraged and NOT performed
    # (configured or absent on the authenticator), and with verification required, for the credProps-requesting registration
    for kind, disc in store_configs(run.tier):
        for sname, sel in SELECTIONS[1:]:
            for uv, verif, ans in (("discouraged", True, False), ("discouraged", None, False), ("discouraged", True, True), ("required", True, True)):
                ops = [reg_op(run.rng, selection=dict(sel, uv=uv), ext=wext(cred_props=True), user_id=USER_ID), auth_op(run.rng, allow=None, uv=uv)]
                sc = client_scenario(store_kind=kind, disc=disc or "full", ops=ops, config={"counter": len(scs) % 2 == 0},
                                     user={"verif_enabled": verif, "script": [{"presence": True, "verification": ans}] * 2})
                sc["c11"] = {"plain": True, "phase": 1}
                scs.append(sc); meta.append(("client", kind, disc, sname, "uv=%s/%s/%s" % (uv, verif, ans), 1))
    return scs, meta


def ctap_product(run):
    scs, meta = [], []
    for kind, disc in store_configs(run.tier):
        for rk in (False, True):
            ops = [{"op": "get_info"}, {"op": "make_credential", "req": mc_req(run.rng, rk=rk, uv=True, user_id=USER_ID)},
                   {"op": "get_assertion", "req": ga_req(run.rng, allow=None, uv=True)}]
            sc = scenario(store_kind=kind, disc=disc or "full", ops=ops, config={"counter": True})
            sc["c11"] = {"plain": True, "phase": 1}
            scs.append(sc); meta.append(("ctap", kind, disc, rk, 1))
            # without user verification (configured but not asked for / absent): the storage rule is the same
            for verif in (True, None):
                ops = [{"op": "get_info"}, {"op": "make_credential", "req": mc_req(run.rng, rk=rk, uv=False, user_id=USER_ID)},
                       {"op": "get_assertion", "req": ga_req(run.rng, allow=None, uv=False)}]
                sc = scenario(store_kind=kind, disc=disc or "full", ops=ops, config={"counter": True},
                              user={"verif_enabled": verif, "script": [{"presence": True, "verification": False}] * 2})
                sc["c11"] = {"plain": True, "phase": 1}
                scs.append(sc); meta.append(("ctap", kind, disc, rk, "uv=False/%s" % verif))
    return scs, meta


def decoy(rng, like):
    """a second credential of the same RP with the opposite kind of user handle, stored first"""
    return mk_passkey(rng, bytes.fromhex(like["rp_id"]).decode(), cred_id=bytes([0xDE] * 16),
                      user_handle=None if like["user_handle"] is not None else b"\xDD\xDD", keyidx=1)


def follow_ups(run, scs, meta, outs, client):
    """for every registration that left a credential behind: a scenario whose store holds that credential
    (after a decoy) and whose one operation asserts with an allow list naming it"""
    out_scs, out_meta = [], []
    for sc, m, out in zip(scs, meta, outs):
        if "ops" not in out:
            continue
        reg_index = 0 if client else 1
        obs = out["ops"][reg_index]
        saves = [e for e in obs["log"] if e["c"] == "save" and "ok" in e["r"]]
        if "ok" not in obs["result"] or not saves:
            continue
        cid = saves[0]["p"]["cred_id"]
        stored = [p for p in obs["store_after"] if p["cred_id"] == cid]
        if not stored:
            continue
        kind = sc["store"]["kind"]
        content = stored if "option" in kind else [decoy(run.rng, stored[0])] + stored
        # two assertions: with user verification, and without (uv discouraged / not requested, the user is present only)
        user = {"script": [{"presence": True, "verification": True}, {"presence": True, "verification": False}]}
        if client:
            ops = [auth_op(run.rng, allow=[bytes.fromhex(cid)]), auth_op(run.rng, allow=[bytes.fromhex(cid)], uv="discouraged")]
            s2 = client_scenario(store_kind=kind, disc=sc["store"]["disc"], content=content, ops=ops, user=user)
        else:
            ops = [{"op": "get_assertion", "req": ga_req(run.rng, allow=[bytes.fromhex(cid)], uv=True)},
                   {"op": "get_assertion", "req": ga_req(run.rng, allow=[bytes.fromhex(cid)], uv=False)}]
            s2 = scenario(store_kind=kind, disc=sc["store"]["disc"], content=content, ops=ops, user=user)
        s2["c11"] = {"plain": True, "phase": 2, "expect_cred": cid,
                     "cred_props": (obs["result"]["ok"].get("cred_props") if client else None)}
        out_scs.append(s2); out_meta.append(tuple(m[:-1]) + (2,))
    return out_scs, out_meta


# ------------------------------------------------------------------------------------------------
# the independent oracle

def infos_of(log):
    return [e["r"] for e in log if e["c"] == "info"]


def check_saves(log, rk, user_id, fails, what):
    """every save: options.rk as specified; user handle stored iff discoverable under the capability the store
    answered last before the save"""
    last = None
    for e in log:
        if e["c"] == "info":
            last = e["r"]
        elif e["c"] == "save":
            if e["opts"]["rk"] != rk:
                fails.append("%s: options.rk sent to the store is %s, the specification says %s" % (what, e["opts"]["rk"], rk))
            if e["user"]["id"] != user_id:
                fails.append("%s: saved for a different user id" % what)
            if last is None:
                fails.append("%s: credential saved without asking the store for its capability" % what)
                continue
            want = user_id if DISCOVERABLE[(last, rk)] else None
            if e["p"]["user_handle"] != want:
                fails.append("%s: capability %s, rk %s: stored user handle %s, expected %s" % (what, last, rk, e["p"]["user_handle"], want))


def check_assertion(op_allow, obs, before, fails, plain, expect_ok, client):
    res = obs["result"]
    if "ok" not in res:
        if plain and expect_ok:
            fails.append("assertion with the credential just created failed: %s" % json.dumps(res))
        return None
    o = res["ok"]
    finds = [e for e in obs["log"] if e["c"] == "find"]
    if not finds or "ok" not in finds[0]["r"] or not finds[0]["r"]["ok"]:
        fails.append("successful assertion without a successful lookup")
        return None
    used = finds[0]["r"]["ok"][0]
    cid = o["raw_id"] if client else o["cred_id"]
    # an assertion may advance the counter of the credential it used; the user handle of every stored credential stays
    after = {p["cred_id"]: p for p in obs.get("store_after", [])}
    for p in before:
        if p["cred_id"] in after and after[p["cred_id"]]["user_handle"] != p["user_handle"]:
            fails.append("an assertion changed the stored user handle of credential %s from %s to %s"
                         % (p["cred_id"], p["user_handle"], after[p["cred_id"]]["user_handle"]))
    if cid != used["cred_id"]:
        fails.append("assertion names credential %s, the lookup selected %s" % (cid, used["cred_id"]))
    if o["user_handle"] != used["user_handle"]:
        fails.append("assertion returned user handle %s, the credential used stores %s" % (o["user_handle"], used["user_handle"]))
    held = [p for p in before if p["cred_id"] == cid]
    if held and (o["user_handle"] is None) != (held[0]["user_handle"] is None):
        fails.append("assertion returned a user handle: %s, the store holds one for that credential: %s"
                     % (o["user_handle"] is not None, held[0]["user_handle"] is not None))
    if held and o["user_handle"] is not None and o["user_handle"] != held[0]["user_handle"]:
        fails.append("assertion returned a user handle that is not the stored one")
    return o


def content_before(sc):
    content = sc["store"]["content"]
    if "option" in sc["store"]["kind"]:
        content = content[-1:]
    return content


def client_oracle(sc, out):
    fails = []
    tag = sc.get("c11", {})
    plain = tag.get("plain", False)
    before = content_before(sc)
    registered = None        # (cred id, user handle stored, credProps output) of this scenario's registration
    for op, obs in zip(sc["ops"], out["ops"]):
        if "origin_error" in obs:
            continue
        log, res = obs["log"], obs["result"]
        infos = infos_of(log)
        if len(set(infos)) > 1:
            fails.append("the store's capability answer changed during one ceremony: %s" % infos)
        # a store with a configured capability (the harness's reference store, bare or behind a lock wrapper) must be seen
        # with exactly that capability by the ceremony
        if "ref" in sc["store"]["kind"] and any(i != sc["store"]["disc"] for i in infos):
            fails.append("the store was built with capability %s but the ceremony was answered %s (store kind %s)"
                         % (sc["store"]["disc"], sorted(set(infos)), sc["store"]["kind"]))
        if op["op"] == "register":
            q = op["req"]
            if not infos:
                fails.append("registration did not ask for the authenticator's capabilities"); continue
            cap = infos[0]
            rk = spec_rk(q["selection"], cap != "only_non")
            check_saves(log, rk, q["user"]["id"], fails, "register")
            saves = [e for e in log if e["c"] == "save"]
            refused = rk and cap == "only_non"
            if refused:
                if saves:
                    fails.append("a required resident key on a store that only holds non-discoverable credentials was saved")
                if "ok" in res:
                    fails.append("a required resident key on a store that only holds non-discoverable credentials was not refused")
                elif plain and res["err"] != {"kind": "AuthenticatorError", "code": UNSUPPORTED_OPTION}:
                    fails.append("refusal of a required resident key reported as %s instead of UnsupportedOption" % json.dumps(res["err"]))
                if obs["store_after"] != before:
                    fails.append("the store changed although the registration was refused")
            elif "err" in res and plain:
                fails.append("capability %s, specified rk %s: registration must produce a credential, it failed with %s"
                             % (cap, rk, json.dumps(res["err"])))
            if "ok" in res:
                o = res["ok"]
                oks = [e for e in saves if "ok" in e["r"]]
                if len(oks) != 1:
                    fails.append("successful registration with %d successful saves" % len(oks))
                else:
                    saved = oks[0]["p"]
                    if saved["cred_id"] != o["raw_id"]:
                        fails.append("registration returned a credential id that is not the saved one")
                    held = [p for p in obs["store_after"] if p["cred_id"] == saved["cred_id"]]
                    uh = held[0]["user_handle"] if held else saved["user_handle"]
                    if held and held[0]["user_handle"] != saved["user_handle"]:
                        fails.append("the store holds a different user handle than the one it was asked to save")
                    requested = (q["ext"] or {}).get("cred_props")
                    cp = o["cred_props"]
                    if requested is True:
                        if cp is None or cp["rk"] is None:
                            fails.append("credProps requested, no output")
                        else:
                            if cp["rk"] != (uh is not None):
                                fails.append("credProps.rk = %s, stored credential carries a user handle: %s" % (cp["rk"], uh is not None))
                            if cp["rk"] != DISCOVERABLE[(infos[-1], rk)]:
                                fails.append("credProps.rk = %s, capability %s and rk %s say %s" % (cp["rk"], infos[-1], rk, DISCOVERABLE[(infos[-1], rk)]))
                    elif cp is not None:
                        fails.append("credProps output although it was not requested with true")
                    registered = (saved["cred_id"], uh, cp if requested is True else None)
        else:
            expect_ok = False
            if tag.get("phase") == 2:
                expect_ok = True
            elif registered is not None and not is_memory(sc["store"]["kind"]):
                expect_ok = True      # MemoryStore answers NoCredentials to a lookup without ids (C05 known finding)
            o = check_assertion(op["req"]["allow"], obs, before, fails, plain, expect_ok, client=True)
            if o is not None:
                if registered is not None and o["raw_id"] == registered[0]:
                    if (o["user_handle"] is None) != (registered[1] is None):
                        fails.append("assertion with the new credential: user handle returned %s, stored %s" % (o["user_handle"], registered[1]))
                    if registered[2] is not None and registered[2]["rk"] != (o["user_handle"] is not None):
                        fails.append("credProps.rk at registration was %s, the assertion returned a user handle: %s" % (registered[2]["rk"], o["user_handle"] is not None))
                if tag.get("phase") == 2:
                    if o["raw_id"] != tag["expect_cred"]:
                        fails.append("assertion with an allow list naming the new credential used another one")
                    cp = tag.get("cred_props")
                    if cp is not None and cp["rk"] is not None and cp["rk"] != (o["user_handle"] is not None):
                        fails.append("credProps.rk at registration was %s, the assertion returned a user handle: %s" % (cp["rk"], o["user_handle"] is not None))
        before = obs["store_after"]
    return fails


def ctap_oracle(sc, out):
    fails = []
    tag = sc.get("c11", {})
    plain = tag.get("plain", False)
    before = content_before(sc)
    registered = None
    for op, obs in zip(sc["ops"], out["ops"]):
        log, res = obs["log"], obs["result"]
        kind = op["op"].replace("trait_", "")
        infos = infos_of(log)
        if len(set(infos)) > 1:
            fails.append("the store's capability answer changed during one ceremony: %s" % infos)
        # a store with a configured capability (the harness's reference store, bare or behind a lock wrapper) must be seen
        # with exactly that capability by the ceremony
        if "ref" in sc["store"]["kind"] and any(i != sc["store"]["disc"] for i in infos):
            fails.append("the store was built with capability %s but the ceremony was answered %s (store kind %s)"
                         % (sc["store"]["disc"], sorted(set(infos)), sc["store"]["kind"]))
        if kind == "get_info":
            if not infos or res["ok"]["rk"] != (infos[0] != "only_non"):
                fails.append("getInfo reports rk = %s for store capability %s" % (res["ok"]["rk"], infos))
        elif kind == "make_credential":
            q = op["req"]
            rk = q["opts"]["rk"]
            check_saves(log, rk, q["user"]["id"], fails, "make_credential")
            saves = [e for e in log if e["c"] == "save"]
            for e in saves:
                if e["opts"] != q["opts"]:
                    fails.append("make_credential: options handed to the store differ from the request's")
            refused = rk and bool(infos) and infos[0] == "only_non"
            if refused:
                if saves or obs["store_after"] != before:
                    fails.append("rk on a store that only holds non-discoverable credentials was saved")
                if "ok" in res or (not res.get("cancelled") and res.get("err") != UNSUPPORTED_OPTION):
                    fails.append("rk on a store that only holds non-discoverable credentials: result %s instead of UnsupportedOption" % json.dumps(res)[:120])
            elif "err" in res and plain:
                fails.append("capability %s, rk %s: make_credential must produce a credential, it failed with %s" % (infos, rk, res["err"]))
            if "ok" in res:
                oks = [e for e in saves if "ok" in e["r"]]
                if len(oks) != 1:
                    fails.append("successful make_credential with %d successful saves" % len(oks))
                else:
                    saved = oks[0]["p"]
                    held = [p for p in obs["store_after"] if p["cred_id"] == saved["cred_id"]]
                    if held and held[0]["user_handle"] != saved["user_handle"]:
                        fails.append("the store holds a different user handle than the one it was asked to save")
                    registered = (saved["cred_id"], held[0]["user_handle"] if held else saved["user_handle"])
        elif kind == "get_assertion":
            expect_ok = tag.get("phase") == 2 or (registered is not None and not is_memory(sc["store"]["kind"]))
            o = check_assertion(op["req"]["allow"], obs, before, fails, plain, expect_ok, client=False)
            if o is not None:
                if registered is not None and o["cred_id"] == registered[0] and (o["user_handle"] is None) != (registered[1] is None):
                    fails.append("assertion with the new credential: user handle returned %s, stored %s" % (o["user_handle"], registered[1]))
                if tag.get("phase") == 2 and o["cred_id"] != tag["expect_cred"]:
                    fails.append("assertion with an allow list naming the new credential used another one")
        before = obs["store_after"]
    return fails


# ------------------------------------------------------------------------------------------------

def measure(scs, outs, client, acc):
    """what the run actually exercised (for the evidence): capability answered per store kind, registrations
    by (capability, rk sent, user handle stored, credProps), refusals, assertions with/without user handle"""
    for sc, out in zip(scs, outs):
        if "ops" not in out:
            continue
        for op, obs in zip(sc["ops"], out["ops"]):
            if "log" not in obs:
                continue
            for r in infos_of(obs["log"]):
                acc["capability_by_store_kind"].setdefault(sc["store"]["kind"], set()).add(r)
            kind = op["op"]
            res = obs["result"]
            if kind in ("register", "make_credential"):
                infos = infos_of(obs["log"])
                for e in obs["log"]:
                    if e["c"] == "save":
                        cp = res["ok"].get("cred_props") if client and "ok" in res else None
                        key = "%s cap=%s rk=%s user_handle=%s credProps=%s" % (kind, infos[0] if infos else None, e["opts"]["rk"],
                                                                              e["p"]["user_handle"] is not None, None if cp is None else cp["rk"])
                        acc["registrations"][key] = acc["registrations"].get(key, 0) + 1
                if "err" in res and not any(e["c"] == "save" for e in obs["log"]):
                    acc["refusals"] += 1
            elif kind in ("authenticate", "get_assertion") and "ok" in res:
                k = "user_handle" if res["ok"]["user_handle"] is not None else "no_user_handle"
                acc["assertions"][k] = acc["assertions"].get(k, 0) + 1


def check(run):
    binary = common.harness_build("ceremony")
    acc = {"capability_by_store_kind": {}, "registrations": {}, "refusals": 0, "assertions": {}}
    files = ["theories/Auth/Authenticator.v", "theories/Auth/Client.v", "theories/Auth/StoreFacts.v", "theories/Auth/History.v",
             "theories/Auth/C11Facts.v"]
    rule = ("complete enumeration: store kind x store capability (reference store: full / only_non / forced; shipped stores: "
            "their fixed capability) x residentKey (absent, discouraged, preferred, required) x requireResidentKey x credProps "
            "(absent, absent inside extensions, false, true) + absent authenticatorSelection, each registration followed by an "
            "assertion without allow list and (phase 2, built from the store content the registration left) by an assertion whose "
            "allow list names the new credential next to a decoy of the opposite kind; CTAP level: store x rk with getInfo, "
            "makeCredential, getAssertion")
    # --- WebAuthn client level
    scs, meta = client_product(run)
    pre = ceremony.run_scenarios(binary, scs)
    s2, m2 = follow_ups(run, scs, meta, pre, client=True)
    scs_c, outs_c, live_c, res_c = ceremony.standard_check(
        run, PROP, scs + s2, meta + m2, ["c11_wok"], py_oracle=client_oracle, coq_files=files, rule=rule,
        extra_targets=["theories/Auth/C11Facts.vo"], client=True, extra_preamble=EXTRA)
    measure(scs_c, outs_c, True, acc)
    cov_client = dict(run.cov)
    # --- CTAP2 level
    scs, meta = ctap_product(run)
    pre = ceremony.run_scenarios(binary, scs)
    s2, m2 = follow_ups(run, scs, meta, pre, client=False)
    scs_a, outs_a, live_a, res_a = ceremony.standard_check(
        run, PROP, scs + s2, meta + m2, ["c11_ok", "store_ok"], py_oracle=ctap_oracle, coq_files=files, rule=rule,
        extra_targets=["theories/Auth/C11Facts.vo"], client=False, extra_preamble=EXTRA)
    measure(scs_a, outs_a, False, acc)
    cov_ctap = dict(run.cov)
    # --- merged evidence
    for k in ("evaluations", "distinct_nontrivial", "model_disagreements", "python_oracle_failures", "relational_oracle_failures",
              "crashes", "scenarios", "corpus"):
        run.cov[k] = cov_client.get(k, 0) + cov_ctap.get(k, 0)
    run.cov["samples"] = cov_client["samples"] + cov_ctap["samples"]
    hist = dict(cov_client["outcome_histogram"])
    for k, v in cov_ctap["outcome_histogram"].items():
        hist[k] = hist.get(k, 0) + v
    run.cov["outcome_histogram"] = hist
    run.cov["oracle_failures"] = dict(cov_client["oracle_failures"], **cov_ctap["oracle_failures"])
    run.cov["exhaustive"] = True
    run.cov["client_level_cases"] = cov_client["evaluations"]
    run.cov["ctap_level_cases"] = cov_ctap["evaluations"]
    run.cov["capability_by_store_kind"] = {k: sorted(v) for k, v in sorted(acc["capability_by_store_kind"].items())}
    run.cov["registrations_observed"] = dict(sorted(acc["registrations"].items()))
    run.cov["refused_or_failed_registrations"] = acc["refusals"]
    run.cov["assertions_observed"] = acc["assertions"]
    run.cov["trusted_base"] = run.cov["trusted_base"] + [
        "hand transcriptions: WebAuthn L3 5.1.3 effective resident key requirement (Coq: C11Facts.webauthn_rk_mapping; Python: c11.WEBAUTHN_RK, "
        "written separately), the three store capabilities of the property statement (Coq: store_discoverability; Python: DISCOVERABLE)",
        "only the harness' reference store (harness/src/instr.rs RefStore and its Arc lock wrappers) can be configured with a capability; "
        "MemoryStore and Option<Passkey> have the fixed capability ForcedDiscoverable (passkey-authenticator/src/credential_store.rs), "
        "measured in capability_by_store_kind"]
    run.assumptions += [
        "c11_cred_props_truthful assumes the store's capability answer is the same at every query of one run (get_info() of every shipped "
        "store is a pure function); c11_cred_props_general is the statement without it, Example c11_capability_must_be_constant shows it is needed",
        "the observed runs confirm the hypothesis for the harness' stores (oracle: capability answers within one ceremony are equal)"]
    # credentials created through the U2F entry point are new credentials too (rk = false): the storage rule applies
    import c17cer
    run.cov["u2f_ceremonies"] = {k: v for k, v in c17cer.check_ceremony(run, tag="C11-u2f").items() if k not in ("sample", "rule")}
    # the store's capability changes while the registration waits in the consent prompt (the user picks another vault): the storage
    # rule and the refusal follow the capability in force when the credential is saved
    run.cov["prompt_actions"] = ceremony.check_prompt_actions(run, ("C11",))
