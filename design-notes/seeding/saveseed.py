import sys, os, shutil, json
sid, n, needs, breaks, verdict = sys.argv[1:6]
dn = os.environ.get("DEST_N", n)
extra = sys.argv[6] if len(sys.argv) > 6 else ""
src = "/tmp/seed-%s-out/%s" % (sid, n)
dst = "/verif/seeded/%s-%s" % (sid, dn)
os.makedirs(dst, exist_ok=True)
for f in ("patch.diff", "demo.diff", "README.md"):
    shutil.copy(os.path.join(src, f), os.path.join(dst, f))
meta = {
 "property": sid, "breaks": breaks, "needs_to_manifest": needs,
 "origin": "written by an independent sub-agent given only the property text and a scratch worktree of /repo (nothing from /verif)",
 "confirmed_by_lead": {
   "how": "/var/tmp/seedcheck.sh in the scratch worktree: demo.diff alone -> demo passes; demo.diff + patch.diff -> demo fails; patch.diff alone -> cargo test --workspace --no-fail-fast --offline passes (101 = 98 tests + 3 doctests)",
   "demo_on_pristine": "pass", "demo_on_patched": "fail", "suite_on_patched": "pass"},
 "check": {"command": "./pkv mutate seeded/%s-%s/patch.diff -- ./pkv check %s --tier quick" % (sid, dn, sid), "result": verdict, "note": extra},
}
json.dump(meta, open(os.path.join(dst, "meta.json"), "w"), indent=1)
print("saved", dst)
