#!/bin/bash
# usage: seedcheck.sh ID N   -- confirm a seeded change in its scratch worktree
ID=$1; N=$2; W=/tmp/seed-$ID; O=/tmp/seed-$ID-out/$N
export CARGO_NET_OFFLINE=true RUST_BACKTRACE=0
cd $W || exit 2
git checkout -q -- . ; git clean -fdq -e target
git apply --check $O/patch.diff || { echo "PATCH DOES NOT APPLY"; exit 2; }
git apply --check $O/demo.diff || { echo "DEMO DOES NOT APPLY"; exit 2; }
# demo targets: crate/tests/name.rs
TESTS=$(grep '^+++ b/' $O/demo.diff | sed 's#^+++ b/##' | grep '/tests/.*\.rs$')
run_demo() {
  rc=0
  for t in $TESTS; do
    crate=$(echo $t | cut -d/ -f1); name=$(basename $t .rs)
    pkg=$(grep -m1 '^name' $crate/Cargo.toml | sed 's/.*"\(.*\)".*/\1/')
    cargo test -q -p $pkg --test $name --offline --all-features > /tmp/seed-$ID-out/$N/_demo_$1.log 2>&1 || rc=1
  done
  return $rc
}
git apply $O/demo.diff
if run_demo pristine; then echo "demo on pristine: PASS"; else echo "demo on pristine: FAIL (bad)"; fi
git apply $O/patch.diff
if run_demo patched; then echo "demo on patched: PASS (bad)"; else echo "demo on patched: FAIL (good)"; grep -m2 -E "panicked|assert" /tmp/seed-$ID-out/$N/_demo_patched.log | cut -c1-300; fi
# suite with the patch only
git checkout -q -- . ; git clean -fdq -e target; git apply $O/patch.diff
cargo test --workspace --no-fail-fast --offline > /tmp/seed-$ID-out/$N/_suite.log 2>&1; src=$?
echo "suite on patched: exit $src; $(grep -c '^test .* ok$' /tmp/seed-$ID-out/$N/_suite.log) ok, $(grep -c '^test .* FAILED$' /tmp/seed-$ID-out/$N/_suite.log) failed"
git checkout -q -- . ; git clean -fdq -e target
