(** WebAuthn JSON (de)serialisation of passkey-types, as done through serde's derive expansion,
    the hand-written visitors of utils/{bytes,serde}.rs and serde_json (property C14).

    Executable model only; the proofs are in [JsonFacts.v].

    What is modelled
    - JSON *values* ([json]): serde_json's text parser/printer is third party; the harness turns text
      into values with serde_json itself.  Objects keep member ORDER and DUPLICATES (serde_json is
      built with [preserve_order]; a streaming deserialiser sees every member).
      Numbers: [JInt z] is a literal serde_json classifies as an integer (no fraction, no exponent,
      [-2^63 <= z < 2^64], not "-0"); every other literal is [JDec m e] = m * 10^e.  RESTRICTION: the
      float -> integer conversion ([v as i64], truncation toward zero, saturating; non-normal -> 0)
      is computed on the exact decimal.  It coincides with the f64 computation whenever the decimal
      has at most 15 significant digits (every such decimal is read back from its nearest f64, so
      no rounding crosses an integer), in particular for all integral values below 2^53.  f64
      rounding of longer literals is NOT modelled (the check generates none).
    - the built configuration: passkey-types default features, i.e. WITHOUT
      [serialize_bytes_as_base64_string]: [Bytes] is written as an array of numbers.
    - hand-written visitors: [Bytes] ([de_bytes]), [StringOrNum] / [maybe_stringified] /
      [i64_to_iana] ([string_or_num]), [ignore_unknown], [ignore_unknown_vec],
      [ignore_unknown_opt_vec] with [PossiblyUnknown] (in [de], field level).
    - serde's derive expansion for structs with named fields, driven by a schema ([ty]) that
      translators/json_schema.py generates from the Rust definitions (gen/JsonSchema.v): member loop
      in document order, names and aliases, unknown members skipped ([deny_unknown_fields] honoured
      if it ever appears), duplicate member = error, [default], missing [Option] = [None], missing
      other = error, [flatten] (members no field claims are buffered in order and handed to the
      flattened fields), struct-from-array form; serialisation in declaration order with
      [skip_serializing_if = "Option::is_none"], [serialize_with], [flatten].
    - two deserialiser flavours: [Stream] = serde_json reading the text (what an embedder calls);
      [Cb] = ciborium's [Value] deserialiser, which is what every element of an
      [ignore_unknown_(opt_)vec] list goes through since [PossiblyUnknown] first reads the element
      as a generic [ciborium::Value] and then calls [Value::deserialized::<T>()].
    - WHERE the error leaves a streaming deserialiser: [ignore_unknown] is
      [T::deserialize(de).unwrap_or_default()]; on serde_json the error may be raised in the middle
      of the value, and then the rest of the document is read from the wrong position.  [Soft] =
      error raised after the whole value was consumed (the default is used and reading goes on),
      [Hard] = anything else (the document fails: brackets no longer balance).  serde_json calls
      [end_map]/[end_seq] even after an error, which is why an error in the LAST member of an
      object is soft.  In flavour [Cb] there is no stream: every error is [Soft].

    Outside the model: which error message is produced (only Ok / error is observable here);
    serde_json's recursion limit (128) and invalid text; [HashMap] iteration order (results are
    sorted by key); f64 rounding (above); the [Content] buffer of flattened structs is treated like
    flavour [Cb] (differences only for values the check does not generate: a struct given as an
    array inside flattened extra data). *)
From Coq Require Import ZArith.
From PK Require Export Lib.Bytes Lib.Base64.
Open Scope N_scope.

(** * JSON values *)
Inductive json :=
| JNull
| JBool (b : bool)
| JInt (z : Z)
| JDec (m e : Z)                      (* m * 10^e, a literal with a fraction or an exponent *)
| JStr (s : bytes)                    (* UTF-8 bytes *)
| JArr (l : list json)
| JObj (ms : list (bytes * json)).

Definition members := list (bytes * json).

Definition scalar (v : json) : bool :=
  match v with JArr _ | JObj _ => false | _ => true end.

(** * Results of a deserialiser *)
Inductive flavour := Stream | Cb.

Inductive res (A : Type) :=
| Ok (a : A)
| Soft          (* error, the value was consumed whole *)
| Hard.         (* error in the middle of the value (streaming only) *)
Arguments Ok {A}. Arguments Soft {A}. Arguments Hard {A}.

Definition to_opt {A} (r : res A) : option A := match r with Ok a => Some a | _ => None end.
Definition rmap {A B} (f : A -> B) (r : res A) : res B :=
  match r with Ok a => Ok (f a) | Soft => Soft | Hard => Hard end.

(** an error; [whole] = the value has been consumed when it is raised *)
Definition fail {A} (fl : flavour) (whole : bool) : res A :=
  match fl with Cb => Soft | Stream => if whole then Soft else Hard end.

(** error of a typed method ([deserialize_bool], [_string], [_i64], [_seq], [_map], [_struct],
    [_option]'s inner): serde_json's [peek_invalid_type] reads a scalar to describe it, but leaves
    '[' and '{' unread *)
Definition err_typed {A} (fl : flavour) (v : json) : res A := fail fl (scalar v).

(** error of a visitor behind [deserialize_any] that has no [visit_seq]/[visit_map]: the default
    method fails before reading any element, then [end_seq]/[end_map] eat an immediate closer *)
Definition err_any {A} (fl : flavour) (v : json) : res A :=
  fail fl (match v with JArr [] | JObj [] => true | JArr _ | JObj _ => false | _ => true end).

(** elements of a sequence in order; an element error is soft only for the last element *)
Fixpoint seq_all {A B} (fl : flavour) (f : A -> res B) (l : list A) : res (list B) :=
  match l with
  | [] => Ok []
  | x :: r =>
      match f x with
      | Ok y => rmap (cons y) (seq_all fl f r)
      | Soft => match r with [] => Soft | _ => fail fl false end
      | Hard => Hard
      end
  end.

(** * Numbers: [StringOrNum<T>] (utils/serde.rs) for T = u32 ([maybe_stringified]) and T = i64
    ([i64_to_iana]) *)
Inductive numty := NU32 | NI64.

Definition I64_MIN : Z := -9223372036854775808.
Definition I64_MAX : Z := 9223372036854775807.
Definition U32_MAX : Z := 4294967295.
Definition U64_MAX : Z := 18446744073709551615.

Definition fits (t : numty) (z : Z) : bool :=
  match t with
  | NU32 => (0 <=? z)%Z && (z <=? U32_MAX)%Z
  | NI64 => (I64_MIN <=? z)%Z && (z <=? I64_MAX)%Z
  end.

(** [visit_u64] / [visit_i64]: [TryFrom::try_from(v)] *)
Definition visit_int (t : numty) (z : Z) : option Z := if fits t z then Some z else None.

(** truncation toward zero of m * 10^e (never builds a power larger than the mantissa) *)
Definition dec_trunc (m e : Z) : Z :=
  if (0 <=? e)%Z then (m * 10 ^ e)%Z
  else if (Z.log2 (Z.abs m) + 1 <=? 3 * (- e))%Z then 0%Z
  else Z.quot m (10 ^ (- e)).

(** the least magnitude that rounds to an infinite f64: 2^1024 - 2^970 *)
Definition F64_INF : Z := (2 ^ 1024 - 2 ^ 970)%Z.

(** [visit_f64]: [if v.is_normal() { v as i64 } else { 0 }] on the decimal m * 10^e
    (zero, subnormal, infinite -> 0; otherwise truncation toward zero, saturating) *)
Definition f64_as_i64 (m e : Z) : Z :=
  if (m =? 0)%Z then 0%Z
  else if (400 <? e)%Z then 0%Z                      (* infinite *)
  else
    let t := dec_trunc m e in
    if (F64_INF <=? Z.abs t)%Z then 0%Z              (* infinite *)
    else Z.max I64_MIN (Z.min I64_MAX t).

(** decimal digits *)
Definition is_digit (c : N) : bool := (48 <=? c) && (c <=? 57).

Fixpoint dval_acc (acc : N) (s : bytes) : option N :=
  match s with
  | [] => Some acc
  | c :: r => if is_digit c then dval_acc (acc * 10 + (c - 48)) r else None
  end.

(** one or more digits, nothing else *)
Definition parse_unsigned (s : bytes) : option N :=
  match s with [] => None | _ => dval_acc 0 s end.

(** [<u32 as FromStr>::from_str] / [<i64 as FromStr>::from_str]: optional sign ('+' only for u32),
    at least one digit, no other character, value in range.  (Rust checks the range digit by digit;
    prefixes of a digit string have smaller values, so the final test is the same.) *)
Definition is_ni64 (t : numty) : bool := match t with NI64 => true | NU32 => false end.

Definition parse_int_str (t : numty) (s : bytes) : option Z :=
  match s with
  | [] => None
  | c :: r =>
      if (c =? 45) && is_ni64 t then                      (* '-': signed types only *)
        match parse_unsigned r with
        | Some n => visit_int t (- Z.of_N n)
        | None => None
        end
      else
        match parse_unsigned (if c =? 43 then r else s) with      (* '+' *)
        | Some n => visit_int t (Z.of_N n)
        | None => None
        end
  end.

(** leading digits of a string and the rest *)
Fixpoint span_digits (s : bytes) : bytes * bytes :=
  match s with
  | c :: r => if is_digit c then let '(d, t) := span_digits r in (c :: d, t) else ([], s)
  | [] => ([], [])
  end.

Definition digits_val (d : bytes) : N := match dval_acc 0 d with Some n => n | None => 0 end.

Definition lower (c : N) : N := if (65 <=? c) && (c <=? 90) then c + 32 else c.

(** the result of [f64::from_str] as far as [visit_f64] looks at it *)
Inductive fstr := FNotNumber | FInfNan | FDec (m e : Z).

(** [<f64 as FromStr>::from_str] (core::num::dec2flt):
      Float ::= Sign? ( 'inf' | 'infinity' | 'nan' | Number )      (case-insensitive words)
      Number ::= ( Digit+ | Digit+ '.' Digit* | Digit* '.' Digit+ ) Exp?      Exp ::= [eE] Sign? Digit+ *)
Definition strip_sign (s : bytes) : bool * bytes :=
  match s with
  | c :: r => if c =? 45 then (true, r) else if c =? 43 then (false, r) else (false, s)
  | [] => (false, [])
  end.

Definition parse_f64_str (s : bytes) : fstr :=
  let '(neg, s1) := strip_sign s in
  let '(ip, r1) := span_digits s1 in
  let '(fp, r2) := match r1 with
                   | c :: r => if c =? 46 then span_digits r else ([], r1)       (* '.' *)
                   | [] => ([], r1)
                   end in
  let words := map lower s1 in
  if (length ip + length fp =? 0)%nat then
    if beq words [110; 97; 110] || beq words [105; 110; 102] || beq words [105; 110; 102; 105; 110; 105; 116; 121]
    then FInfNan else FNotNumber
  else
    let m := Z.of_N (digits_val (ip ++ fp)) in
    let m := if neg then (- m)%Z else m in
    let e0 := (- Z.of_nat (length fp))%Z in
    match r2 with
    | [] => FDec m e0
    | c :: r =>
        if (c =? 101) || (c =? 69) then                                          (* 'e' 'E' *)
          let '(eneg, r') := strip_sign r in
          match parse_unsigned r' with
          | Some x => FDec m (e0 + (if eneg then - Z.of_N x else Z.of_N x))%Z
          | None => FNotNumber
          end
        else FNotNumber
    end.

(** [StringOrNum<T>] behind [deserialize_any]: [None] = the visitor returned an error *)
Definition string_or_num (t : numty) (v : json) : option Z :=
  match v with
  | JInt z => visit_int t z
  | JDec m e => visit_int t (f64_as_i64 m e)
  | JStr s =>
      match parse_int_str t s with
      | Some z => Some z
      | None =>
          match parse_f64_str s with
          | FDec m e => visit_int t (f64_as_i64 m e)
          | FInfNan => visit_int t 0
          | FNotNumber => None
          end
      end
  | _ => None
  end.

(** [coset::iana::Algorithm::from_i64] accepts exactly the registered values (coset 0.3.8;
    third party: tied by an exhaustive sweep of [-70000, 70000] on every check) *)
Definition IANA_ALGORITHMS : list Z :=
  [-65535; -260; -259; -258; -257; -47; -46; -45; -44; -43; -42; -41; -40; -39; -38; -37; -36; -35;
   -34; -33; -32; -31; -30; -29; -28; -27; -26; -25; -18; -17; -16; -15; -14; -13; -12; -11; -10;
   -8; -7; -6; -5; -4; -3; 0; 1; 2; 3; 4; 5; 6; 7; 10; 11; 12; 13; 14; 15; 24; 25; 26; 30; 31; 32;
   33; 34]%Z.
Definition alg_known (z : Z) : bool := existsb (Z.eqb z) IANA_ALGORITHMS.

(** printing: [u32::to_string] / [i64::to_string], used to state the presentation theorems *)
Fixpoint digits_fuel (f : nat) (n : N) : list N :=
  match f with
  | O => []
  | S f' => if n <? 10 then [n] else digits_fuel f' (n / 10) ++ [n mod 10]
  end.
Definition dec_of_N (n : N) : bytes := map (N.add 48) (digits_fuel 20 n).
Definition dec_of_Z (z : Z) : bytes :=
  if (z <? 0)%Z then 45 :: dec_of_N (Z.to_N (- z)) else dec_of_N (Z.to_N z).

(** * [Bytes] (utils/bytes.rs): [deserialize_any] with [Base64Visitor] *)
Definition de_u8 (v : json) : option N :=
  match v with
  | JInt z => if (0 <=? z)%Z && (z <=? 255)%Z then Some (Z.to_N z) else None
  | _ => None
  end.

Definition de_bytes (fl : flavour) (v : json) : res bytes :=
  match v with
  | JStr s => match bytes_try_from_str s with Some b => Ok b | None => fail fl true end
  | JArr l => seq_all fl (fun x => match de_u8 x with Some b => Ok b | None => err_typed fl x end) l
  | _ => err_any fl v          (* no visit_map / visit_unit / visit_bool / visit_u64 / visit_f64 *)
  end.

(** * Schemas *)
Inductive dewith :=
| DwNone | DwIgnoreUnknown | DwIgnoreUnknownVec | DwIgnoreUnknownOptVec | DwMaybeStringified | DwI64ToIana.
Inductive serwith := SwNone | SwI64ToIana | SwTruthiness.

Record enum_schema := {
  e_variants : list (bytes * list bytes);    (* JSON name, aliases; declaration order *)
  e_default : option N;                      (* #[default] *)
  e_other : option N }.                      (* #[serde(other)] *)

Record field_of (T : Type) := Field {
  f_name : bytes;               (* JSON member name (rename / rename_all) *)
  f_aliases : list bytes;
  f_default : bool;             (* #[serde(default)] *)
  f_skip_none : bool;           (* skip_serializing_if = "Option::is_none" *)
  f_flatten : bool;
  f_dw : dewith;                (* deserialize_with / with *)
  f_sw : serwith;               (* serialize_with / with *)
  f_ty : T }.
Arguments Field {T}. Arguments f_name {T}. Arguments f_aliases {T}. Arguments f_default {T}.
Arguments f_skip_none {T}. Arguments f_flatten {T}. Arguments f_dw {T}. Arguments f_sw {T}. Arguments f_ty {T}.

Inductive ty :=
| TUnit | TBool | TStr | TBytes | TI64 | TU32
| TAlg                               (* iana::Algorithm, always through i64_to_iana *)
| TJson                              (* serde_json::Value *)
| TEnum (e : enum_schema)            (* unit variants only *)
| TOpt (t : ty)
| TVec (t : ty)
| THashMap (t : ty)                  (* HashMap<String, T> *)
| TIndexMap (t : ty)                 (* IndexMap<String, T>, serde_json::Map *)
| TStruct (deny : bool) (fields : list (field_of ty)).
Definition field := field_of ty.

(** * Rust values (what the parse produces, compared with the harness's description) *)
Inductive rv :=
| RUnit
| RBool (b : bool)
| RInt (z : Z)
| RBytes (b : bytes)
| RStr (s : bytes)
| REnum (i : N)                     (* variant number, declaration order *)
| RNone
| RSome (x : rv)
| RList (l : list rv)
| RStruct (fs : list rv)            (* one value per field, declaration order *)
| RMap (m : list (bytes * rv))      (* HashMap: sorted by key; IndexMap: insertion order *)
| RJson (j : json).

(** * Enums *)
Fixpoint enum_find (vs : list (bytes * list bytes)) (i : N) (s : bytes) : option N :=
  match vs with
  | [] => None
  | (n, al) :: r => if beq n s || existsb (beq s) al then Some i else enum_find r (i + 1) s
  end.
Definition enum_lookup (e : enum_schema) (s : bytes) : option N :=
  match enum_find (e_variants e) 0 s with Some i => Some i | None => e_other e end.
Definition enum_name (e : enum_schema) (i : N) : bytes := fst (nth (N.to_nat i) (e_variants e) ([], [])).

(** a unit variant: the string, or the externally tagged form [{"name": null}].
    Stream: [deserialize_enum] reads a string whole; an object is abandoned where the error is found;
    anything else is not read at all. *)
Definition de_enum (fl : flavour) (e : enum_schema) (v : json) : res rv :=
  match v with
  | JStr s => match enum_lookup e s with Some i => Ok (REnum i) | None => fail fl true end
  | JObj [(k, JNull)] => match enum_lookup e k with Some i => Ok (REnum i) | None => fail fl false end
  | _ => fail fl false
  end.

(** * Maps *)
Fixpoint map_insert {A} (k : bytes) (x : A) (m : list (bytes * A)) : list (bytes * A) :=
  match m with
  | [] => [(k, x)]
  | (k', y) :: r => if beq k k' then (k', x) :: r else (k', y) :: map_insert k x r
  end.
(** inserting the members in order: a repeated key keeps its first position and its last value *)
Definition dedupe {A} (ms : list (bytes * A)) : list (bytes * A) :=
  fold_left (fun acc kv => map_insert (fst kv) (snd kv) acc) ms [].

Fixpoint bytes_leb (a b : bytes) : bool :=
  match a, b with
  | [], _ => true
  | _ :: _, [] => false
  | x :: a', y :: b' => if x <? y then true else if y <? x then false else bytes_leb a' b'
  end.
Fixpoint sort_insert {A} (kv : bytes * A) (m : list (bytes * A)) : list (bytes * A) :=
  match m with
  | [] => [kv]
  | kv' :: r => if bytes_leb (fst kv) (fst kv') then kv :: m else kv' :: sort_insert kv r
  end.
Definition sort_members {A} (m : list (bytes * A)) : list (bytes * A) := fold_right sort_insert [] m.

(** [serde_json::Value] keeps one member per key in every nested object *)
Fixpoint json_norm (v : json) : json :=
  match v with
  | JArr l => JArr (map json_norm l)
  | JObj ms => JObj (dedupe (map (fun kv => (fst kv, json_norm (snd kv))) ms))
  | _ => v
  end.

(** * Defaults ([Default::default()] of the field type) *)
Fixpoint default_of (t : ty) : rv :=
  match t with
  | TUnit => RUnit
  | TBool => RBool false
  | TStr => RStr []
  | TBytes => RBytes []
  | TI64 | TU32 | TAlg => RInt 0
  | TJson => RJson JNull
  | TEnum e => REnum (match e_default e with Some d => d | None => 0 end)
  | TOpt _ => RNone
  | TVec _ => RList []
  | THashMap _ | TIndexMap _ => RMap []
  | TStruct _ fields => RStruct (map (fun f => default_of (f_ty f)) fields)
  end.

Definition is_opt (t : ty) : bool := match t with TOpt _ => true | _ => false end.

(** * The struct visitor generated by [#[derive(Deserialize)]] *)
Definition fparser := (field * (json -> res rv))%type.

Fixpoint find_field {X} (fps : list (field * X)) (i : nat) (k : bytes) : option nat :=
  match fps with
  | [] => None
  | (f, _) :: r =>
      if negb (f_flatten f) && (beq (f_name f) k || existsb (beq k) (f_aliases f)) then Some i
      else find_field r (S i) k
  end.

Fixpoint set_nth {A} (i : nat) (x : A) (l : list A) : list A :=
  match l, i with
  | [], _ => []
  | _ :: r, O => x :: r
  | y :: r, S i' => y :: set_nth i' x r
  end.

Definition parser_at (fps : list fparser) (i : nat) : json -> res rv :=
  match nth_error fps i with Some (_, p) => p | None => fun _ => Hard end.

(** [visit_map]: the loop over the members of the object, in document order.
    [slots]: one per field, filled when its member has been read; [extras]: members no field claims,
    kept (in order) only when the struct has flattened fields *)
Fixpoint obj_loop (fl : flavour) (deny flat : bool) (fps : list fparser)
         (slots : list (option rv)) (extras ms : members) : res (list (option rv) * members) :=
  match ms with
  | [] => Ok (slots, extras)
  | (k, v) :: rest =>
      match find_field fps 0 k with
      | Some i =>
          match nth i slots None with
          | Some _ => fail fl false                                   (* duplicate field *)
          | None =>
              match parser_at fps i v with
              | Ok x => obj_loop fl deny flat fps (set_nth i (Some x) slots) extras rest
              | Soft => match rest with [] => Soft | _ => fail fl false end
              | Hard => Hard
              end
          end
      | None =>
          if flat then obj_loop fl deny flat fps slots (extras ++ [(k, v)]) rest
          else if deny then fail fl false                              (* unknown field *)
          else obj_loop fl deny flat fps slots extras rest             (* IgnoredAny *)
      end
  end.

(** a member that never came: [default], else [None] for a plain [Option], else an error *)
Definition missing (f : field) : option rv :=
  if f_default f then Some (default_of (f_ty f))
  else match f_dw f with
       | DwNone => if is_opt (f_ty f) then Some RNone else None
       | _ => None
       end.

Definition names_of (t : ty) : list bytes :=
  match t with
  | TStruct _ fields => flat_map (fun f => f_name f :: f_aliases f) fields
  | _ => []
  end.
(** entries a flattened struct takes out of the buffer (a flattened map takes none) *)
Definition untake (t : ty) (extras : members) : members :=
  filter (fun kv => negb (existsb (beq (fst kv)) (names_of t))) extras.

(** after the loop: defaults, missing-field errors, flattened fields (all raised just before the
    closing brace is read, hence soft) *)
Fixpoint finish (fps : list fparser) (slots : list (option rv)) (extras : members) : res (list rv) :=
  match fps, slots with
  | [], _ => Ok []
  | (f, p) :: fr, s :: sr =>
      if f_flatten f then
        match p (JObj extras) with
        | Ok x => rmap (cons x) (finish fr sr (untake (f_ty f) extras))
        | _ => Soft
        end
      else
        match s with
        | Some x => rmap (cons x) (finish fr sr extras)
        | None => match missing f with
                  | Some d => rmap (cons d) (finish fr sr extras)
                  | None => Soft
                  end
        end
  | _ :: _, [] => Soft
  end.

(** [visit_seq]: the struct given as an array (serde_json's [deserialize_struct] accepts it) *)
Fixpoint seq_form (fps : list fparser) (l : list json) : res (list rv) :=
  match fps with
  | [] => match l with [] => Ok [] | _ => Hard end                      (* trailing elements *)
  | (f, p) :: fr =>
      match l with
      | [] => if f_default f then rmap (cons (default_of (f_ty f))) (seq_form fr [])
              else Soft                                                 (* invalid length *)
      | v :: r =>
          match p v with
          | Ok x => rmap (cons x) (seq_form fr r)
          | Soft => match r with [] => Soft | _ => Hard end
          | Hard => Hard
          end
      end
  end.

Definition de_struct (fl : flavour) (deny : bool) (fps : list fparser) (v : json) : res rv :=
  let flat := existsb (fun fp => f_flatten (fst fp)) fps in
  match v with
  | JObj ms =>
      match obj_loop fl deny flat fps (repeat None (length fps)) [] ms with
      | Ok (slots, extras) => rmap RStruct (finish fps slots extras)
      | Soft => Soft
      | Hard => Hard
      end
  | JArr l =>
      if flat then fail fl false                       (* deserialize_map *)
      else match fl with
           | Stream => rmap RStruct (seq_form fps l)
           | Cb => Soft                                 (* ciborium: deserialize_struct = deserialize_map *)
           end
  | _ => err_typed fl v
  end.

(** members of a map in order; values through [f] *)
Definition de_members (fl : flavour) (f : json -> res rv) (ms : members) : res (list (bytes * rv)) :=
  seq_all fl (fun kv => rmap (fun x => (fst kv, x)) (f (snd kv))) ms.

(** elements of an [ignore_unknown_(opt_)vec] list: read as a generic value, then through
    ciborium's [Value] deserialiser; an element that does not deserialise is dropped *)
Fixpoint keep_ok (f : json -> res rv) (l : list json) : list rv :=
  match l with
  | [] => []
  | x :: r => match f x with Ok y => y :: keep_ok f r | _ => keep_ok f r end
  end.

(** * Deserialisation of a type *)
Fixpoint de (fl : flavour) (t : ty) {struct t} : json -> res rv :=
  match t with
  | TUnit => fun v => match v with JNull => Ok RUnit | _ => err_typed fl v end
  | TBool => fun v => match v with JBool b => Ok (RBool b) | _ => err_typed fl v end
  | TStr => fun v => match v with JStr s => Ok (RStr s) | _ => err_typed fl v end
  | TBytes => fun v => rmap RBytes (de_bytes fl v)
  | TI64 => fun v => match v with
                     | JInt z => if fits NI64 z then Ok (RInt z) else fail fl true
                     | _ => err_typed fl v
                     end
  | TU32 => fun v => match v with
                     | JInt z => if fits NU32 z then Ok (RInt z) else fail fl true
                     | _ => err_typed fl v
                     end
  | TAlg => fun v =>                                    (* i64_to_iana::deserialize *)
      match string_or_num NI64 v with
      | Some z => if alg_known z then Ok (RInt z) else fail fl true
      | None => err_any fl v
      end
  | TJson => fun v => Ok (RJson (json_norm v))
  | TEnum e => de_enum fl e
  | TOpt t' => fun v => match v with JNull => Ok RNone | _ => rmap RSome (de fl t' v) end
  | TVec t' => fun v => match v with
                        | JArr l => rmap RList (seq_all fl (de fl t') l)
                        | _ => err_typed fl v
                        end
  | THashMap t' => fun v => match v with
                            | JObj ms => rmap (fun m => RMap (sort_members (dedupe m))) (de_members fl (de fl t') ms)
                            | _ => err_typed fl v
                            end
  | TIndexMap t' => fun v => match v with
                             | JObj ms => rmap (fun m => RMap (dedupe m)) (de_members fl (de fl t') ms)
                             | _ => err_typed fl v
                             end
  | TStruct deny fields =>
      de_struct fl deny
        (map (fun f : field =>
                (f,
                 if f_flatten f then
                   (* FlatMapDeserializer over the buffered members *)
                   match f_ty f with TUnit => fun _ => Ok RUnit | _ => de Cb (f_ty f) end
                 else
                 match f_dw f with
                 | DwNone | DwI64ToIana => de fl (f_ty f)
                 | DwIgnoreUnknown =>                       (* T::deserialize(de).unwrap_or_default() *)
                     fun v => match de fl (f_ty f) v with
                              | Ok x => Ok x
                              | Soft => Ok (default_of (f_ty f))
                              | Hard => Hard
                              end
                 | DwMaybeStringified =>
                     fun v => match string_or_num NU32 v with
                              | Some z => Ok (RSome (RInt z))
                              | None => err_any fl v
                              end
                 | DwIgnoreUnknownVec =>
                     match f_ty f with
                     | TVec te => fun v => match v with
                                           | JArr l => Ok (RList (keep_ok (de Cb te) l))
                                           | _ => err_typed fl v
                                           end
                     | _ => fun _ => Hard
                     end
                 | DwIgnoreUnknownOptVec =>
                     match f_ty f with
                     | TOpt (TVec te) => fun v => match v with
                                                  | JArr l => Ok (RSome (RList (keep_ok (de Cb te) l)))
                                                  | _ => err_typed fl v       (* null too: visit_none is never reached *)
                                                  end
                     | _ => fun _ => Hard
                     end
                 end)) fields)
  end.

(** what [serde_json::from_str::<T>] returns for a document whose value is [v] *)
Definition parse (t : ty) (v : json) : option rv := to_opt (de Stream t v).
(** what [ciborium::Value::deserialized::<T>] returns for the generic value of [v] *)
Definition parse_cb (t : ty) (v : json) : option rv := to_opt (de Cb t v).

(** * Serialisation ([#[derive(Serialize)]], serde_json) *)
Definition is_none (x : rv) : bool := match x with RNone => true | _ => false end.
Definition members_of (j : json) : members := match j with JObj ms => ms | _ => [] end.

Fixpoint ser (t : ty) (x : rv) {struct t} : json :=
  match t with
  | TUnit => JNull
  | TBool => match x with RBool b => JBool b | _ => JNull end
  | TStr => match x with RStr s => JStr s | _ => JNull end
  | TBytes => match x with RBytes b => JArr (map (fun n => JInt (Z.of_N n)) b) | _ => JNull end
  | TI64 | TU32 | TAlg => match x with RInt z => JInt z | _ => JNull end
  | TJson => match x with RJson j => j | _ => JNull end
  | TEnum e => match x with REnum i => JStr (enum_name e i) | _ => JNull end
  | TOpt t' => match x with RSome y => ser t' y | _ => JNull end
  | TVec t' => match x with RList l => JArr (map (ser t') l) | _ => JNull end
  | THashMap t' | TIndexMap t' =>
      match x with RMap m => JObj (map (fun kv => (fst kv, ser t' (snd kv))) m) | _ => JNull end
  | TStruct _ fields =>
      match x with
      | RStruct xs =>
          JObj ((fix go (fs : list field) (xs : list rv) : members :=
                   match fs, xs with
                   | f :: fr, y :: yr =>
                       (if f_skip_none f && is_none y then []
                        else
                          let j := match f_sw f with
                                   | SwTruthiness =>        (* cross_origin.filter(|b| *b).is_some() *)
                                       JBool (match y with RSome (RBool true) => true | _ => false end)
                                   | _ => ser (f_ty f) y
                                   end in
                          if f_flatten f then members_of j else [(f_name f, j)])
                       ++ go fr yr
                   | _, _ => []
                   end) fields xs)
      | _ => JNull
      end
  end.

(** * Boolean equality (for the generated case files) *)
Fixpoint json_eqb (a b : json) : bool :=
  match a, b with
  | JNull, JNull => true
  | JBool x, JBool y => Bool.eqb x y
  | JInt x, JInt y => (x =? y)%Z
  | JDec m e, JDec m' e' => (m =? m')%Z && (e =? e')%Z
  | JStr x, JStr y => beq x y
  | JArr l, JArr l' =>
      (fix go (l l' : list json) : bool :=
         match l, l' with
         | [], [] => true
         | x :: r, y :: r' => json_eqb x y && go r r'
         | _, _ => false
         end) l l'
  | JObj m, JObj m' =>
      (fix go (m m' : members) : bool :=
         match m, m' with
         | [], [] => true
         | (k, x) :: r, (k', y) :: r' => beq k k' && json_eqb x y && go r r'
         | _, _ => false
         end) m m'
  | _, _ => false
  end.

Fixpoint rv_eqb (a b : rv) : bool :=
  match a, b with
  | RUnit, RUnit => true
  | RBool x, RBool y => Bool.eqb x y
  | RInt x, RInt y => (x =? y)%Z
  | RBytes x, RBytes y => beq x y
  | RStr x, RStr y => beq x y
  | REnum x, REnum y => x =? y
  | RNone, RNone => true
  | RSome x, RSome y => rv_eqb x y
  | RList l, RList l' | RStruct l, RStruct l' =>
      (fix go (l l' : list rv) : bool :=
         match l, l' with
         | [], [] => true
         | x :: r, y :: r' => rv_eqb x y && go r r'
         | _, _ => false
         end) l l'
  | RMap m, RMap m' =>
      (fix go (m m' : list (bytes * rv)) : bool :=
         match m, m' with
         | [], [] => true
         | (k, x) :: r, (k', y) :: r' => beq k k' && rv_eqb x y && go r r'
         | _, _ => false
         end) m m'
  | RJson x, RJson y => json_eqb x y
  | _, _ => false
  end.
