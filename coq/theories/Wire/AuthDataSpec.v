(** The authenticator data layout of WebAuthn Level 3, section 6.1 ("Authenticator Data") and
    6.5.1 ("Attested Credential Data"), as an INDEPENDENT decoder.  Written from the
    specification's tables, not from the encoder model of [AuthData.v]; it shares with it only the
    CBOR layer ("one CBOR item" = [cbor_decode]) and the big-endian helpers.

      rpIdHash                 32 bytes   SHA-256 hash of the RP ID
      flags                     1 byte    bit 0 UP, bit 2 UV, bit 3 BE, bit 4 BS, bit 6 AT, bit 7 ED
      signCount                 4 bytes   32-bit unsigned big-endian integer
      attestedCredentialData   variable   present iff AT:
          aaguid               16 bytes
          credentialIdLength    2 bytes   16-bit unsigned big-endian integer L
          credentialId          L bytes
          credentialPublicKey  variable   COSE_Key: one CBOR item, a map
      extensions               variable   present iff ED: one CBOR item, a map

    "It can be determined using the length of the attested credential data and extensions":
    the sections follow each other in this order and nothing else follows. *)
From PK Require Import Lib.Bytes Lib.Cbor.
Open Scope N_scope.

Record fields := {
  f_rp_id_hash : bytes;
  f_flags : N;
  f_sign_count : N;
  f_acd : option (bytes * bytes * cbor);     (* aaguid, credentialId, credentialPublicKey *)
  f_ext : option cbor
}.

Definition is_map (v : cbor) : bool := match v with CMap _ => true | _ => false end.

(** one CBOR item that is a map, and the bytes after it *)
Definition spec_map_item (b : bytes) : option (cbor * bytes) :=
  match cbor_decode cbor_fuel b with
  | Some (v, r) => if is_map v then Some (v, r) else None
  | None => None
  end.

Definition spec_acd (b : bytes) : option (bytes * bytes * cbor * bytes) :=
  if (length b <? 18)%nat then None
  else
    let aaguid := firstn 16 b in
    let L := N.to_nat (nth 16 b 0 * 256 + nth 17 b 0) in
    let b' := skipn 18 b in
    if (length b' <? L)%nat then None
    else
      match spec_map_item (skipn L b') with
      | Some (key, r) => Some (aaguid, firstn L b', key, r)
      | None => None
      end.

Definition parse_authdata_spec (b : bytes) : option fields :=
  if (length b <? 37)%nat then None
  else
    let flags := nth 32 b 0 in
    let signCount := nth 33 b 0 * 16777216 + nth 34 b 0 * 65536 + nth 35 b 0 * 256 + nth 36 b 0 in
    let AT := N.testbit flags 6 in
    let ED := N.testbit flags 7 in
    match (if AT
           then match spec_acd (skipn 37 b) with
                | Some (aaguid, id, key, r) => Some (Some (aaguid, id, key), r)
                | None => None
                end
           else Some (None, skipn 37 b)) with
    | None => None
    | Some (acd, r1) =>
        match (if ED
               then match spec_map_item r1 with
                    | Some (e, r) => Some (Some e, r)
                    | None => None
                    end
               else Some (None, r1)) with
        | Some (ext, []) =>
            Some {| f_rp_id_hash := firstn 32 b; f_flags := flags; f_sign_count := signCount;
                    f_acd := acd; f_ext := ext |}
        | _ => None
        end
    end.

(** boolean equality of parsed fields (for the oracle) *)
Definition acd_fields_eqb (a b : bytes * bytes * cbor) : bool :=
  let '(g, i, k) := a in let '(g', i', k') := b in beq g g' && beq i i' && cbor_eqb k k'.

Definition opt_eqb' {A} (e : A -> A -> bool) (a b : option A) : bool :=
  match a, b with
  | None, None => true
  | Some x, Some y => e x y
  | _, _ => false
  end.

Definition fields_eqb (a b : fields) : bool :=
  beq (f_rp_id_hash a) (f_rp_id_hash b) && (f_flags a =? f_flags b) && (f_sign_count a =? f_sign_count b)
  && opt_eqb' acd_fields_eqb (f_acd a) (f_acd b) && opt_eqb' cbor_eqb (f_ext a) (f_ext b).
