(** Correspondence checks and the property oracle for the WebAuthn JSON domain (C14).
    Everything here is executable and is evaluated by generated case files.

    [agree]: the model ([Wire/Json.v] over the generated schema) computes what the implementation
    was observed to do.  [oracle]: the property, evaluated on the implementation's observations
    alone, without the model wherever the statement allows (value-level comparison across
    presentations; exact member sequence of emitted client data; re-parse of emitted credentials). *)
From Coq Require Import ZArith.
From PK Require Import Lib.Bytes Lib.Check Lib.Base64 Wire.Json Wire.gen.JsonSchema.
Open Scope N_scope.

(** the extra-data types the harness instantiates [CollectedClientData<E>] with *)
Definition E_unit : ty := TUnit.                                   (* E = () *)
Definition E_map : ty := TIndexMap TJson.                          (* E = serde_json::Map<String, Value> *)
Definition E_android : ty :=                                       (* struct AndroidExtra { android_package_name: String } *)
  TStruct false
    [Field [97;110;100;114;111;105;100;80;97;99;107;97;103;101;78;97;109;101] [] false false false DwNone SwNone TStr].

Inductive jcase :=
| CParse (fl : flavour) (t : ty) (v : json) (impl : option rv)
    (* one document *)
| CSame (fl : flavour) (t : ty) (base : json) (vars : list json) (impl_base : option rv) (impl_vars : list (option rv))
    (* presentations of one option value: all must parse, to the same value *)
| CEmit (t : ty) (c : rv) (impl_json : json) (impl_reparse : option rv)
    (* a credential built from [c], serialised with serde_json::to_string, and read back *)
| CCdEmit (E : ty) (ty_idx : N) (ty_spec challenge origin : bytes) (cross : option bool)
          (extra_rv : rv) (extra unknown : members) (impl_members : members) (impl_reparse : option rv)
    (* CollectedClientData<E>: [ty_spec] = the type string the WebAuthn spec prescribes;
       [impl_members] = the top-level members of the emitted text, in order, duplicates kept *)
| CB64 (b : bytes) (impl_url impl_std impl_from : bytes) (impl_dec try_url try_std : option bytes)
    (* encoding::base64url / base64 / String::from(Bytes); try_from_base64url and Bytes::try_from on them *)
| CAlgs (lo hi : Z) (impl_accepted : list Z).
    (* every integer in [lo, hi] that i64_to_iana accepts *)

Definition orv_eqb : option rv -> option rv -> bool := opt_eqb rv_eqb.
Definition obytes_eqb : option bytes -> option bytes -> bool := opt_eqb beq.

Fixpoint members_eqb (a b : members) : bool :=
  match a, b with
  | [], [] => true
  | (k, x) :: r, (k', y) :: r' => beq k k' && json_eqb x y && members_eqb r r'
  | _, _ => false
  end.

Definition cd_value (ty_idx : N) (challenge origin : bytes) (cross : option bool) (extra_rv : rv) (unknown : members) : rv :=
  RStruct [REnum ty_idx; RStr challenge; RStr origin;
           match cross with Some b => RSome (RBool b) | None => RNone end;
           extra_rv; RMap (map (fun kv => (fst kv, RJson (snd kv))) unknown)].

Fixpoint zrange (lo : Z) (n : nat) : list Z :=
  match n with O => [] | S n' => lo :: zrange (lo + 1) n' end.

(** model = implementation *)
Definition agree (c : jcase) : bool :=
  match c with
  | CParse fl t v impl => orv_eqb (to_opt (de fl t v)) impl
  | CSame fl t base vars impl_base impl_vars =>
      orv_eqb (to_opt (de fl t base)) impl_base
      && list_eqb orv_eqb (map (fun v => to_opt (de fl t v)) vars) impl_vars
  | CEmit t c impl_json impl_reparse =>
      json_eqb (ser t c) impl_json && orv_eqb (parse t (ser t c)) impl_reparse
  | CCdEmit E ty_idx _ challenge origin cross extra_rv _ unknown impl_members impl_reparse =>
      let t := s_CollectedClientData E in
      let j := ser t (cd_value ty_idx challenge origin cross extra_rv unknown) in
      json_eqb j (JObj impl_members) && orv_eqb (parse t j) impl_reparse
  | CB64 b impl_url impl_std impl_from impl_dec try_url try_std =>
      beq (b64url_encode b) impl_url && beq (b64_encode b) impl_std && beq (b64url_encode b) impl_from
      && obytes_eqb (b64url_decode impl_url) impl_dec
      && obytes_eqb (bytes_try_from_str impl_url) try_url && obytes_eqb (bytes_try_from_str impl_std) try_std
  | CAlgs lo hi impl_accepted =>
      list_eqb Z.eqb (filter alg_known (zrange lo (Z.to_nat (hi - lo + 1)))) impl_accepted
  end.

(** the property on the implementation's observation alone *)
Definition oracle (c : jcase) : bool :=
  match c with
  | CParse _ _ _ _ => true
  | CSame _ _ _ _ impl_base impl_vars =>
      match impl_base with
      | Some x => forallb (fun r => orv_eqb r (Some x)) impl_vars
      | None => false
      end
  | CEmit _ c _ impl_reparse => orv_eqb impl_reparse (Some c)
  | CCdEmit _ _ ty_spec challenge origin cross _ extra unknown impl_members _ =>
      members_eqb impl_members
        ([([116;121;112;101], JStr ty_spec);                                     (* "type" *)
          ([99;104;97;108;108;101;110;103;101], JStr challenge);                 (* "challenge" *)
          ([111;114;105;103;105;110], JStr origin);                              (* "origin" *)
          ([99;114;111;115;115;79;114;105;103;105;110],                          (* "crossOrigin" *)
           JBool (match cross with Some true => true | _ => false end))]
         ++ extra ++ unknown)
  | CB64 b impl_url _ impl_from impl_dec try_url try_std =>
      obytes_eqb impl_dec (Some b) && obytes_eqb try_url (Some b) && obytes_eqb try_std (Some b)
      && beq impl_from impl_url
  | CAlgs _ _ _ => true
  end.
