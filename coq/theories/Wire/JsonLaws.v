(** Laws of the WebAuthn JSON model over ALL documents and ALL schemas (C14), part 2:
    - a canonical form [canon] of a document along a schema: every [Bytes] member as an array of
      numbers, every timeout / algorithm as a plain integer, unknown members of every struct
      removed, entries of leniently read lists that do not deserialise removed; and the theorem
      that a document and its canonical form parse to the same result ([canon_parse]); so any two
      documents with the same canonical form parse to the same value;
    - what [canon] does to the presentations the property names (the five of a byte string, the
      three of a number, an unknown member inserted anywhere in a struct);
    - unknown enumeration strings: the default under [ignore_unknown], a dropped entry in a
      leniently read list;
    - the emit / parse round trip for every schema satisfying the computable condition [rt_ok];
    - the member sequence of serialised client data.
    Schema-specific instances (by computation on gen/JsonSchema.v) are in Props/C14.v. *)
From Coq Require Import ZArith ZifyBool ZifyNat ZifyN Lia.
From PK Require Import Lib.Bytes Lib.Base64 Lib.Base64Facts Wire.Json Wire.JsonFacts.
Open Scope N_scope.

(** * Induction over schemas (nested through the field lists) *)
Section TyInd.
  Variable P : ty -> Prop.
  Hypothesis HUnit : P TUnit.
  Hypothesis HBool : P TBool.
  Hypothesis HStr : P TStr.
  Hypothesis HBytes : P TBytes.
  Hypothesis HI64 : P TI64.
  Hypothesis HU32 : P TU32.
  Hypothesis HAlg : P TAlg.
  Hypothesis HJson : P TJson.
  Hypothesis HEnum : forall e, P (TEnum e).
  Hypothesis HOpt : forall t, P t -> P (TOpt t).
  Hypothesis HVec : forall t, P t -> P (TVec t).
  Hypothesis HHash : forall t, P t -> P (THashMap t).
  Hypothesis HIndex : forall t, P t -> P (TIndexMap t).
  Hypothesis HStruct : forall deny fields, Forall (fun f : field => P (f_ty f)) fields -> P (TStruct deny fields).

  Fixpoint ty_ind' (t : ty) : P t :=
    match t with
    | TUnit => HUnit | TBool => HBool | TStr => HStr | TBytes => HBytes | TI64 => HI64 | TU32 => HU32
    | TAlg => HAlg | TJson => HJson
    | TEnum e => HEnum e
    | TOpt t' => HOpt t' (ty_ind' t')
    | TVec t' => HVec t' (ty_ind' t')
    | THashMap t' => HHash t' (ty_ind' t')
    | TIndexMap t' => HIndex t' (ty_ind' t')
    | TStruct deny fields =>
        HStruct deny fields
          ((fix go (fs : list field) : Forall (fun f : field => P (f_ty f)) fs :=
              match fs with
              | [] => Forall_nil _
              | f :: r => Forall_cons f (ty_ind' (f_ty f)) (go r)
              end) fields)
    end.
End TyInd.

(** * The parser of one field, as [de] builds it *)
Definition field_parser (fl : flavour) (f : field) : json -> res rv :=
  if f_flatten f then
    match f_ty f with TUnit => fun _ => Ok RUnit | _ => de Cb (f_ty f) end
  else
    match f_dw f with
    | DwNone | DwI64ToIana => de fl (f_ty f)
    | DwIgnoreUnknown =>
        fun v => match de fl (f_ty f) v with
                 | Ok x => Ok x
                 | Soft => Ok (default_of (f_ty f))
                 | Hard => Hard
                 end
    | DwMaybeStringified =>
        fun v => match string_or_num NU32 v with
                 | Some z => Ok (RSome (RInt z))
                 | None => err_any fl v
                 end
    | DwIgnoreUnknownVec =>
        match f_ty f with
        | TVec te => fun v => match v with
                              | JArr l => Ok (RList (keep_ok (de Cb te) l))
                              | _ => err_typed fl v
                              end
        | _ => fun _ => Hard
        end
    | DwIgnoreUnknownOptVec =>
        match f_ty f with
        | TOpt (TVec te) => fun v => match v with
                                     | JArr l => Ok (RSome (RList (keep_ok (de Cb te) l)))
                                     | _ => err_typed fl v
                                     end
        | _ => fun _ => Hard
        end
    end.

Definition struct_parsers (fl : flavour) (fields : list field) : list fparser :=
  map (fun f : field => (f, field_parser fl f)) fields.

Lemma de_struct_eq fl deny fields :
  de fl (TStruct deny fields) = de_struct fl deny (struct_parsers fl fields).
Proof. reflexivity. Qed.

(** * Results up to the place where a streaming error leaves the document *)
Definition res_le {A} (fl : flavour) (r r' : res A) : Prop := r = r' \/ (r = Soft /\ r' = fail fl false).

Lemma res_le_refl {A} fl (r : res A) : res_le fl r r.
Proof. left; reflexivity. Qed.

Lemma res_le_to_opt {A} fl (r r' : res A) : res_le fl r r' -> to_opt r = to_opt r'.
Proof. intros [->|[-> ->]]; [reflexivity|destruct fl; reflexivity]. Qed.

Lemma res_le_ok {A} fl (r : res A) x : res_le fl r (Ok x) -> r = Ok x.
Proof. intros [->|[_ H]]; [reflexivity|destruct fl; discriminate]. Qed.

Lemma res_le_cb {A} (r r' : res A) : res_le Cb r r' -> r = r'.
Proof. intros [->|[-> ->]]; reflexivity. Qed.

Lemma res_le_rmap {A B} fl (f : A -> B) r r' : res_le fl r r' -> res_le fl (rmap f r) (rmap f r').
Proof. intros [->|[-> ->]]; [left; reflexivity|right; destruct fl; split; reflexivity]. Qed.

Lemma seq_all_le {A B} fl (f g : A -> res B) l l' :
  Forall2 (fun x y => res_le fl (f x) (g y)) l l' -> res_le fl (seq_all fl f l) (seq_all fl g l').
Proof.
  induction 1 as [|x y l l' Hxy Hl IH]; cbn [seq_all]; [left; reflexivity|].
  destruct Hxy as [E|[E1 E2]].
  - rewrite E. destruct (g y) as [a| |].
    + apply res_le_rmap, IH.
    + destruct Hl; left; reflexivity.
    + left; reflexivity.
  - rewrite E1, E2. destruct fl; cbn [fail].
    + destruct l; [right; split; reflexivity|left; reflexivity].
    + destruct Hl; left; reflexivity.
Qed.

Lemma Forall2_map_l {A B} (R : B -> A -> Prop) (f : A -> B) l : (forall x, In x l -> R (f x) x) -> Forall2 R (map f l) l.
Proof.
  induction l as [|x l IH]; intros H; cbn [map]; constructor.
  - apply H. left; reflexivity.
  - apply IH. intros y Hy. apply H. right; exact Hy.
Qed.

(** * The canonical form of a document *)
Definition ok_or {A} (r : res A) : bool := match r with Ok _ => true | _ => false end.

Definition canon_at (cfs : list (field * (json -> json))) (i : nat) : json -> json :=
  match nth_error cfs i with Some (_, c) => c | None => fun v => v end.

(** members some field claims, each canonical for its field; the others are dropped *)
Definition canon_members (cfs : list (field * (json -> json))) (ms : members) : members :=
  flat_map (fun kv => match find_field cfs 0 (fst kv) with
                      | Some i => [(fst kv, canon_at cfs i (snd kv))]
                      | None => []
                      end) ms.

(** a leniently read list: the entries that deserialise, each canonical *)
Definition lenient_canon (p : json -> res rv) (c : json -> json) (v : json) : json :=
  match v with
  | JArr l => JArr (map c (filter (fun x => ok_or (p x)) l))
  | _ => v
  end.

Definition num_canon (t : numty) (v : json) : json :=
  match string_or_num t v with Some z => JInt z | None => v end.

Fixpoint canon (fl : flavour) (t : ty) {struct t} : json -> json :=
  match t with
  | TBytes => fun v => match v with
                       | JStr s => match bytes_try_from_str s with Some b => json_of_bytes b | None => v end
                       | _ => v
                       end
  | TAlg => num_canon NI64
  | TOpt t' => fun v => match v with JNull => JNull | _ => canon fl t' v end
  | TVec t' => fun v => match v with JArr l => JArr (map (canon fl t') l) | _ => v end
  | THashMap t' | TIndexMap t' =>
      fun v => match v with
               | JObj ms => JObj (map (fun kv => (fst kv, canon fl t' (snd kv))) ms)
               | _ => v
               end
  | TStruct deny fields =>
      fun v =>
        match v with
        | JObj ms =>
            if deny || existsb f_flatten fields then v
            else
              JObj (canon_members
                      (map (fun f : field =>
                              (f,
                               match f_dw f with
                               | DwNone | DwI64ToIana => canon fl (f_ty f)
                               | DwIgnoreUnknown =>
                                   (* a value whose error is swallowed is left as it is *)
                                   fun v => if ok_or (de fl (f_ty f) v) then canon fl (f_ty f) v else v
                               | DwMaybeStringified => num_canon NU32
                               | DwIgnoreUnknownVec =>
                                   match f_ty f with
                                   | TVec te => lenient_canon (de Cb te) (canon Cb te)
                                   | _ => fun v => v
                                   end
                               | DwIgnoreUnknownOptVec =>
                                   match f_ty f with
                                   | TOpt (TVec te) => lenient_canon (de Cb te) (canon Cb te)
                                   | _ => fun v => v
                                   end
                               end)) fields) ms)
        | _ => v
        end
  | _ => fun v => v
  end.

Definition field_canon (fl : flavour) (f : field) : json -> json :=
  match f_dw f with
  | DwNone | DwI64ToIana => canon fl (f_ty f)
  | DwIgnoreUnknown => fun v => if ok_or (de fl (f_ty f) v) then canon fl (f_ty f) v else v
  | DwMaybeStringified => num_canon NU32
  | DwIgnoreUnknownVec =>
      match f_ty f with
      | TVec te => lenient_canon (de Cb te) (canon Cb te)
      | _ => fun v => v
      end
  | DwIgnoreUnknownOptVec =>
      match f_ty f with
      | TOpt (TVec te) => lenient_canon (de Cb te) (canon Cb te)
      | _ => fun v => v
      end
  end.

Definition struct_canons (fl : flavour) (fields : list field) : list (field * (json -> json)) :=
  map (fun f : field => (f, field_canon fl f)) fields.

(** a struct is canonicalised when it ignores unknown members and has no flattened field *)
Definition plain_struct (deny : bool) (fields : list field) : bool := negb (deny || existsb f_flatten fields).

Lemma canon_struct_eq fl deny fields ms :
  canon fl (TStruct deny fields) (JObj ms) =
  if plain_struct deny fields then JObj (canon_members (struct_canons fl fields) ms) else JObj ms.
Proof. unfold plain_struct. cbn [canon]. destruct (deny || existsb f_flatten fields); reflexivity. Qed.

Lemma canon_struct_other fl deny fields v : (forall ms, v <> JObj ms) -> canon fl (TStruct deny fields) v = v.
Proof. intros H. destruct v; try reflexivity. exfalso. eapply H. reflexivity. Qed.

(** * A document and its canonical form parse alike *)

Lemma find_field_fst {X Y} (l : list (field * X)) (l' : list (field * Y)) :
  map fst l = map fst l' -> forall i k, find_field l i k = find_field l' i k.
Proof.
  revert l'. induction l as [|[f x] l IH]; intros [|[f' y] l'] H i k; try discriminate; [reflexivity|].
  cbn [map fst] in H. injection H as <- H. cbn [find_field]. rewrite (IH l' H). reflexivity.
Qed.

Lemma struct_fst_eq fl fields : map fst (struct_parsers fl fields) = map fst (struct_canons fl fields).
Proof. unfold struct_parsers, struct_canons. rewrite !map_map. reflexivity. Qed.

Lemma existsb_struct_parsers fl fields :
  existsb (fun fp : fparser => f_flatten (fst fp)) (struct_parsers fl fields) = existsb f_flatten fields.
Proof. unfold struct_parsers. induction fields as [|f r IH]; cbn [map existsb fst]; [reflexivity|]. rewrite IH. reflexivity. Qed.

Lemma obj_loop_canon fl (fps : list fparser) (cfs : list (field * (json -> json))) :
  map fst fps = map fst cfs ->
  (forall i v, res_le fl (parser_at fps i (canon_at cfs i v)) (parser_at fps i v)) ->
  forall es slots,
    res_le fl (obj_loop fl false false fps slots [] (canon_members cfs es))
              (obj_loop fl false false fps slots [] es).
Proof.
  intros Hfst Hp. induction es as [|[k v] rest IH]; intros slots; [left; reflexivity|].
  unfold canon_members. cbn [flat_map fst snd]. fold (canon_members cfs rest).
  rewrite <- (find_field_fst fps cfs Hfst 0 k).
  cbn [obj_loop]. destruct (find_field fps 0 k) as [i|] eqn:Ek.
  - cbn [app obj_loop]. rewrite Ek. destruct (nth i slots None) as [y|]; [left; reflexivity|].
    destruct (Hp i v) as [E|[E1 E2]].
    + rewrite E. destruct (parser_at fps i v) as [x| |].
      * apply IH.
      * destruct rest as [|kv rest']; [left; reflexivity|].
        destruct (canon_members cfs (kv :: rest')); [right; split; reflexivity|left; reflexivity].
      * left; reflexivity.
    + rewrite E1, E2. destruct fl; cbn [fail].
      * destruct (canon_members cfs rest); [right; split; reflexivity|left; reflexivity].
      * destruct rest as [|kv rest']; [left; reflexivity|].
        destruct (canon_members cfs (kv :: rest')); left; reflexivity.
  - cbn [app]. apply IH.
Qed.

Lemma de_struct_canon fl (fps : list fparser) cfs :
  map fst fps = map fst cfs ->
  (forall i v, res_le fl (parser_at fps i (canon_at cfs i v)) (parser_at fps i v)) ->
  existsb (fun fp : fparser => f_flatten (fst fp)) fps = false ->
  forall es, res_le fl (de_struct fl false fps (JObj (canon_members cfs es))) (de_struct fl false fps (JObj es)).
Proof.
  intros Hfst Hp Hflat es. unfold de_struct. cbv zeta.
  match goal with |- context [obj_loop _ _ ?b _ _ _ _] => replace b with false by (symmetry; exact Hflat) end.
  destruct (obj_loop_canon fl fps cfs Hfst Hp es (repeat None (length fps))) as [E|[E1 E2]].
  - rewrite E. left; reflexivity.
  - rewrite E1, E2. destruct fl; [right; split; reflexivity|left; reflexivity].
Qed.

(** results of [StringOrNum] are in range *)
Lemma visit_int_some t a z : visit_int t a = Some z -> a = z /\ fits t z = true.
Proof. unfold visit_int. destruct (fits t a) eqn:E; [|discriminate]. intros H. injection H as <-. split; [reflexivity|exact E]. Qed.

Lemma parse_int_str_fits t s z : parse_int_str t s = Some z -> fits t z = true.
Proof.
  unfold parse_int_str. destruct s as [|c r]; [discriminate|].
  destruct ((c =? 45) && is_ni64 t).
  - destruct (parse_unsigned r); [|discriminate]. intros H. apply visit_int_some in H. apply H.
  - destruct (parse_unsigned (if c =? 43 then r else c :: r)); [|discriminate]. intros H. apply visit_int_some in H. apply H.
Qed.

Lemma string_or_num_fits t v z : string_or_num t v = Some z -> fits t z = true.
Proof.
  destruct v; cbn [string_or_num]; try discriminate.
  - intros H. apply visit_int_some in H. apply H.
  - intros H. apply visit_int_some in H. apply H.
  - destruct (parse_int_str t s) as [z'|] eqn:E.
    + intros H. injection H as <-. eapply parse_int_str_fits; eauto.
    + destruct (parse_f64_str s); try discriminate; intros H; apply visit_int_some in H; apply H.
Qed.

Lemma string_or_num_canon t v z : string_or_num t v = Some z -> string_or_num t (JInt z) = Some z.
Proof. intros H. cbn [string_or_num]. unfold visit_int. rewrite (string_or_num_fits t v z H). reflexivity. Qed.

Lemma json_null_dec (v : json) : {v = JNull} + {v <> JNull}.
Proof. destruct v; (left; reflexivity) || (right; discriminate). Qed.

Lemma de_opt_nonnull fl t v : v <> JNull -> de fl (TOpt t) v = rmap RSome (de fl t v).
Proof. intros H. destruct v; try reflexivity. contradiction. Qed.

Lemma canon_opt_nonnull fl t v : v <> JNull -> canon fl (TOpt t) v = canon fl t v.
Proof. intros H. destruct v; try reflexivity. contradiction. Qed.

Lemma num_canon_nonnull t v : v <> JNull -> num_canon t v <> JNull.
Proof. intros H. unfold num_canon. destruct (string_or_num t v); [discriminate|exact H]. Qed.

Lemma canon_nonnull fl : forall t v, v <> JNull -> canon fl t v <> JNull.
Proof.
  induction t using ty_ind'; intros v Hv; try exact Hv.
  - cbn [canon]. destruct v; try exact Hv. destruct (bytes_try_from_str s); [discriminate|exact Hv].
  - apply num_canon_nonnull, Hv.
  - rewrite canon_opt_nonnull by exact Hv. apply IHt, Hv.
  - cbn [canon]. destruct v; try exact Hv. discriminate.
  - cbn [canon]. destruct v; try exact Hv. discriminate.
  - cbn [canon]. destruct v; try exact Hv. discriminate.
  - destruct v; try exact Hv. rewrite canon_struct_eq. destruct (plain_struct deny fields); discriminate.
Qed.

Lemma keep_ok_canon (p : json -> res rv) (c : json -> json) l :
  (forall x, p (c x) = p x) -> keep_ok p (map c (filter (fun x => ok_or (p x)) l)) = keep_ok p l.
Proof.
  intros H. induction l as [|x l IH]; [reflexivity|]. cbn [filter keep_ok].
  destruct (p x) as [y| |] eqn:E; cbn [ok_or]; try exact IH.
  cbn [map keep_ok]. rewrite H, E, IH. reflexivity.
Qed.

(** the element law hidden in the law of a list type (singleton lists) *)
Lemma vec_elem_law te :
  (forall fl v, res_le fl (de fl (TVec te) (canon fl (TVec te) v)) (de fl (TVec te) v)) ->
  forall x, de Cb te (canon Cb te x) = de Cb te x.
Proof.
  intros H x. specialize (H Cb (JArr [x])). apply res_le_cb in H. cbn [canon de map seq_all] in H.
  destruct (de Cb te (canon Cb te x)) as [a| |], (de Cb te x) as [b| |]; cbn in H; try discriminate; try reflexivity.
  injection H as ->. reflexivity.
Qed.

Lemma optvec_elem_law te :
  (forall fl v, res_le fl (de fl (TOpt (TVec te)) (canon fl (TOpt (TVec te)) v)) (de fl (TOpt (TVec te)) v)) ->
  forall x, de Cb te (canon Cb te x) = de Cb te x.
Proof.
  intros H x. specialize (H Cb (JArr [x])). apply res_le_cb in H. cbn [canon de map seq_all] in H.
  destruct (de Cb te (canon Cb te x)) as [a| |], (de Cb te x) as [b| |]; cbn in H; try discriminate; try reflexivity.
  injection H as ->. reflexivity.
Qed.

Definition canon_law (t : ty) : Prop := forall fl v, res_le fl (de fl t (canon fl t v)) (de fl t v).

Lemma field_canon_law fl (f : field) v :
  f_flatten f = false -> canon_law (f_ty f) ->
  res_le fl (field_parser fl f (field_canon fl f v)) (field_parser fl f v).
Proof.
  intros Hflat IH. unfold field_parser, field_canon. rewrite Hflat. destruct (f_dw f).
  - apply IH.
  - destruct (de fl (f_ty f) v) as [x| |] eqn:E; cbn [ok_or]; try (rewrite E; left; reflexivity).
    pose proof (IH fl v) as H. rewrite E in H. apply res_le_ok in H. rewrite H. left; reflexivity.
  - destruct (f_ty f) as [| | | | | | | | | |te| | |] eqn:Et; try (left; reflexivity).
    destruct v; try (left; reflexivity). cbn [lenient_canon]. rewrite keep_ok_canon; [left; reflexivity|].
    apply vec_elem_law. exact IH.
  - destruct (f_ty f) as [| | | | | | | | |to| | | |] eqn:Et; try (left; reflexivity).
    destruct to as [| | | | | | | | | |te| | |]; try (left; reflexivity).
    destruct v; try (left; reflexivity). cbn [lenient_canon]. rewrite keep_ok_canon; [left; reflexivity|].
    apply optvec_elem_law. exact IH.
  - unfold num_canon. destruct (string_or_num NU32 v) as [z|] eqn:E; [|rewrite E; left; reflexivity].
    rewrite (string_or_num_canon NU32 v z E). left; reflexivity.
  - apply IH.
Qed.

Theorem canon_le : forall t, canon_law t.
Proof.
  induction t using ty_ind'; intros fl v; try (left; reflexivity).
  - (* Bytes *)
    cbn [canon]. destruct v; try (left; reflexivity).
    destruct (bytes_try_from_str s) as [b|] eqn:E; [|left; reflexivity]. left. cbn [de].
    rewrite (bytes_array_parses fl b (bytes_try_from_ok s b E)). unfold de_bytes. rewrite E. reflexivity.
  - (* algorithm *)
    cbn [canon de]. unfold num_canon. destruct (string_or_num NI64 v) as [z|] eqn:E; [|rewrite E; left; reflexivity].
    rewrite (string_or_num_canon NI64 v z E). left; reflexivity.
  - (* Option *)
    destruct (json_null_dec v) as [->|Hv]; [left; reflexivity|].
    rewrite canon_opt_nonnull by exact Hv.
    rewrite (de_opt_nonnull fl t (canon fl t v)) by (apply canon_nonnull, Hv).
    rewrite (de_opt_nonnull fl t v) by exact Hv. apply res_le_rmap, IHt.
  - (* Vec *)
    destruct v; try (left; reflexivity). cbn [canon de]. apply res_le_rmap, seq_all_le, Forall2_map_l.
    intros x _. apply IHt.
  - (* HashMap *)
    destruct v; try (left; reflexivity). cbn [canon de]. apply res_le_rmap. unfold de_members.
    apply seq_all_le, Forall2_map_l. intros kv _. cbn [fst snd]. apply res_le_rmap, IHt.
  - (* IndexMap *)
    destruct v; try (left; reflexivity). cbn [canon de]. apply res_le_rmap. unfold de_members.
    apply seq_all_le, Forall2_map_l. intros kv _. cbn [fst snd]. apply res_le_rmap, IHt.
  - (* struct *)
    destruct v; try (left; reflexivity). rewrite canon_struct_eq.
    destruct (plain_struct deny fields) eqn:Hplain; [|left; reflexivity].
    unfold plain_struct in Hplain. apply negb_true_iff, orb_false_elim in Hplain. destruct Hplain as [-> Hflat].
    rewrite de_struct_eq. apply de_struct_canon.
    + apply struct_fst_eq.
    + intros i v. unfold parser_at, canon_at, struct_parsers, struct_canons. rewrite !nth_error_map.
      destruct (nth_error fields i) as [f|] eqn:Ef; cbn [option_map]; [|left; reflexivity].
      apply field_canon_law.
      * apply nth_error_In in Ef. destruct (f_flatten f) eqn:Eff; [|reflexivity].
        assert (existsb f_flatten fields = true) by (apply existsb_exists; exists f; split; assumption). congruence.
      * rewrite Forall_forall in H. apply H. eapply nth_error_In; eauto.
    + rewrite existsb_struct_parsers. exact Hflat.
Qed.

(** the two statements used outside: same result; same canonical form, same result *)
Theorem canon_parse t v : parse t v = parse t (canon Stream t v).
Proof. unfold parse. symmetry. apply (res_le_to_opt Stream), canon_le. Qed.

Theorem canon_parse_cb t v : de Cb t v = de Cb t (canon Cb t v).
Proof. symmetry. apply res_le_cb, canon_le. Qed.

Theorem same_canon_same_parse t v v' : canon Stream t v = canon Stream t v' -> parse t v = parse t v'.
Proof. intros H. rewrite (canon_parse t v), (canon_parse t v'), H. reflexivity. Qed.

(** * What the canonical form does to the presentations the property names *)

(** (a) the five presentations of a byte string *)
Theorem canon_bytes_presentations fl b : bytes_ok b ->
  canon fl TBytes (json_of_bytes b) = json_of_bytes b
  /\ canon fl TBytes (JStr (b64url_encode b)) = json_of_bytes b
  /\ canon fl TBytes (JStr (b64url_encode b ++ b64_padding b)) = json_of_bytes b
  /\ canon fl TBytes (JStr (b64_encode b)) = json_of_bytes b
  /\ canon fl TBytes (JStr (b64_encode b ++ b64_padding b)) = json_of_bytes b.
Proof.
  intros H. cbn [canon].
  rewrite (bytes_try_from_url_unpadded b H), (bytes_try_from_url_padded b H),
          (bytes_try_from_std_unpadded b H), (bytes_try_from_std_padded b H).
  repeat split; reflexivity.
Qed.

(** any number of '=' after either alphabet *)
Theorem canon_bytes_any_padding fl b k : bytes_ok b ->
  canon fl TBytes (JStr (b64url_encode b ++ repeat 61 k)) = json_of_bytes b
  /\ canon fl TBytes (JStr (b64_encode b ++ repeat 61 k)) = json_of_bytes b.
Proof. intros H. cbn [canon]. rewrite (bytes_try_from_url b k H), (bytes_try_from_std b k H). split; reflexivity. Qed.

(** the order of the two attempts in [Bytes::try_from(&str)] cannot matter: a string both decoders
    accept has one value *)
Theorem bytes_try_from_order_irrelevant s :
  bytes_try_from_str s = match try_from_base64 s with Some b => Some b | None => try_from_base64url s end.
Proof.
  unfold bytes_try_from_str. destruct (try_from_base64url s) as [b'|] eqn:E1, (try_from_base64 s) as [b|] eqn:E2; try reflexivity.
  rewrite (std_then_url_same s b b' E2 E1). reflexivity.
Qed.

(** (b) the presentations of a number *)
Theorem num_canon_presentations t n : fits t n = true ->
  num_canon t (JInt n) = JInt n
  /\ num_canon t (JStr (dec_of_Z n)) = JInt n
  /\ (forall m e, dec_is m e n -> num_canon t (JDec m e) = JInt n).
Proof.
  intros H. destruct (string_or_num_presentations t n H) as (E1 & E2 & E3). unfold num_canon.
  rewrite E1, E2. repeat split; try reflexivity. intros m e Hd. rewrite (E3 m e Hd). reflexivity.
Qed.

Lemma field_canon_stringified fl (f : field) : f_dw f = DwMaybeStringified -> field_canon fl f = num_canon NU32.
Proof. intros H. unfold field_canon. rewrite H. reflexivity. Qed.

Lemma field_canon_plain fl (f : field) : f_dw f = DwNone \/ f_dw f = DwI64ToIana -> field_canon fl f = canon fl (f_ty f).
Proof. intros [H|H]; unfold field_canon; rewrite H; reflexivity. Qed.

Lemma canon_alg fl : canon fl TAlg = num_canon NI64.
Proof. reflexivity. Qed.

(** (c) members of a struct *)
Lemma canon_members_app cfs a b : canon_members cfs (a ++ b) = canon_members cfs a ++ canon_members cfs b.
Proof. unfold canon_members. apply flat_map_app. Qed.

(** a key no field claims: neither a name nor an alias *)
Definition unknown_key (fields : list field) (k : bytes) : bool :=
  forallb (fun f : field => negb (beq (f_name f) k || existsb (beq k) (f_aliases f))) fields.

Lemma unknown_key_find {X} (g : field -> X) fields k : unknown_key fields k = true ->
  forall i, find_field (map (fun f => (f, g f)) fields) i k = None.
Proof.
  unfold unknown_key. induction fields as [|f r IH]; intros H i; [reflexivity|].
  cbn [forallb] in H. apply andb_true_iff in H. destruct H as [Hf Hr]. cbn [map find_field fst].
  apply negb_true_iff in Hf. rewrite Hf, andb_false_r. apply IH, Hr.
Qed.

(** an unknown member, whatever its value and wherever it stands, disappears *)
Theorem canon_insert_unknown fl fields k v es1 es2 :
  plain_struct false fields = true -> unknown_key fields k = true ->
  canon fl (TStruct false fields) (JObj (es1 ++ (k, v) :: es2)) = canon fl (TStruct false fields) (JObj (es1 ++ es2)).
Proof.
  intros Hp Hk. rewrite !canon_struct_eq, Hp. f_equal. rewrite !canon_members_app. f_equal.
  unfold canon_members at 1. cbn [flat_map fst]. unfold struct_canons. rewrite (unknown_key_find _ fields k Hk). reflexivity.
Qed.

Theorem unknown_member_ignored fields k v es1 es2 :
  plain_struct false fields = true -> unknown_key fields k = true ->
  parse (TStruct false fields) (JObj (es1 ++ (k, v) :: es2)) = parse (TStruct false fields) (JObj (es1 ++ es2)).
Proof. intros Hp Hk. apply same_canon_same_parse, canon_insert_unknown; assumption. Qed.

(** in a leniently read list ([Value::deserialized]) the results are equal as they stand *)
Theorem unknown_member_ignored_cb fields k v es1 es2 :
  plain_struct false fields = true -> unknown_key fields k = true ->
  de Cb (TStruct false fields) (JObj (es1 ++ (k, v) :: es2)) = de Cb (TStruct false fields) (JObj (es1 ++ es2)).
Proof.
  intros Hp Hk. rewrite (canon_parse_cb _ (JObj (es1 ++ (k, v) :: es2))), (canon_parse_cb _ (JObj (es1 ++ es2))).
  rewrite (canon_insert_unknown Cb fields k v es1 es2 Hp Hk). reflexivity.
Qed.

(** a parse that succeeds is not disturbed (streaming flavour, result as it stands) *)
Theorem unknown_member_ok_preserved fl fields k v es1 es2 x :
  plain_struct false fields = true -> unknown_key fields k = true ->
  de fl (TStruct false fields) (JObj (es1 ++ es2)) = Ok x ->
  de fl (TStruct false fields) (JObj (es1 ++ (k, v) :: es2)) = Ok x.
Proof.
  intros Hp Hk H.
  pose proof (canon_le (TStruct false fields) fl (JObj (es1 ++ es2))) as H1. rewrite H in H1. apply res_le_ok in H1.
  pose proof (canon_le (TStruct false fields) fl (JObj (es1 ++ (k, v) :: es2))) as H2.
  rewrite (canon_insert_unknown fl fields k v es1 es2 Hp Hk), H1 in H2.
  destruct H2 as [H2|[H2 _]]; [symmetry; exact H2|discriminate].
Qed.

(** a member whose value changes between two presentations with the same canonical form *)
Lemma canon_at_nth fl fields i f : nth_error fields i = Some f -> canon_at (struct_canons fl fields) i = field_canon fl f.
Proof. intros H. unfold canon_at, struct_canons. rewrite nth_error_map, H. reflexivity. Qed.

Theorem canon_member_congr fl fields k i f v v' es1 es2 :
  plain_struct false fields = true ->
  find_field (struct_canons fl fields) 0 k = Some i -> nth_error fields i = Some f ->
  field_canon fl f v = field_canon fl f v' ->
  canon fl (TStruct false fields) (JObj (es1 ++ (k, v) :: es2)) = canon fl (TStruct false fields) (JObj (es1 ++ (k, v') :: es2)).
Proof.
  intros Hp Hk Hf H. rewrite !canon_struct_eq, Hp. f_equal. rewrite !canon_members_app. f_equal.
  change ((k, v) :: es2) with ([(k, v)] ++ es2). change ((k, v') :: es2) with ([(k, v')] ++ es2).
  rewrite !canon_members_app. f_equal. unfold canon_members. cbn [flat_map fst snd].
  rewrite Hk, (canon_at_nth fl fields i f Hf), H. reflexivity.
Qed.

(** ... parses to the same result, wherever the member stands and whatever else the object holds *)
Theorem member_presentation fields k i f v v' es1 es2 :
  plain_struct false fields = true ->
  find_field (struct_canons Stream fields) 0 k = Some i -> nth_error fields i = Some f ->
  field_canon Stream f v = field_canon Stream f v' ->
  parse (TStruct false fields) (JObj (es1 ++ (k, v) :: es2)) = parse (TStruct false fields) (JObj (es1 ++ (k, v') :: es2)).
Proof. intros Hp Hk Hf H. apply same_canon_same_parse. eapply canon_member_congr; eauto. Qed.

(** congruence under an enclosing member: presentations may differ at any depth *)
Theorem member_presentation_nested fields k i f v v' es1 es2 :
  plain_struct false fields = true ->
  find_field (struct_canons Stream fields) 0 k = Some i -> nth_error fields i = Some f ->
  f_dw f = DwNone -> canon Stream (f_ty f) v = canon Stream (f_ty f) v' ->
  parse (TStruct false fields) (JObj (es1 ++ (k, v) :: es2)) = parse (TStruct false fields) (JObj (es1 ++ (k, v') :: es2)).
Proof.
  intros Hp Hk Hf Hd H. eapply member_presentation; eauto. rewrite (field_canon_plain Stream f (or_introl Hd)). exact H.
Qed.

(** an unknown member inside a nested dictionary ([rp], [user], [authenticatorSelection], [extensions] of
    the creation options, [response], ...): one level down, and so on by [canon_member_congr] *)
Theorem unknown_member_ignored_nested fields k i f fields' k' v' a b es1 es2 :
  plain_struct false fields = true ->
  find_field (struct_canons Stream fields) 0 k = Some i -> nth_error fields i = Some f -> f_dw f = DwNone ->
  (f_ty f = TStruct false fields' \/ f_ty f = TOpt (TStruct false fields')) ->
  plain_struct false fields' = true -> unknown_key fields' k' = true ->
  parse (TStruct false fields) (JObj (es1 ++ (k, JObj (a ++ (k', v') :: b)) :: es2))
  = parse (TStruct false fields) (JObj (es1 ++ (k, JObj (a ++ b)) :: es2)).
Proof.
  intros Hp Hk Hf Hdw Hty Hp' Hk'. eapply member_presentation_nested; eauto.
  destruct Hty as [-> | ->].
  - apply canon_insert_unknown; assumption.
  - rewrite !canon_opt_nonnull by discriminate. apply canon_insert_unknown; assumption.
Qed.

(** an unknown member inside an entry of a leniently read list (excludeCredentials, allowCredentials,
    pubKeyCredParams) *)
Theorem unknown_member_ignored_in_list_entry fl fields k i f fields' k' v' a b l1 l2 es1 es2 :
  plain_struct false fields = true ->
  find_field (struct_canons fl fields) 0 k = Some i -> nth_error fields i = Some f ->
  (f_dw f = DwIgnoreUnknownOptVec /\ f_ty f = TOpt (TVec (TStruct false fields'))
   \/ f_dw f = DwIgnoreUnknownVec /\ f_ty f = TVec (TStruct false fields')) ->
  plain_struct false fields' = true -> unknown_key fields' k' = true ->
  to_opt (de fl (TStruct false fields) (JObj (es1 ++ (k, JArr (l1 ++ JObj (a ++ (k', v') :: b) :: l2)) :: es2)))
  = to_opt (de fl (TStruct false fields) (JObj (es1 ++ (k, JArr (l1 ++ JObj (a ++ b) :: l2)) :: es2))).
Proof.
  intros Hp Hk Hf Hty Hp' Hk'.
  rewrite <- (res_le_to_opt fl _ _ (canon_le _ fl (JObj (es1 ++ (k, JArr (l1 ++ JObj (a ++ (k', v') :: b) :: l2)) :: es2)))).
  rewrite <- (res_le_to_opt fl _ _ (canon_le _ fl (JObj (es1 ++ (k, JArr (l1 ++ JObj (a ++ b) :: l2)) :: es2)))).
  rewrite (canon_member_congr fl fields k i f _ (JArr (l1 ++ JObj (a ++ b) :: l2)) es1 es2 Hp Hk Hf); [reflexivity|].
  assert (E : lenient_canon (de Cb (TStruct false fields')) (canon Cb (TStruct false fields')) (JArr (l1 ++ JObj (a ++ (k', v') :: b) :: l2))
              = lenient_canon (de Cb (TStruct false fields')) (canon Cb (TStruct false fields')) (JArr (l1 ++ JObj (a ++ b) :: l2))).
  { cbn [lenient_canon]. f_equal. rewrite !filter_app, !map_app. f_equal. cbn [filter].
    rewrite (unknown_member_ignored_cb fields' k' v' a b Hp' Hk').
    destruct (ok_or (de Cb (TStruct false fields') (JObj (a ++ b)))); [|reflexivity].
    cbn [map]. f_equal. apply canon_insert_unknown; assumption. }
  unfold field_canon. destruct Hty as [[-> ->]|[-> ->]]; exact E.
Qed.

(** what [encoding::base64url] writes: no padding, url alphabet *)
Lemma b64url_shape b : bytes_ok b -> ~ In 61 (b64url_encode b) /\ Forall (fun c => b64_alpha true c = true) (b64url_encode b).
Proof. intros H. split; [apply b64url_encode_no_pad|apply b64url_encode_alphabet]; exact H. Qed.

(** * Unknown enumeration strings *)

(** [ignore_unknown]: an unknown string for an enumeration member is the type's default ... *)
Theorem ignore_unknown_enum_default fl (f : field) e s :
  f_flatten f = false -> f_dw f = DwIgnoreUnknown -> f_ty f = TEnum e -> enum_lookup e s = None ->
  field_parser fl f (JStr s) = Ok (REnum (match e_default e with Some d => d | None => 0 end)).
Proof.
  intros Hfl Hdw Hty Hs. unfold field_parser. rewrite Hfl, Hdw, Hty. cbn [de de_enum default_of]. rewrite Hs.
  destruct fl; reflexivity.
Qed.

(** ... and [None] for an optional one *)
Theorem ignore_unknown_enum_none fl (f : field) e s :
  f_flatten f = false -> f_dw f = DwIgnoreUnknown -> f_ty f = TOpt (TEnum e) -> enum_lookup e s = None ->
  field_parser fl f (JStr s) = Ok RNone.
Proof.
  intros Hfl Hdw Hty Hs. unfold field_parser. rewrite Hfl, Hdw, Hty. cbn [de de_enum default_of rmap]. rewrite Hs.
  destruct fl; reflexivity.
Qed.

(** leniently read lists: an entry that does not deserialise is dropped, the others are kept in order *)
Lemma keep_ok_app p a b : keep_ok p (a ++ b) = keep_ok p a ++ keep_ok p b.
Proof. induction a as [|x a IH]; [reflexivity|]. cbn [app keep_ok]. destruct (p x); rewrite IH; reflexivity. Qed.

Theorem keep_ok_drop p x l1 l2 : (forall y, p x <> Ok y) -> keep_ok p (l1 ++ x :: l2) = keep_ok p (l1 ++ l2).
Proof.
  intros H. rewrite !keep_ok_app. f_equal. cbn [keep_ok]. destruct (p x) as [y| |]; try reflexivity.
  exfalso. apply (H y). reflexivity.
Qed.

Lemma de_enum_unknown fl e s : enum_lookup e s = None -> forall y, de fl (TEnum e) (JStr s) <> Ok y.
Proof. intros H y. cbn [de de_enum]. rewrite H. destruct fl; discriminate. Qed.

Theorem lenient_list_drops_unknown_enum fl (f : field) e s l1 l2 :
  f_flatten f = false ->
  (f_dw f = DwIgnoreUnknownOptVec /\ f_ty f = TOpt (TVec (TEnum e)) \/ f_dw f = DwIgnoreUnknownVec /\ f_ty f = TVec (TEnum e)) ->
  enum_lookup e s = None ->
  field_parser fl f (JArr (l1 ++ JStr s :: l2)) = field_parser fl f (JArr (l1 ++ l2)).
Proof.
  intros Hfl [[Hdw Hty]|[Hdw Hty]] Hs; unfold field_parser; rewrite Hfl, Hdw, Hty;
    rewrite (keep_ok_drop _ (JStr s) l1 l2 (de_enum_unknown Cb e s Hs)); reflexivity.
Qed.

(** an entry that is a struct with a member that does not deserialise is dropped as a whole *)
Lemma obj_loop_bad_member fl deny flat (fps : list fparser) k i v :
  find_field fps 0 k = Some i -> (forall y, parser_at fps i v <> Ok y) ->
  forall es1 es2 slots extras y, obj_loop fl deny flat fps slots extras (es1 ++ (k, v) :: es2) <> Ok y.
Proof.
  intros Hk Hv. induction es1 as [|[k1 v1] es1 IH]; intros es2 slots extras y; cbn [app obj_loop].
  - rewrite Hk. destruct (nth i slots None); [destruct fl; discriminate|].
    destruct (parser_at fps i v) as [x| |] eqn:E; [exfalso; apply (Hv x); reflexivity| |discriminate].
    destruct es2; [discriminate|destruct fl; discriminate].
  - destruct (find_field fps 0 k1) as [j|].
    + destruct (nth j slots None); [destruct fl; discriminate|].
      destruct (parser_at fps j v1); [apply IH| |discriminate].
      destruct (es1 ++ (k, v) :: es2); [discriminate|destruct fl; discriminate].
    + destruct flat; [apply IH|]. destruct deny; [destruct fl; discriminate|apply IH].
Qed.

Theorem struct_bad_member fl deny fields k i f v es1 es2 :
  find_field (struct_parsers fl fields) 0 k = Some i -> nth_error fields i = Some f ->
  (forall y, field_parser fl f v <> Ok y) ->
  forall y, de fl (TStruct deny fields) (JObj (es1 ++ (k, v) :: es2)) <> Ok y.
Proof.
  intros Hk Hf Hv y. rewrite de_struct_eq. unfold de_struct. cbv zeta.
  destruct (obj_loop _ _ _ _ _ _ _) as [[slots extras]| |] eqn:E; try discriminate.
  exfalso. revert E. apply obj_loop_bad_member with (i := i); [exact Hk|].
  unfold parser_at, struct_parsers. rewrite nth_error_map, Hf. exact Hv.
Qed.

Lemma de_alg_unknown fl v : (forall z, string_or_num NI64 v = Some z -> alg_known z = false) -> forall y, de fl TAlg v <> Ok y.
Proof.
  intros H y. cbn [de]. destruct (string_or_num NI64 v) as [z|] eqn:E.
  - rewrite (H z eq_refl). destruct fl; discriminate.
  - unfold err_any. destruct fl; [|discriminate]. cbn [fail]. destruct v as [| | | | |[|]|[|]]; discriminate.
Qed.

(** * Emit / parse round trip *)

(** values of a type, as the Rust types allow them (bytes below 256, integers in range,
    registered algorithms, variant numbers that exist) *)
Fixpoint wt (t : ty) (x : rv) {struct t} : bool :=
  match t with
  | TUnit => match x with RUnit => true | _ => false end
  | TBool => match x with RBool _ => true | _ => false end
  | TStr => match x with RStr _ => true | _ => false end
  | TBytes => match x with RBytes b => bytes_okb b | _ => false end
  | TI64 => match x with RInt z => fits NI64 z | _ => false end
  | TU32 => match x with RInt z => fits NU32 z | _ => false end
  | TAlg => match x with RInt z => fits NI64 z && alg_known z | _ => false end
  | TJson => match x with RJson _ => true | _ => false end
  | TEnum e => match x with REnum i => i <? N.of_nat (length (e_variants e)) | _ => false end
  | TOpt t' => match x with RNone => true | RSome y => wt t' y | _ => false end
  | TVec t' => match x with RList l => forallb (wt t') l | _ => false end
  | THashMap t' | TIndexMap t' => match x with RMap m => forallb (fun kv => wt t' (snd kv)) m | _ => false end
  | TStruct _ fields =>
      match x with
      | RStruct xs =>
          (fix go (fs : list field) (xs : list rv) : bool :=
             match fs, xs with
             | [], [] => true
             | f :: fr, y :: yr => wt (f_ty f) y && go fr yr
             | _, _ => false
             end) fields xs
      | _ => false
      end
  end.

Fixpoint wt_fields (fs : list field) (xs : list rv) : bool :=
  match fs, xs with
  | [], [] => true
  | f :: fr, y :: yr => wt (f_ty f) y && wt_fields fr yr
  | _, _ => false
  end.

Lemma wt_struct_eq deny fields xs : wt (TStruct deny fields) (RStruct xs) = wt_fields fields xs.
Proof.
  cbn [wt]. revert xs. induction fields as [|f fr IH]; intros [|y yr]; reflexivity.
Qed.

(** members written for a struct *)
Fixpoint ser_fields (fs : list field) (xs : list rv) : members :=
  match fs, xs with
  | f :: fr, y :: yr =>
      (if f_skip_none f && is_none y then []
       else
         let j := match f_sw f with
                  | SwTruthiness => JBool (match y with RSome (RBool true) => true | _ => false end)
                  | _ => ser (f_ty f) y
                  end in
         if f_flatten f then members_of j else [(f_name f, j)])
      ++ ser_fields fr yr
  | _, _ => []
  end.

Lemma ser_struct_eq deny fields xs : ser (TStruct deny fields) (RStruct xs) = JObj (ser_fields fields xs).
Proof.
  reflexivity.
Qed.

(** the schema conditions under which what is written is read back (all computable) *)
Definition never_null (t : ty) : bool := match t with TUnit | TJson | TOpt _ => false | _ => true end.

Definition enum_rt_ok (e : enum_schema) : bool :=
  forallb (fun i => match enum_lookup e (enum_name e (N.of_nat i)) with Some j => j =? N.of_nat i | None => false end)
          (seq 0 (length (e_variants e))).

Definition field_rt_ok (f : field) : bool :=
  negb (f_flatten f)
  && match f_sw f with SwTruthiness => false | _ => true end
  && match f_dw f with DwNone | DwIgnoreUnknown | DwI64ToIana => true | _ => false end
  && (if f_skip_none f
      then is_opt (f_ty f) && (f_default f || match f_dw f with DwNone => true | _ => false end)
      else true).

(** every member name leads back to its own field *)
Definition names_rt_ok (fields : list field) : bool :=
  forallb (fun i => match nth_error fields i with
                    | Some f => match find_field (map (fun f : field => (f, tt)) fields) 0 (f_name f) with
                                | Some j => Nat.eqb j i
                                | None => false
                                end
                    | None => false
                    end) (seq 0 (length fields)).

Fixpoint rt_ok (t : ty) : bool :=
  match t with
  | TUnit | TBool | TStr | TBytes | TI64 | TU32 | TAlg => true
  | TJson | THashMap _ | TIndexMap _ => false
  | TEnum e => enum_rt_ok e
  | TOpt t' => never_null t' && rt_ok t'
  | TVec t' => rt_ok t'
  | TStruct _ fields => names_rt_ok fields && forallb field_rt_ok fields && forallb (fun f : field => rt_ok (f_ty f)) fields
  end.

Lemma ser_nonnull t x : never_null t = true -> wt t x = true -> ser t x <> JNull.
Proof. destruct t; try discriminate; intros _; destruct x; try discriminate. Qed.

Lemma set_nth_app {A} (a : list A) x y r : set_nth (length a) x (a ++ y :: r) = a ++ x :: r.
Proof. induction a as [|z a IH]; [reflexivity|]. cbn [length app set_nth]. rewrite IH. reflexivity. Qed.

Lemma nth_app_len {A} (a : list A) x r d : nth (length a) (a ++ x :: r) d = x.
Proof. induction a as [|z a IH]; [reflexivity|]. exact IH. Qed.

(** slots after the members of [fs] have been read *)
Fixpoint eslots (fs : list field) (xs : list rv) : list (option rv) :=
  match fs, xs with
  | f :: fr, y :: yr => (if f_skip_none f && is_none y then None else Some y) :: eslots fr yr
  | _, _ => []
  end.

Lemma eslots_app a xa b xb : length a = length xa -> eslots (a ++ b) (xa ++ xb) = eslots a xa ++ eslots b xb.
Proof.
  revert xa. induction a as [|f a IH]; intros [|y xa] H; try discriminate; [reflexivity|].
  cbn [app eslots]. rewrite IH by (cbn in H; lia). reflexivity.
Qed.

Lemma eslots_length fs : forall xs, length fs = length xs -> length (eslots fs xs) = length fs.
Proof. induction fs as [|f fs IH]; intros [|y xs] H; try discriminate; [reflexivity|]. cbn [eslots length]. rewrite IH by (cbn in H; lia). reflexivity. Qed.

Lemma wt_fields_length fs : forall xs, wt_fields fs xs = true -> length fs = length xs.
Proof.
  induction fs as [|f fs IH]; intros [|y xs] H; try discriminate; [reflexivity|].
  cbn [wt_fields] in H. apply andb_true_iff in H. cbn [length]. rewrite (IH xs); [reflexivity|apply H].
Qed.

Lemma parser_at_mid fl fields pre f suf :
  fields = pre ++ f :: suf -> parser_at (struct_parsers fl fields) (length pre) = field_parser fl f.
Proof.
  intros ->. unfold parser_at, struct_parsers. rewrite nth_error_map, nth_error_app2, Nat.sub_diag by lia. reflexivity.
Qed.

Section StructRoundTrip.
  Variable fl : flavour.
  Variable deny : bool.
  Variable fields : list field.
  Let fps := struct_parsers fl fields.
  Hypothesis Hnames : names_rt_ok fields = true.
  Hypothesis Hfields : forallb field_rt_ok fields = true.
  (** every member value is read back by its field's parser *)
  Variable good : field -> rv -> Prop.
  Hypothesis Hgood : forall f y, In f fields -> good f y -> field_parser fl f (ser (f_ty f) y) = Ok y.

  Lemma name_finds pre f suf : fields = pre ++ f :: suf -> find_field fps 0 (f_name f) = Some (length pre).
  Proof.
    intros E. unfold names_rt_ok in Hnames. rewrite forallb_forall in Hnames.
    specialize (Hnames (length pre)). rewrite E in Hnames at 1 2.
    assert (Hin : In (length pre) (seq 0 (length (pre ++ f :: suf)))).
    { apply in_seq. rewrite app_length. cbn [length]. lia. }
    specialize (Hnames Hin). rewrite nth_error_app2, Nat.sub_diag in Hnames by lia. cbn [nth_error] in Hnames.
    unfold fps, struct_parsers.
    rewrite (find_field_fst (map (fun f0 : field => (f0, field_parser fl f0)) fields) (map (fun f0 : field => (f0, tt)) fields))
      by (rewrite !map_map; reflexivity).
    destruct (find_field _ 0 (f_name f)) as [j|]; [|discriminate].
    apply Nat.eqb_eq in Hnames. rewrite Hnames. reflexivity.
  Qed.

  Lemma field_ok_in f : In f fields -> field_rt_ok f = true.
  Proof. intros H. rewrite forallb_forall in Hfields. apply Hfields, H. Qed.

  Fixpoint good_fields (fs : list field) (xs : list rv) : Prop :=
    match fs, xs with
    | [], [] => True
    | f :: fr, y :: yr => good f y /\ good_fields fr yr
    | _, _ => False
    end.

  Lemma loop_round : forall suf xsuf pre xpre,
    fields = pre ++ suf -> length pre = length xpre -> good_fields suf xsuf ->
    obj_loop fl deny false fps (eslots pre xpre ++ repeat None (length suf)) [] (ser_fields suf xsuf)
    = Ok (eslots pre xpre ++ eslots suf xsuf, []).
  Proof.
    induction suf as [|f suf IH]; intros [|y xsuf] pre xpre E Hlen Hg; try contradiction.
    - cbn [ser_fields obj_loop eslots repeat length]. reflexivity.
    - destruct Hg as [Hgy Hg].
      assert (Hin : In f fields) by (rewrite E; apply in_or_app; right; left; reflexivity).
      pose proof (field_ok_in f Hin) as Hok. unfold field_rt_ok in Hok.
      apply andb_true_iff in Hok. destruct Hok as [Hok Hskip].
      apply andb_true_iff in Hok. destruct Hok as [Hok Hdw].
      apply andb_true_iff in Hok. destruct Hok as [Hflat Hsw]. apply negb_true_iff in Hflat.
      assert (E' : fields = (pre ++ [f]) ++ suf) by (rewrite <- app_assoc; exact E).
      assert (Hlen' : length (pre ++ [f]) = length (xpre ++ [y])) by (rewrite !app_length; cbn [length]; lia).
      specialize (IH xsuf (pre ++ [f]) (xpre ++ [y]) E' Hlen' Hg).
      rewrite (eslots_app pre xpre [f] [y] Hlen) in IH. cbn [eslots] in IH. rewrite <- !app_assoc in IH. cbn [app] in IH.
      cbn [ser_fields eslots length repeat]. destruct (f_skip_none f && is_none y) eqn:Esk.
      + cbn [app]. exact IH.
      + rewrite Hflat. replace (match f_sw f with SwTruthiness => _ | _ => ser (f_ty f) y end) with (ser (f_ty f) y)
          by (destruct (f_sw f); [reflexivity|reflexivity|discriminate]).
        cbn [app obj_loop]. rewrite (name_finds pre f suf E).
        rewrite <- (eslots_length pre xpre Hlen) at 1. rewrite nth_app_len.
        unfold fps at 1. rewrite (parser_at_mid fl fields pre f suf E).
        rewrite (Hgood f y Hin Hgy).
        rewrite <- (eslots_length pre xpre Hlen) at 1. rewrite set_nth_app. exact IH.
  Qed.

  Lemma finish_round : forall fs xs,
    (forall f, In f fs -> In f fields) -> wt_fields fs xs = true ->
    finish (struct_parsers fl fs) (eslots fs xs) [] = Ok xs.
  Proof.
    induction fs as [|f fs IH]; intros [|y xs] Hsub Hwt; try discriminate; [reflexivity|].
    cbn [wt_fields] in Hwt. apply andb_true_iff in Hwt. destruct Hwt as [Hy Hwt].
    pose proof (field_ok_in f (Hsub f (or_introl eq_refl))) as Hok. unfold field_rt_ok in Hok.
    apply andb_true_iff in Hok. destruct Hok as [Hok Hskip].
    apply andb_true_iff in Hok. destruct Hok as [Hok Hdw].
    apply andb_true_iff in Hok. destruct Hok as [Hflat Hsw]. apply negb_true_iff in Hflat.
    cbn [struct_parsers map eslots finish]. rewrite Hflat.
    fold (struct_parsers fl fs). rewrite (IH xs (fun g Hg => Hsub g (or_intror Hg)) Hwt).
    destruct (f_skip_none f && is_none y) eqn:Esk; [|reflexivity].
    apply andb_true_iff in Esk. destruct Esk as [Es En]. rewrite Es in Hskip.
    apply andb_true_iff in Hskip. destruct Hskip as [Hopt Hdef].
    destruct y; try discriminate. unfold missing.
    destruct (f_ty f) eqn:Et; try discriminate. cbn [default_of is_opt].
    destruct (f_default f); [reflexivity|]. cbn [orb] in Hdef. destruct (f_dw f); try discriminate. reflexivity.
  Qed.

  Lemma struct_round xs :
    wt_fields fields xs = true -> good_fields fields xs ->
    de fl (TStruct deny fields) (ser (TStruct deny fields) (RStruct xs)) = Ok (RStruct xs).
  Proof.
    intros Hwt Hg. rewrite ser_struct_eq, de_struct_eq. unfold de_struct. cbv zeta.
    assert (Hfl : existsb (fun fp : fparser => f_flatten (fst fp)) (struct_parsers fl fields) = false).
    { rewrite existsb_struct_parsers. apply not_true_is_false. intros H. apply existsb_exists in H. destruct H as (f & Hin & Hf).
      pose proof (field_ok_in f Hin) as Hok. unfold field_rt_ok in Hok. rewrite Hf in Hok. discriminate. }
    match goal with |- context [obj_loop _ _ ?b _ _ _ _] => replace b with false by (symmetry; exact Hfl) end.
    pose proof (loop_round fields xs [] [] eq_refl eq_refl Hg) as H. cbn [eslots app] in H.
    unfold struct_parsers at 2. rewrite map_length. fold fps. rewrite H.
    unfold fps. rewrite (finish_round fields xs (fun f Hf => Hf) Hwt). reflexivity.
  Qed.
End StructRoundTrip.

Definition rt_law (t : ty) : Prop := rt_ok t = true -> forall fl x, wt t x = true -> de fl t (ser t x) = Ok x.

Lemma enum_round e i : enum_rt_ok e = true -> i <? N.of_nat (length (e_variants e)) = true ->
  enum_lookup e (enum_name e i) = Some i.
Proof.
  unfold enum_rt_ok. intros H Hi. rewrite forallb_forall in H. specialize (H (N.to_nat i)).
  rewrite N2Nat.id in H. apply N.ltb_lt in Hi.
  assert (Hin : In (N.to_nat i) (seq 0 (length (e_variants e)))) by (apply in_seq; lia).
  specialize (H Hin). destruct (enum_lookup e (enum_name e i)) as [j|]; [|discriminate].
  apply N.eqb_eq in H. rewrite H. reflexivity.
Qed.

Lemma wt_good_fields (good : field -> rv -> Prop) fs : forall xs,
  (forall f y, In f fs -> wt (f_ty f) y = true -> good f y) -> wt_fields fs xs = true -> good_fields good fs xs.
Proof.
  induction fs as [|f fs IH]; intros [|y xs] Hg Hwt; try discriminate; [exact I|].
  cbn [wt_fields] in Hwt. apply andb_true_iff in Hwt. destruct Hwt as [Hy Hwt]. split.
  - apply Hg; [left; reflexivity|exact Hy].
  - apply IH; [|exact Hwt]. intros g z Hin. apply Hg. right; exact Hin.
Qed.

Theorem round_trip : forall t, rt_law t.
Proof.
  induction t using ty_ind'; intros Hok fl x Hwt; cbn [rt_ok] in Hok; try discriminate.
  - destruct x; try discriminate. reflexivity.
  - destruct x; try discriminate. reflexivity.
  - destruct x; try discriminate. reflexivity.
  - destruct x; try discriminate. cbn [wt] in Hwt. apply bytes_okb_spec in Hwt. cbn [ser de].
    change (JArr (map (fun n => JInt (Z.of_N n)) b)) with (json_of_bytes b).
    rewrite (bytes_array_parses fl b Hwt). reflexivity.
  - destruct x; try discriminate. cbn [wt] in Hwt. cbn [ser de]. rewrite Hwt. reflexivity.
  - destruct x; try discriminate. cbn [wt] in Hwt. cbn [ser de]. rewrite Hwt. reflexivity.
  - destruct x; try discriminate. cbn [wt] in Hwt. apply andb_true_iff in Hwt. destruct Hwt as [Hf Hk].
    cbn [ser de string_or_num]. unfold visit_int. rewrite Hf, Hk. reflexivity.
  - destruct x; try discriminate. cbn [wt] in Hwt. cbn [ser de de_enum]. rewrite (enum_round e i Hok Hwt). reflexivity.
  - apply andb_true_iff in Hok. destruct Hok as [Hnn Hok]. destruct x; try discriminate; [reflexivity|].
    cbn [wt] in Hwt. cbn [ser]. rewrite de_opt_nonnull by (apply ser_nonnull; assumption).
    rewrite (IHt Hok fl x Hwt). reflexivity.
  - destruct x; try discriminate. cbn [wt] in Hwt. cbn [ser de].
    rewrite (seq_all_ok fl (de fl t) (map (ser t) l) l); [reflexivity|].
    rewrite forallb_forall in Hwt. clear -Hwt IHt Hok. induction l as [|y l IH]; cbn [map]; constructor.
    + apply IHt; [exact Hok|]. apply Hwt. left; reflexivity.
    + apply IH. intros z Hz. apply Hwt. right; exact Hz.
  - destruct x; try discriminate. rewrite wt_struct_eq in Hwt.
    apply andb_true_iff in Hok. destruct Hok as [Hok Htys]. apply andb_true_iff in Hok. destruct Hok as [Hnames Hfields].
    apply (struct_round fl deny fields Hnames Hfields (fun f y => wt (f_ty f) y = true)); [|exact Hwt|].
    + intros f y Hin Hy. rewrite forallb_forall in Hfields, Htys. rewrite Forall_forall in H.
      pose proof (H f Hin (Htys f Hin) fl y Hy) as E. pose proof (Hfields f Hin) as Hf. unfold field_rt_ok in Hf.
      apply andb_true_iff in Hf. destruct Hf as [Hf _]. apply andb_true_iff in Hf. destruct Hf as [Hf Hdw].
      apply andb_true_iff in Hf. destruct Hf as [Hflat _]. apply negb_true_iff in Hflat.
      unfold field_parser. rewrite Hflat. destruct (f_dw f); try discriminate; rewrite E; reflexivity.
    + apply wt_good_fields; [|exact Hwt]. intros f y _ Hy. exact Hy.
Qed.

Theorem emit_parse_round_trip t x : rt_ok t = true -> wt t x = true -> parse t (ser t x) = Some x.
Proof. intros Hok Hwt. unfold parse. rewrite (round_trip t Hok Stream x Hwt). reflexivity. Qed.

(** * Presentations as relations (for the statements) *)
Inductive bytes_pres (b : bytes) : json -> Prop :=
| BP_array : bytes_pres b (json_of_bytes b)                                  (* [1,2,3] *)
| BP_url : bytes_pres b (JStr (b64url_encode b))                             (* base64url *)
| BP_url_padded k : bytes_pres b (JStr (b64url_encode b ++ repeat 61 k))     (* base64url and k times '=' *)
| BP_std : bytes_pres b (JStr (b64_encode b))                                (* base64 *)
| BP_std_padded k : bytes_pres b (JStr (b64_encode b ++ repeat 61 k)).       (* base64 and k times '=' *)

Lemma bytes_pres_canonical_padding b :
  bytes_pres b (JStr (b64url_encode b ++ b64_padding b)) /\ bytes_pres b (JStr (b64_encode b ++ b64_padding b)).
Proof. destruct (b64_padding_repeat b) as [k ->]. split; constructor. Qed.

Theorem canon_bytes_pres fl b v : bytes_ok b -> bytes_pres b v -> canon fl TBytes v = json_of_bytes b.
Proof.
  intros H [| |k| |k]; cbn [canon].
  - reflexivity.
  - rewrite (bytes_try_from_url_unpadded b H). reflexivity.
  - rewrite (bytes_try_from_url b k H). reflexivity.
  - rewrite (bytes_try_from_std_unpadded b H). reflexivity.
  - rewrite (bytes_try_from_std b k H). reflexivity.
Qed.

Theorem de_bytes_pres fl b v : bytes_ok b -> bytes_pres b v -> de fl TBytes v = Ok (RBytes b).
Proof.
  intros H Hv. destruct (bytes_presentations fl b H) as (E1 & E2 & _ & E4 & _). destruct Hv as [| |k| |k]; try assumption.
  - cbn [de]. rewrite (bytes_b64url_parses fl b k H). reflexivity.
  - cbn [de]. rewrite (bytes_b64_parses fl b k H). reflexivity.
Qed.

Inductive num_pres (n : Z) : json -> Prop :=
| NP_int : num_pres n (JInt n)                                   (* 1800 *)
| NP_str : num_pres n (JStr (dec_of_Z n))                        (* "1800" *)
| NP_dec m e : dec_is m e n -> (Z.abs m < 10 ^ 15)%Z -> num_pres n (JDec m e).
    (* 1800.0, 18e2, 1.8e3: m * 10^e = n exactly; at most 15 significant digits, the range in which the
       model's exact-decimal conversion is the f64 conversion of the code (see Json.v, RESTRICTION) *)

Lemma num_pres_point_zero n : (Z.abs n < 10 ^ 14)%Z -> num_pres n (JDec (n * 10) (-1)).
Proof. intros H. constructor; [apply dec_is_point_zero|lia]. Qed.

Theorem num_canon_pres t n v : fits t n = true -> num_pres n v -> num_canon t v = JInt n.
Proof.
  intros H Hv. destruct (num_canon_presentations t n H) as (E1 & E2 & E3). destruct Hv as [| |m e Hd _]; auto.
Qed.

(** a [Bytes] or [Option<Bytes>] member of any struct, in any presentation, anywhere in the object *)
Theorem bytes_member_presentations fields k i f b v es1 es2 :
  plain_struct false fields = true ->
  find_field (struct_canons Stream fields) 0 k = Some i -> nth_error fields i = Some f ->
  f_dw f = DwNone -> (f_ty f = TBytes \/ f_ty f = TOpt TBytes) ->
  bytes_ok b -> bytes_pres b v ->
  parse (TStruct false fields) (JObj (es1 ++ (k, v) :: es2))
  = parse (TStruct false fields) (JObj (es1 ++ (k, json_of_bytes b) :: es2)).
Proof.
  intros Hp Hk Hf Hdw Hty Hb Hv. eapply member_presentation_nested; eauto.
  assert (E : forall w, bytes_pres b w -> canon Stream (f_ty f) w = json_of_bytes b).
  { intros w Hw. destruct Hty as [->| ->].
    - apply canon_bytes_pres; assumption.
    - rewrite canon_opt_nonnull by (destruct Hw; discriminate). apply canon_bytes_pres; assumption. }
  rewrite (E v Hv), (E _ (BP_array b)). reflexivity.
Qed.

(** a [maybe_stringified] member (timeouts) of any struct *)
Theorem stringified_member_presentations fields k i f n v es1 es2 :
  plain_struct false fields = true ->
  find_field (struct_canons Stream fields) 0 k = Some i -> nth_error fields i = Some f ->
  f_dw f = DwMaybeStringified -> fits NU32 n = true -> num_pres n v ->
  parse (TStruct false fields) (JObj (es1 ++ (k, v) :: es2))
  = parse (TStruct false fields) (JObj (es1 ++ (k, JInt n) :: es2)).
Proof.
  intros Hp Hk Hf Hdw Hn Hv. eapply member_presentation; eauto.
  rewrite (field_canon_stringified Stream f Hdw), (num_canon_pres NU32 n v Hn Hv), (num_canon_pres NU32 n _ Hn (NP_int n)). reflexivity.
Qed.

(** an [i64_to_iana] member (algorithm identifiers) of any struct, either deserialiser flavour *)
Theorem alg_member_presentations fl fields k i f n v es1 es2 :
  plain_struct false fields = true ->
  find_field (struct_canons fl fields) 0 k = Some i -> nth_error fields i = Some f ->
  f_dw f = DwI64ToIana -> f_ty f = TAlg -> fits NI64 n = true -> num_pres n v ->
  to_opt (de fl (TStruct false fields) (JObj (es1 ++ (k, v) :: es2)))
  = to_opt (de fl (TStruct false fields) (JObj (es1 ++ (k, JInt n) :: es2))).
Proof.
  intros Hp Hk Hf Hdw Hty Hn Hv.
  rewrite <- (res_le_to_opt fl _ _ (canon_le _ fl (JObj (es1 ++ (k, v) :: es2)))).
  rewrite <- (res_le_to_opt fl _ _ (canon_le _ fl (JObj (es1 ++ (k, JInt n) :: es2)))).
  rewrite (canon_member_congr fl fields k i f v (JInt n) es1 es2 Hp Hk Hf); [reflexivity|].
  rewrite (field_canon_plain fl f (or_intror Hdw)), Hty, canon_alg.
  rewrite (num_canon_pres NI64 n v Hn Hv), (num_canon_pres NI64 n _ Hn (NP_int n)). reflexivity.
Qed.

(** * Client data: the member sequence of the serialisation *)
From PK Require Import Wire.gen.JsonSchema.

Definition truthy (cross : rv) : bool := match cross with RSome (RBool true) => true | _ => false end.

Theorem client_data_members E i ch og cross extra unk :
  ser (s_CollectedClientData E) (RStruct [REnum i; RStr ch; RStr og; cross; extra; RMap unk]) =
  JObj ([(str_type, JStr (enum_name e_ClientDataType i)); (str_challenge, JStr ch); (str_origin, JStr og);
         (str_crossOrigin, JBool (truthy cross))]
        ++ members_of (ser E extra) ++ map (fun kv => (fst kv, ser TJson (snd kv))) unk).
Proof.
  unfold s_CollectedClientData. rewrite ser_struct_eq.
  cbn [ser_fields f_skip_none f_flatten f_sw f_name f_ty andb app].
  change (ser (TIndexMap TJson) (RMap unk)) with (JObj (map (fun kv : bytes * rv => (fst kv, ser TJson (snd kv))) unk)).
  cbn [members_of]. rewrite app_nil_r. reflexivity.
Qed.

Definition rjson_map (ms : members) : rv := RMap (map (fun kv => (fst kv, RJson (snd kv))) ms).

Lemma ser_rjson_members ms : map (fun kv : bytes * rv => (fst kv, ser TJson (snd kv))) (map (fun kv => (fst kv, RJson (snd kv))) ms) = ms.
Proof. induction ms as [|[k v] ms IH]; [reflexivity|]. cbn [map fst snd]. rewrite IH. reflexivity. Qed.

(** E = serde_json::Map: extras, then unknown members, each in their own order *)
Theorem client_data_members_map i ch og cross extra unknown :
  ser (s_CollectedClientData (TIndexMap TJson)) (RStruct [REnum i; RStr ch; RStr og; cross; rjson_map extra; rjson_map unknown]) =
  JObj ([(str_type, JStr (enum_name e_ClientDataType i)); (str_challenge, JStr ch); (str_origin, JStr og);
         (str_crossOrigin, JBool (truthy cross))] ++ extra ++ unknown).
Proof.
  unfold rjson_map. rewrite client_data_members. cbn [ser members_of]. rewrite !ser_rjson_members. reflexivity.
Qed.

(** E = (): nothing between crossOrigin and the unknown members *)
Theorem client_data_members_unit i ch og cross x unknown :
  ser (s_CollectedClientData TUnit) (RStruct [REnum i; RStr ch; RStr og; cross; x; rjson_map unknown]) =
  JObj ([(str_type, JStr (enum_name e_ClientDataType i)); (str_challenge, JStr ch); (str_origin, JStr og);
         (str_crossOrigin, JBool (truthy cross))] ++ unknown).
Proof.
  unfold rjson_map. rewrite client_data_members. cbn [ser members_of app]. rewrite !ser_rjson_members. reflexivity.
Qed.

(** * Instances on the generated schemas (computed) *)
Definition fields_of (t : ty) : list field := match t with TStruct _ fs => fs | _ => [] end.
Definition is_plain_struct (t : ty) : bool := match t with TStruct deny fs => plain_struct deny fs | _ => false end.

Lemma all_structs_plain : forallb is_plain_struct all_structs = true.
Proof. vm_compute. reflexivity. Qed.

Lemma plain_struct_form t : is_plain_struct t = true -> t = TStruct false (fields_of t) /\ plain_struct false (fields_of t) = true.
Proof.
  destruct t; try discriminate. cbn [is_plain_struct fields_of]. intros H. assert (deny = false) as ->.
  { unfold plain_struct in H. destruct deny; [discriminate|reflexivity]. }
  split; [reflexivity|exact H].
Qed.

(** every struct of the crate's WebAuthn JSON (request options, their nested dictionaries, responses,
    credentials): an unknown member anywhere in the object is ignored *)
Theorem schema_unknown_member_ignored t k v es1 es2 :
  In t all_structs -> unknown_key (fields_of t) k = true ->
  parse t (JObj (es1 ++ (k, v) :: es2)) = parse t (JObj (es1 ++ es2)).
Proof.
  intros Hin Hk. pose proof all_structs_plain as Hall. rewrite forallb_forall in Hall.
  destruct (plain_struct_form t (Hall t Hin)) as [E Hp]. rewrite E. apply unknown_member_ignored; assumption.
Qed.

Theorem schema_unknown_member_ignored_cb t k v es1 es2 :
  In t all_structs -> unknown_key (fields_of t) k = true ->
  de Cb t (JObj (es1 ++ (k, v) :: es2)) = de Cb t (JObj (es1 ++ es2)).
Proof.
  intros Hin Hk. pose proof all_structs_plain as Hall. rewrite forallb_forall in Hall.
  destruct (plain_struct_form t (Hall t Hin)) as [E Hp]. rewrite E. apply unknown_member_ignored_cb; assumption.
Qed.

(** the timeout of both option dictionaries *)
Theorem options_timeout_presentations t n v es1 es2 :
  t = r_PublicKeyCredentialCreationOptions \/ t = r_PublicKeyCredentialRequestOptions ->
  fits NU32 n = true -> num_pres n v ->
  parse t (JObj (es1 ++ (str_timeout, v) :: es2)) = parse t (JObj (es1 ++ (str_timeout, JInt n) :: es2)).
Proof.
  intros [-> | ->] Hn Hv.
  - eapply (stringified_member_presentations (fields_of r_PublicKeyCredentialCreationOptions) str_timeout); try reflexivity; assumption.
  - eapply (stringified_member_presentations (fields_of r_PublicKeyCredentialRequestOptions) str_timeout); try reflexivity; assumption.
Qed.

(** the algorithm of a credential parameter, as the streaming deserialiser and as a list entry see it *)
Theorem parameters_alg_presentations fl n v es1 es2 :
  fits NI64 n = true -> num_pres n v ->
  to_opt (de fl r_PublicKeyCredentialParameters (JObj (es1 ++ (str_alg, v) :: es2)))
  = to_opt (de fl r_PublicKeyCredentialParameters (JObj (es1 ++ (str_alg, JInt n) :: es2))).
Proof.
  intros Hn Hv.
  eapply (alg_member_presentations fl (fields_of r_PublicKeyCredentialParameters) str_alg); try reflexivity; assumption.
Qed.

(** an entry of pubKeyCredParams whose algorithm is not registered is dropped *)
Theorem unknown_alg_entry_dropped v es1 es2 l1 l2 :
  (forall z, string_or_num NI64 v = Some z -> alg_known z = false) ->
  keep_ok (de Cb r_PublicKeyCredentialParameters) (l1 ++ JObj (es1 ++ (str_alg, v) :: es2) :: l2)
  = keep_ok (de Cb r_PublicKeyCredentialParameters) (l1 ++ l2).
Proof.
  intros H. apply keep_ok_drop.
  apply (struct_bad_member Cb false (fields_of r_PublicKeyCredentialParameters) str_alg 1%nat) with
    (f := Field str_alg [] false false false DwI64ToIana SwI64ToIana TAlg); try reflexivity.
  apply de_alg_unknown, H.
Qed.

(** the credentials the client emits satisfy the round-trip conditions *)
Lemma credentials_rt_ok : rt_ok r_CreatedPublicKeyCredential = true /\ rt_ok r_AuthenticatedPublicKeyCredential = true.
Proof. split; vm_compute; reflexivity. Qed.

Theorem created_credential_round_trip c :
  wt r_CreatedPublicKeyCredential c = true -> parse r_CreatedPublicKeyCredential (ser r_CreatedPublicKeyCredential c) = Some c.
Proof. apply emit_parse_round_trip, credentials_rt_ok. Qed.

Theorem authenticated_credential_round_trip c :
  wt r_AuthenticatedPublicKeyCredential c = true ->
  parse r_AuthenticatedPublicKeyCredential (ser r_AuthenticatedPublicKeyCredential c) = Some c.
Proof. apply emit_parse_round_trip, credentials_rt_ok. Qed.

(** no enumeration of the crate has a catch-all variant: a string that is no variant name and no alias is unknown *)
Lemma no_enum_catch_all : forallb (fun e => match e_other e with None => true | Some _ => false end) all_enums = true.
Proof. vm_compute. reflexivity. Qed.
