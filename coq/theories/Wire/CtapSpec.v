(** Member numbers of the CTAP2 messages, transcribed by hand from the FIDO Client to
    Authenticator Protocol specification (CTAP 2.1 PS 2021-06-15 with errata 2022-06-21,
    sections 6.1 authenticatorMakeCredential, 6.2 authenticatorGetAssertion, 6.4
    authenticatorGetInfo, 12.5 hmac-secret; members added by CTAP 2.2 are marked).

    Each table lists (member name, member number, required).  [*_FIELDS] maps the Rust field
    identifiers of passkey-types to the specification's member names (they differ where the
    crate kept the CTAP 2.0 names: pinAuth / pinProtocol).

    This file is a specification: nothing in it is derived from the Rust sources. *)
From Coq Require Import String List NArith Bool.
Import ListNotations.
Local Open Scope string_scope.
Local Open Scope N_scope.

Definition member := (string * N * bool)%type.     (* name, number, required *)

Definition MC_REQUEST_MEMBERS : list member :=
  [("clientDataHash", 0x01, true); ("rp", 0x02, true); ("user", 0x03, true);
   ("pubKeyCredParams", 0x04, true); ("excludeList", 0x05, false); ("extensions", 0x06, false);
   ("options", 0x07, false); ("pinUvAuthParam", 0x08, false); ("pinUvAuthProtocol", 0x09, false);
   ("enterpriseAttestation", 0x0A, false)].

Definition MC_RESPONSE_MEMBERS : list member :=
  [("fmt", 0x01, true); ("authData", 0x02, true); ("attStmt", 0x03, true); ("epAtt", 0x04, false);
   ("largeBlobKey", 0x05, false); ("unsignedExtensionOutputs", 0x06, false) (* 2.2 *)].

Definition GA_REQUEST_MEMBERS : list member :=
  [("rpId", 0x01, true); ("clientDataHash", 0x02, true); ("allowList", 0x03, false);
   ("extensions", 0x04, false); ("options", 0x05, false); ("pinUvAuthParam", 0x06, false);
   ("pinUvAuthProtocol", 0x07, false)].

Definition GA_RESPONSE_MEMBERS : list member :=
  [("credential", 0x01, false); ("authData", 0x02, true); ("signature", 0x03, true); ("user", 0x04, false);
   ("numberOfCredentials", 0x05, false); ("userSelected", 0x06, false); ("largeBlobKey", 0x07, false);
   ("unsignedExtensionOutputs", 0x08, false) (* 2.2 *)].

Definition GI_RESPONSE_MEMBERS : list member :=
  [("versions", 0x01, true); ("extensions", 0x02, false); ("aaguid", 0x03, true); ("options", 0x04, false);
   ("maxMsgSize", 0x05, false); ("pinUvAuthProtocols", 0x06, false); ("maxCredentialCountInList", 0x07, false);
   ("maxCredentialIdLength", 0x08, false); ("transports", 0x09, false); ("algorithms", 0x0A, false);
   ("maxSerializedLargeBlobArray", 0x0B, false); ("forcePINChange", 0x0C, false); ("minPINLength", 0x0D, false);
   ("firmwareVersion", 0x0E, false); ("maxCredBlobLength", 0x0F, false);
   ("maxRPIDsForSetMinPINLength", 0x10, false); ("preferredPlatformUvAttempts", 0x11, false);
   ("uvModality", 0x12, false); ("certifications", 0x13, false);
   ("remainingDiscoverableCredentials", 0x14, false); ("vendorPrototypeConfigCommands", 0x15, false)].

(** the hmac-secret extension input of authenticatorGetAssertion *)
Definition HMAC_INPUT_MEMBERS : list member :=
  [("keyAgreement", 0x01, true); ("saltEnc", 0x02, true); ("saltAuth", 0x03, true);
   ("pinUvAuthProtocol", 0x04, false)].

(** Rust field identifier -> member name *)
Definition MC_REQUEST_FIELDS : list (string * string) :=
  [("client_data_hash", "clientDataHash"); ("rp", "rp"); ("user", "user");
   ("pub_key_cred_params", "pubKeyCredParams"); ("exclude_list", "excludeList");
   ("extensions", "extensions"); ("options", "options"); ("pin_auth", "pinUvAuthParam");
   ("pin_protocol", "pinUvAuthProtocol")].

Definition MC_RESPONSE_FIELDS : list (string * string) :=
  [("fmt", "fmt"); ("auth_data", "authData"); ("att_stmt", "attStmt"); ("ep_att", "epAtt");
   ("large_blob_key", "largeBlobKey"); ("unsigned_extension_outputs", "unsignedExtensionOutputs")].

Definition GA_REQUEST_FIELDS : list (string * string) :=
  [("rp_id", "rpId"); ("client_data_hash", "clientDataHash"); ("allow_list", "allowList");
   ("extensions", "extensions"); ("options", "options"); ("pin_auth", "pinUvAuthParam");
   ("pin_protocol", "pinUvAuthProtocol")].

Definition GA_RESPONSE_FIELDS : list (string * string) :=
  [("credential", "credential"); ("auth_data", "authData"); ("signature", "signature"); ("user", "user");
   ("number_of_credentials", "numberOfCredentials"); ("user_selected", "userSelected");
   ("large_blob_key", "largeBlobKey"); ("unsigned_extension_outputs", "unsignedExtensionOutputs")].

Definition GI_RESPONSE_FIELDS : list (string * string) :=
  [("versions", "versions"); ("extensions", "extensions"); ("aaguid", "aaguid"); ("options", "options");
   ("max_msg_size", "maxMsgSize"); ("pin_protocols", "pinUvAuthProtocols"); ("transports", "transports")].

Definition HMAC_INPUT_FIELDS : list (string * string) :=
  [("key_agreement", "keyAgreement"); ("salt_enc", "saltEnc"); ("salt_auth", "saltAuth");
   ("pin_uv_auth_protocol", "pinUvAuthProtocol")].

(** message name (as in gen/CtapSchema.v's [ALL_MESSAGES]) -> its tables *)
Definition SPEC : list (string * (list member * list (string * string))) :=
  [("MC_REQUEST", (MC_REQUEST_MEMBERS, MC_REQUEST_FIELDS));
   ("MC_RESPONSE", (MC_RESPONSE_MEMBERS, MC_RESPONSE_FIELDS));
   ("GA_REQUEST", (GA_REQUEST_MEMBERS, GA_REQUEST_FIELDS));
   ("GA_RESPONSE", (GA_RESPONSE_MEMBERS, GA_RESPONSE_FIELDS));
   ("GI_RESPONSE", (GI_RESPONSE_MEMBERS, GI_RESPONSE_FIELDS));
   ("HMAC_INPUT", (HMAC_INPUT_MEMBERS, HMAC_INPUT_FIELDS))].

Fixpoint assoc {B} (k : string) (l : list (string * B)) : option B :=
  match l with
  | [] => None
  | (a, b) :: r => if String.eqb a k then Some b else assoc k r
  end.

Fixpoint member_named (n : string) (l : list member) : option (N * bool) :=
  match l with
  | [] => None
  | (a, num, req) :: r => if String.eqb a n then Some (num, req) else member_named n r
  end.

(** number and requiredness the specification gives to the member a Rust field stands for *)
Definition spec_of_field (msg field : string) : option (N * bool) :=
  match assoc msg SPEC with
  | Some (members, fields) =>
      match assoc field fields with
      | Some name => member_named name members
      | None => None
      end
  | None => None
  end.

(** defaults of the [options] member of both requests (6.1, 6.2: "up" default true, "rk" and
    "uv" default false) as (option key, default) *)
Definition OPTION_DEFAULTS : list (string * bool) := [("rk", false); ("up", true); ("uv", false)].

(** status: CTAP2_ERR_NO_CREDENTIALS *)
Definition CTAP2_ERR_NO_CREDENTIALS : N := 0x2E.
