(** C15 - cost-instrumented models of the repo-owned decoding logic that no other module models.
    Definitions only; the proofs are in RobustFacts.v, the case types for the differential run in
    RobustCheck.v.

      (a) the [Bytes] visitor                         passkey-types/src/utils/bytes.rs
      (b) [ignore_unknown_opt_vec] / [PossiblyUnknown] passkey-types/src/utils/serde.rs
      (c) [public_key_der_from_cose_key]               passkey-authenticator/src/lib.rs
      (d) [valid_fingerprint]                          passkey-client/src/android.rs
      (e) [Bytes::try_from(&str)]                      passkey-types/src/utils/{bytes,encoding}.rs

    Every model returns an outcome and a cost.  Outcome: [Done v] (Ok), [Fail e] (Err), [Crash] (a Rust
    panic).  Every Rust operation of the modelled source that can panic on an input-dependent path is
    an explicit [Crash]; there is exactly one such operation in these five pieces of code
    ([GenericArray::from_slice] in (c)).  (a), (b), (d), (e) contain no index, slice, unwrap or
    arithmetic on input-dependent values: for them "never panics" holds by transcription and the
    content of the theorems is the cost.  ([encoding.rs] unwraps two constants - the padding character
    and the encoding built from the constant BASE64URL specification - on every call, independently of
    the input; the differential run executes that path on every case.)

    Cost: [steps] counts loop iterations of the repo's own loops (calls of [SeqAccess::next_element],
    separator/element rounds of the fingerprint parser, parameters of the COSE key, characters handed
    to the base64 decoder); [allocs] lists the heap allocation requests whose size depends on the input,
    in elements of the vector concerned (bytes for [Vec<u8>]).

    What is NOT modelled here (third party; only the contract the repo relies on is used):
    how ciborium / serde_json produce the elements of a sequence.  A sequence is abstracted as
    [seq_src]: the size hint (the DECLARED length, attacker controlled), the elements the remaining
    input ACTUALLY holds, and whether a terminator follows.  For CBOR the abstraction is instantiated
    from the byte string with the generic decoder of Lib/Cbor.v ([cbor_seq_of]); the contract used is
    [CborFacts.decode_bounds]: every decoded element consumes at least one byte and is no larger than
    what it consumed, nesting <= fuel. *)
From PK Require Export Lib.Bytes Lib.Cbor Lib.Base64.
From Coq Require Import ZArith.
Open Scope N_scope.

(** * Outcomes and costs *)
Inductive result (E A : Type) : Type :=
| Done (a : A)
| Fail (e : E)
| Crash.
Arguments Done {E A} a.
Arguments Fail {E A} e.
Arguments Crash {E A}.

Record cost := Cost { steps : nat; allocs : list N }.

Definition max_alloc (c : cost) : N := fold_right N.max 0 (allocs c).

(** * [Vec<T>]: [with_capacity(cap0)] followed by [n] calls of [push]
    ([RawVec::grow_amortized]: new capacity = max(2 * cap, len + 1, MIN_NON_ZERO_CAP) where
    MIN_NON_ZERO_CAP is 8 for one-byte elements, 4 up to 1024 bytes, 1 above; a zero capacity does not
    allocate).  The list is the sequence of allocator requests, in elements. *)
Fixpoint vec_pushes (minc cap len : N) (n : nat) : list N :=
  match n with
  | O => []
  | S k =>
      if len <? cap then vec_pushes minc cap (len + 1) k
      else
        let cap' := N.max minc (N.max (2 * cap) (len + 1)) in
        cap' :: vec_pushes minc cap' (len + 1) k
  end.

Definition vec_allocs (minc cap0 : N) (n : nat) : list N :=
  (if cap0 =? 0 then [] else [cap0]) ++ vec_pushes minc cap0 0 n.

(** * Sequences as a visitor sees them *)
Inductive elem (A : Type) : Type :=
| EOk (a : A)        (* the next element deserialises to [a] *)
| EBad.              (* an element is there but deserialising it is an error *)
Arguments EOk {A} a.
Arguments EBad {A}.

Record seq_src (A : Type) := Src {
  hint : option N;          (* [SeqAccess::size_hint]: [Some n] = the declared length of a definite-length
                               CBOR array; [None] = indefinite-length array, JSON array *)
  avail : list (elem A);    (* the elements the remaining input really holds, in order *)
  closed : bool             (* [hint = None] only: a terminator (CBOR break, JSON ']') follows the last
                               available element; [false]: the input ends or is malformed there *) }.
Arguments Src {A} hint avail closed.
Arguments hint {A} s.
Arguments avail {A} s.
Arguments closed {A} s.

(** The loop [while let Some(x) = seq.next_element()? { .. }] over such a sequence
    (ciborium's [Access::next_element_seed]: remaining = Some 0 => None; Some n => n - 1, element;
    None => break => None, otherwise element.  serde_json: ']' => None, otherwise element).
    Returns the elements obtained before the loop ended, whether it ended with [Ok(None)] ([true]) or
    with an error ([false]), and the number of [next_element] calls. *)
Fixpoint drive {A} (remaining : option N) (cl : bool) (l : list (elem A)) : list A * bool * nat :=
  match remaining with
  | Some n =>
      if n =? 0 then ([], true, 1%nat)
      else
        match l with
        | [] => ([], false, 1%nat)                 (* declared elements are missing: end of input is an ERROR *)
        | EBad :: _ => ([], false, 1%nat)
        | EOk a :: r =>
            let '(xs, ok, c) := drive (Some (n - 1)) cl r in (a :: xs, ok, S c)
        end
  | None =>
      match l with
      | [] => ([], cl, 1%nat)
      | EBad :: _ => ([], false, 1%nat)
      | EOk a :: r =>
          let '(xs, ok, c) := drive None cl r in (a :: xs, ok, S c)
      end
  end.

(** * (a) bytes.rs: [Base64Visitor::visit_seq]
      let mut buf = Vec::with_capacity(seq.size_hint().unwrap_or_default().min(4096));
      while let Some(byte) = seq.next_element()? { buf.push(byte); }
      Ok(Bytes(buf)) *)
Definition BYTES_PREALLOC_CAP : N := 4096.

Definition hint_or_default (h : option N) : N := match h with Some n => n | None => 0 end.

Definition bytes_visit_seq (s : seq_src N) : result unit bytes * cost :=
  let '(xs, ok, calls) := drive (hint s) (closed s) (avail s) in
  let cap0 := N.min (hint_or_default (hint s)) BYTES_PREALLOC_CAP in
  (if ok then Done xs else Fail tt, Cost calls (vec_allocs 8 cap0 (length xs))).

(** * (b) serde.rs: [ignore_unknown_opt_vec] with [PossiblyUnknown]
      let mut array = Vec::with_capacity(seq.size_hint().unwrap_or_default().min(1024));
      while let Some(elem) = seq.next_element::<PossiblyUnknown<T>>()? {
          if let PossiblyUnknown::Some(elem) = elem { array.push(elem) }
      }
      Ok(Some(array))
    [PossiblyUnknown::deserialize] first consumes the element as a generic [ciborium::Value]
    (an error of that step - malformed element, END OF INPUT - is an error of the list), then tries
    [value.deserialized::<T>()]: [known v = Some t] or the element is dropped.  So an element of the
    source is [EOk v] (a well-formed generic value) or [EBad]; [minc] is Vec's minimal non-zero
    capacity for [T] (8 for the one-byte [AuthenticatorTransport]). *)
Definition UNKNOWN_PREALLOC_CAP : N := 1024.

Fixpoint filter_map {A B} (f : A -> option B) (l : list A) : list B :=
  match l with
  | [] => []
  | x :: r => match f x with Some y => y :: filter_map f r | None => filter_map f r end
  end.

Definition ignore_unknown_visit_seq {V T} (known : V -> option T) (minc : N) (s : seq_src V)
  : result unit (option (list T)) * cost :=
  let '(vs, ok, calls) := drive (hint s) (closed s) (avail s) in
  let kept := filter_map known vs in
  let cap0 := N.min (hint_or_default (hint s)) UNKNOWN_PREALLOC_CAP in
  (if ok then Done (Some kept) else Fail tt, Cost calls (vec_allocs minc cap0 (length kept))).

(** The code before the fix of F7 (kept for the refutation example in RobustFacts.v only): every
    element error, including end of input, became "unknown", so a definite-length sequence was
    iterated once per DECLARED element, and the declared length was pre-allocated. *)
Fixpoint drive_eof_as_unknown {A} (fuel : nat) (remaining : N) (l : list (elem A)) : list A * nat :=
  match fuel with
  | O => ([], O)
  | S k =>
      if remaining =? 0 then ([], 1%nat)
      else
        match l with
        | EOk a :: r => let '(xs, c) := drive_eof_as_unknown k (remaining - 1) r in (a :: xs, S c)
        | _ :: r => let '(xs, c) := drive_eof_as_unknown k (remaining - 1) r in (xs, S c)
        | [] => let '(xs, c) := drive_eof_as_unknown k (remaining - 1) [] in (xs, S c)
        end
  end.

(** * (e) bytes.rs / encoding.rs: [Bytes::try_from(&str)]
      encoding::try_from_base64url(value).or_else(|| encoding::try_from_base64(value))
    each attempt: [trim_end_matches('=')], then data-encoding's [decode]: [decode_len] (an error for a
    length of 1 mod 4, before any allocation), [vec![0u8; 6 * n / 8]], the decoding pass.
    The value is [Lib.Base64.bytes_try_from_str]. *)
Definition b64_attempt_allocs (s : bytes) : list N :=
  let n := N.of_nat (length (strip_pad s)) in
  if n mod 4 =? 1 then [] else if 3 * n / 4 =? 0 then [] else [3 * n / 4].

Definition bytes_try_from_str_cost (s : bytes) : result unit bytes * cost :=
  let one := b64_attempt_allocs s in
  match try_from_base64url s with
  | Some b => (Done b, Cost (2 * length s) one)
  | None =>
      (match try_from_base64 s with Some b => Done b | None => Fail tt end,
       Cost (4 * length s) (one ++ one))
  end.

(** * (a) continued: [impl Deserialize for Bytes] reading CBOR, [deserializer.deserialize_any(Base64Visitor)]
    ciborium dispatches on the head: byte string => [visit_bytes] ([v.to_vec()]); text =>
    [visit_str] (base64); array => [visit_seq]; anything else is an invalid type. *)

(** skip tags other than the two bignum tags, as ciborium's typed integer reader does *)
Fixpoint skip_plain_tags (fuel : nat) (b : bytes) : bytes :=
  match fuel with
  | O => b
  | S k =>
      match head_decode b with
      | Some (6, _, ArgN t, r) => if (t =? 2) || (t =? 3) then b else skip_plain_tags k r
      | _ => b
      end
  end.

(** the next element read as [u8]: value and rest *)
Definition u8_element (fuel : nat) (b : bytes) : option (elem N * bytes) :=
  match cbor_decode fuel (skip_plain_tags (length b) b) with
  | Some (CInt z, r) => if ((0 <=? z) && (z <? 256))%Z then Some (EOk (Z.to_N z), r) else Some (EBad, r)
  | Some (_, r) => Some (EBad, r)
  | None => None
  end.

(** the next element read as a generic value *)
Definition value_element (fuel : nat) (b : bytes) : option (elem cbor * bytes) :=
  match cbor_decode fuel b with
  | Some (v, r) => Some (EOk v, r)
  | None => None
  end.

(** The elements a CBOR input really holds behind an array head: decode element after element while the
    declared count (if any) is not exhausted, no break byte is seen (indefinite length) and the input
    decodes.  [n] bounds the number of elements (every element consumes a byte: [length b] suffices).
    Returns the elements and, for the indefinite case, whether a break byte ended them. *)
Fixpoint cbor_elems {A} (next : bytes -> option (elem A * bytes)) (n : nat) (remaining : option N) (b : bytes)
  : list (elem A) * bool :=
  match n with
  | O => ([], false)
  | S k =>
      let go (rem' : option N) :=
        match next b with
        | Some (EOk a, r) => let '(l, c) := cbor_elems next k rem' r in (EOk a :: l, c)
        | Some (EBad, _) => ([EBad], false)
        | None => ([], false)
        end in
      match remaining with
      | Some m => if m =? 0 then ([], true) else go (Some (m - 1))
      | None => match b with
                | 255 :: _ => ([], true)
                | _ => go None
                end
      end
  end.

Definition cbor_seq_of {A} (next : bytes -> option (elem A * bytes)) (arg : harg) (rest : bytes) : seq_src A :=
  let h := match arg with ArgN n => Some n | ArgIndef => None end in
  let '(l, c) := cbor_elems next (S (length rest)) h rest in
  Src h l c.

(** [ciborium::de::from_reader::<Bytes>(b)]; [fuel] is the recursion budget left for the elements *)
Definition bytes_deserialize_cbor (fuel : nat) (b : bytes) : result unit bytes * cost :=
  match head_decode b with
  | Some (2, _, _, _) =>
      match cbor_decode (S fuel) b with
      | Some (CBytes s, _) => (Done s, Cost 1 (if (length s =? 0)%nat then [] else [N.of_nat (length s)]))
      | _ => (Fail tt, Cost 1 [])
      end
  | Some (3, _, _, _) =>
      match cbor_decode (S fuel) b with
      | Some (CText s, _) => bytes_try_from_str_cost s
      | _ => (Fail tt, Cost 1 [])
      end
  | Some (4, _, arg, rest) => bytes_visit_seq (cbor_seq_of (u8_element fuel) arg rest)
  | _ => (Fail tt, Cost 1 [])
  end.

(** * (b) continued: a transports list read from CBOR
    [de.deserialize_seq(IgnoreUnknown)]: ciborium skips any tags, an array head starts the visitor; a byte
    string is offered as a sequence of its bytes (none of which is a transport); anything else is an
    invalid type. *)
Fixpoint skip_all_tags (fuel : nat) (b : bytes) : bytes :=
  match fuel with
  | O => b
  | S k =>
      match head_decode b with
      | Some (6, _, ArgN _, r) => skip_all_tags k r
      | _ => b
      end
  end.

(** "usb" "nfc" "ble" "hybrid" "cable" (alias) "internal": the variant index of [AuthenticatorTransport] *)
Definition transport_of_name (s : bytes) : option N :=
  if beq s [117; 115; 98] then Some 0
  else if beq s [110; 102; 99] then Some 1
  else if beq s [98; 108; 101] then Some 2
  else if beq s [104; 121; 98; 114; 105; 100] then Some 3
  else if beq s [99; 97; 98; 108; 101] then Some 3
  else if beq s [105; 110; 116; 101; 114; 110; 97; 108] then Some 4
  else None.

(** [value.deserialized::<AuthenticatorTransport>()] on the shapes the generators produce: text, possibly
    tagged (ciborium's value deserialiser looks through tags).  A one-entry map naming a variant is also
    accepted by serde's enum protocol; such elements are outside the generated inputs. *)
Fixpoint transport_known (v : cbor) : option N :=
  match v with
  | CTag _ x => transport_known x
  | CText s => transport_of_name s
  | _ => None
  end.

Definition transports_deserialize_cbor (fuel : nat) (b : bytes) : result unit (option (list N)) * cost :=
  let b' := skip_all_tags (length b) b in
  match head_decode b' with
  | Some (4, _, arg, rest) =>
      ignore_unknown_visit_seq transport_known 8 (cbor_seq_of (value_element fuel) arg rest)
  | Some (2, _, _, _) =>
      match cbor_decode (S fuel) b' with
      | Some (CBytes s, _) => (Done (Some []), Cost (S (length s)) [])
      | _ => (Fail tt, Cost 1 [])
      end
  | _ => (Fail tt, Cost 1 [])
  end.

(** * (c) passkey-authenticator/src/lib.rs: [public_key_der_from_cose_key]
    The key as the function sees it: [kty], [alg], and the parameter list where a value is [Some b]
    when [Value::as_bytes] is [Some b]. *)
Inductive cose_label := LInt (z : Z) | LText (s : bytes).
Inductive reg_label := Assigned (z : Z) | PrivateUse (z : Z) | TextLabel (s : bytes).
Record cose_key := CoseKey {
  ck_kty : reg_label;
  ck_alg : option reg_label;
  ck_params : list (cose_label * option bytes) }.

Inductive ctap2_error := UnsupportedAlgorithm | InvalidCredential | InvalidCbor | CborUnexpectedType.

(** [GenericArray::<u8, N>::from_slice]: asserts the length; [None] is that panic *)
Definition generic_array_from_slice (n : nat) (s : bytes) : option bytes :=
  if (length s =? n)%nat then Some s else None.

(** [iana::Ec2KeyParameter::from_i64]: Crv -1, X -2, Y -3, D -4 *)
Definition ec2_param_known (i : Z) : bool := ((-4 <=? i) && (i <=? -1))%Z.

(** the [for (key, value) in &key.params] loop; [x.replace(v)]: the last byte-string value wins *)
Fixpoint scan_params (ps : list (cose_label * option bytes)) (x y : option bytes)
  : result ctap2_error (option bytes * option bytes) :=
  match ps with
  | [] => Done (x, y)
  | (LText _, _) :: r => scan_params r x y
  | (LInt i, v) :: r =>
      if negb (ec2_param_known i) then Fail InvalidCbor
      else if (i =? -2)%Z then scan_params r (match v with Some b => Some b | None => x end) y
      else if (i =? -3)%Z then scan_params r x (match v with Some b => Some b | None => y end)
      else scan_params r x y
  end.

(** P-256 (FIPS 186-4 D.1.2.3): [PublicKey::from_encoded_point] accepts the uncompressed point exactly
    when both coordinates are field elements and satisfy y^2 = x^3 - 3x + b *)
Definition P256_P : Z := 0xffffffff00000001000000000000000000000000ffffffffffffffffffffffff.
Definition P256_B : Z := 0x5ac635d8aa3a93e7b3ebbd55769886bc651d06b0cc53b0f63bce3c3e27d2604b.
Definition be_Z (s : bytes) : Z := fold_left (fun acc b => (acc * 256 + Z.of_N b)%Z) s 0%Z.
Definition p256_point_ok (x y : bytes) : bool :=
  let X := be_Z x in let Y := be_Z y in
  ((X <? P256_P) && (Y <? P256_P) &&
   ((Y * Y - (X * X * X - 3 * X + P256_B)) mod P256_P =? 0))%Z.

(** SubjectPublicKeyInfo of an uncompressed P-256 point (RFC 5480): fixed 27-byte header, x, y *)
Definition SPKI_P256_HEADER : bytes :=
  [48; 89; 48; 19; 6; 7; 42; 134; 72; 206; 61; 2; 1; 6; 8; 42; 134; 72; 206; 61; 3; 1; 7; 3; 66; 0; 4].

Definition public_key_der_from_cose_key (k : cose_key) : result ctap2_error bytes * cost :=
  let c := Cost (S (length (ck_params k))) [91] in
  match ck_alg k with
  | Some (Assigned (-7)%Z) =>
      match ck_kty k with
      | Assigned 2%Z =>
          match scan_params (ck_params k) None None with
          | Fail e => (Fail e, c)
          | Crash => (Crash, c)
          | Done (Some x, Some y) =>
              if negb ((length x =? 32)%nat && (length y =? 32)%nat) then (Fail InvalidCredential, c)
              else
                match generic_array_from_slice 32 x, generic_array_from_slice 32 y with
                | Some gx, Some gy =>
                    if p256_point_ok gx gy then (Done (SPKI_P256_HEADER ++ gx ++ gy), c)
                    else (Fail InvalidCredential, c)
                | _, _ => (Crash, c)
                end
          | Done _ => (Fail CborUnexpectedType, c)
          end
      | _ => (Fail InvalidCredential, c)
      end
  | _ => (Fail UnsupportedAlgorithm, c)
  end.

(** the code before the fix of F10 (for the refutation example only): no length check *)
Definition public_key_der_from_cose_key_unguarded (k : cose_key) : result ctap2_error bytes :=
  match ck_alg k, ck_kty k with
  | Some (Assigned (-7)%Z), Assigned 2%Z =>
      match scan_params (ck_params k) None None with
      | Fail e => Fail e
      | Crash => Crash
      | Done (Some x, Some y) =>
          match generic_array_from_slice 32 x, generic_array_from_slice 32 y with
          | Some gx, Some gy =>
              if p256_point_ok gx gy then Done (SPKI_P256_HEADER ++ gx ++ gy) else Fail InvalidCredential
          | _, _ => Crash
          end
      | Done _ => Fail CborUnexpectedType
      end
  | Some (Assigned (-7)%Z), _ => Fail InvalidCredential
  | _, _ => Fail UnsupportedAlgorithm
  end.

(** * (d) passkey-client/src/android.rs: [valid_fingerprint]
      separated_list1(tag(":"), map_res(take_while_m_n(2, 2, upper-case hex digit), from_str_radix 16))
      then  (left.is_empty() && parsed.len() == 32).then_some(parsed).ok_or(InvalidLength)
    nom's [separated_list1]: first element or error; then rounds of separator + element, stopping
    (successfully, BEFORE the separator) at the first round that does not parse. *)
Inductive fingerprint_error := ParseFailed | InvalidLength.

Definition upper_hex (c : N) : bool := ((48 <=? c) && (c <=? 57)) || ((65 <=? c) && (c <=? 70)).
Definition hex_digit_val (c : N) : N := if c <=? 57 then c - 48 else c - 55.
Definition hex_pair_val (a b : N) : N := hex_digit_val a * 16 + hex_digit_val b.

(** the rounds after the first element: parsed bytes, unparsed rest, number of rounds attempted *)
Fixpoint fingerprint_rounds (s : bytes) : list N * bytes * nat :=
  match s with
  | c :: a :: b :: r =>
      if (c =? 58) && upper_hex a && upper_hex b then
        let '(l, rest, n) := fingerprint_rounds r in (hex_pair_val a b :: l, rest, S n)
      else ([], s, 1%nat)
  | _ => ([], s, 1%nat)
  end.

Definition parse_fingerprint (s : bytes) : option (list N * bytes * nat) :=
  match s with
  | a :: b :: r =>
      if upper_hex a && upper_hex b then
        let '(l, rest, n) := fingerprint_rounds r in Some (hex_pair_val a b :: l, rest, S n)
      else None
  | _ => None
  end.

Definition valid_fingerprint (s : bytes) : result fingerprint_error bytes * cost :=
  match parse_fingerprint s with
  | None => (Fail ParseFailed, Cost 1 [])
  | Some (parsed, rest, n) =>
      (match rest with
       | [] => if (length parsed =? 32)%nat then Done parsed else Fail InvalidLength
       | _ => Fail InvalidLength
       end,
       Cost n (vec_allocs 8 0 (length parsed)))
  end.
