(** Theorems about the cost-instrumented decoder models of Wire/Robust.v (C15): for ALL inputs, no
    [Crash], a linear bound on the number of loop iterations and on every allocation request, with
    explicit constants.  The only facts about third-party code used are the contracts of the generic
    CBOR layer proved in Lib/CborFacts.v ([decode_bounds]: a decoded item consumed at least one byte and
    is no larger than what it consumed; [head_decode_spec]). *)
From PK Require Import Lib.Bytes Lib.Cbor Lib.CborFacts Lib.Base64 Lib.Base64Facts Wire.Robust.
From Coq Require Import ZArith ZifyBool ZifyNat ZifyN Lia.
Ltac Zify.zify_post_hook ::= Z.div_mod_to_equations.
Open Scope N_scope.

(** * Vec growth *)
Lemma vec_pushes_bound minc : forall n cap len,
  Forall (fun a => a <= N.max minc (2 * (len + N.of_nat n))) (vec_pushes minc cap len n).
Proof.
  induction n as [|k IH]; intros cap len; cbn [vec_pushes]; [constructor|].
  destruct (N.ltb_spec len cap) as [Hlt|Hge].
  - eapply Forall_impl; [|apply IH]. cbv beta. intros a Ha. lia.
  - constructor; [lia|]. eapply Forall_impl; [|apply IH]. cbv beta. intros a Ha. lia.
Qed.

Lemma vec_pushes_0 minc cap len : vec_pushes minc cap len 0 = [].
Proof. reflexivity. Qed.

Lemma vec_allocs_bound minc cap0 n :
  Forall (fun a => a <= N.max cap0 (N.max minc (2 * N.of_nat n))) (vec_allocs minc cap0 n).
Proof.
  unfold vec_allocs. apply Forall_app. split.
  - destruct (cap0 =? 0); constructor; [lia|constructor].
  - eapply Forall_impl; [|apply vec_pushes_bound]. cbv beta. intros a Ha. lia.
Qed.

Lemma max_alloc_le (c : cost) (B : N) : Forall (fun a => a <= B) (allocs c) -> max_alloc c <= B.
Proof.
  unfold max_alloc. induction 1 as [|a l Ha _ IH]; cbn [fold_right]; lia.
Qed.

(** * The visitor loop *)
Lemma drive_spec {A} : forall (l : list (elem A)) rem cl xs ok c,
  drive rem cl l = (xs, ok, c) ->
  c = S (length xs) /\ (length xs <= length l)%nat.
Proof.
  induction l as [|e r IH]; intros rem cl xs ok c H.
  - destruct rem as [n|]; cbn [drive] in H.
    + destruct (n =? 0); injection H as <- <- <-; cbn [length]; lia.
    + injection H as <- <- <-; cbn [length]; lia.
  - destruct rem as [n|]; cbn [drive] in H.
    + destruct (n =? 0); [injection H as <- <- <-; cbn [length]; lia|].
      destruct e as [a|]; [|injection H as <- <- <-; cbn [length]; lia].
      destruct (drive (Some (n - 1)) cl r) as [[xs' ok'] c'] eqn:E.
      injection H as <- <- <-. apply IH in E. cbn [length]. lia.
    + destruct e as [a|]; [|injection H as <- <- <-; cbn [length]; lia].
      destruct (drive None cl r) as [[xs' ok'] c'] eqn:E.
      injection H as <- <- <-. apply IH in E. cbn [length]. lia.
Qed.

(** end of input before the declared count is reached is an error, never "finished" *)
Lemma drive_truncated {A} : forall (l : list (elem A)) n cl xs ok c,
  drive (Some n) cl l = (xs, ok, c) -> N.of_nat (length l) < n -> ok = false.
Proof.
  induction l as [|e r IH]; intros n cl xs ok c H Hn; cbn [drive] in H.
  - destruct (N.eqb_spec n 0) as [->|_]; [cbn [length] in Hn; lia|]. injection H as <- <- <-. reflexivity.
  - destruct (N.eqb_spec n 0) as [->|Hn0]; [lia|].
    destruct e as [a|]; [|injection H as <- <- <-; reflexivity].
    destruct (drive (Some (n - 1)) cl r) as [[xs' ok'] c'] eqn:E.
    injection H as <- <- <-. eapply IH; [exact E|]. cbn [length] in Hn. lia.
Qed.

(** * (a) the [Bytes] sequence visitor *)
Theorem bytes_visit_seq_cost (s : seq_src N) :
  fst (bytes_visit_seq s) <> Crash /\
  (steps (snd (bytes_visit_seq s)) <= length (avail s) + 1)%nat /\
  Forall (fun a => a <= N.max 4096 (2 * N.of_nat (length (avail s)))) (allocs (snd (bytes_visit_seq s))).
Proof.
  unfold bytes_visit_seq.
  destruct (drive (hint s) (closed s) (avail s)) as [[xs ok] c] eqn:E.
  apply drive_spec in E as [-> Hlen]. cbn [fst snd steps allocs].
  split; [destruct ok; discriminate|]. split; [lia|].
  eapply Forall_impl; [|apply vec_allocs_bound]. cbv beta. intros a Ha.
  unfold BYTES_PREALLOC_CAP in Ha. lia.
Qed.

Corollary bytes_visit_seq_max_alloc (s : seq_src N) :
  max_alloc (snd (bytes_visit_seq s)) <= 2 * N.of_nat (length (avail s)) + 4096.
Proof.
  apply max_alloc_le. eapply Forall_impl; [|apply (bytes_visit_seq_cost s)]. cbv beta. intros a Ha. lia.
Qed.

Theorem bytes_visit_seq_truncated (s : seq_src N) n :
  hint s = Some n -> N.of_nat (length (avail s)) < n -> fst (bytes_visit_seq s) = Fail tt.
Proof.
  intros Hh Hn. unfold bytes_visit_seq. rewrite Hh.
  destruct (drive (Some n) (closed s) (avail s)) as [[xs ok] c] eqn:E.
  apply drive_truncated in E; [|exact Hn]. subst ok. reflexivity.
Qed.

(** * (b) [ignore_unknown_opt_vec] *)
Lemma filter_map_length {A B} (f : A -> option B) l : (length (filter_map f l) <= length l)%nat.
Proof. induction l as [|x r IH]; cbn [filter_map length]; [lia|]. destruct (f x); cbn [length]; lia. Qed.

Theorem ignore_unknown_cost {V T} (known : V -> option T) minc (s : seq_src V) :
  fst (ignore_unknown_visit_seq known minc s) <> Crash /\
  (steps (snd (ignore_unknown_visit_seq known minc s)) <= length (avail s) + 1)%nat /\
  Forall (fun a => a <= N.max 1024 (N.max minc (2 * N.of_nat (length (avail s)))))
         (allocs (snd (ignore_unknown_visit_seq known minc s))).
Proof.
  unfold ignore_unknown_visit_seq.
  destruct (drive (hint s) (closed s) (avail s)) as [[xs ok] c] eqn:E.
  apply drive_spec in E as [-> Hlen]. cbn [fst snd steps allocs].
  split; [destruct ok; discriminate|]. split; [lia|].
  pose proof (filter_map_length known xs) as Hk.
  eapply Forall_impl; [|apply vec_allocs_bound]. cbv beta. intros a Ha.
  unfold UNKNOWN_PREALLOC_CAP in Ha. lia.
Qed.

(** the F7 statement: fewer elements available than declared => error (not a list of "unknown"s),
    after at most [available + 1] iterations, however large the declared length *)
Theorem ignore_unknown_truncated {V T} (known : V -> option T) minc (s : seq_src V) n :
  hint s = Some n -> N.of_nat (length (avail s)) < n ->
  fst (ignore_unknown_visit_seq known minc s) = Fail tt.
Proof.
  intros Hh Hn. unfold ignore_unknown_visit_seq. rewrite Hh.
  destruct (drive (Some n) (closed s) (avail s)) as [[xs ok] c] eqn:E.
  apply drive_truncated in E; [|exact Hn]. subst ok. reflexivity.
Qed.

(** what the theorem excludes: the loop of the code before the fix ran once per DECLARED element *)
Lemma drive_eof_as_unknown_empty {A} : forall fuel n,
  (N.to_nat n < fuel)%nat -> @drive_eof_as_unknown A fuel n [] = ([], S (N.to_nat n)).
Proof.
  induction fuel as [|k IH]; intros n Hn; [lia|]. cbn [drive_eof_as_unknown].
  destruct (N.eqb_spec n 0) as [->|Hn0]; [reflexivity|].
  rewrite IH by lia. f_equal. lia.
Qed.

Example eof_as_unknown_refuted :
  snd (@drive_eof_as_unknown N 3000 2000 []) = 2001%nat.
Proof. rewrite drive_eof_as_unknown_empty by (vm_compute; lia). reflexivity. Qed.

(** * Sequences taken from CBOR bytes *)
Section Elems.
  Context {A : Type} (next : bytes -> option (elem A * bytes)).
  Hypothesis next_progress : forall b e r, next b = Some (e, r) -> (length r < length b)%nat.

  Lemma cbor_elems_length : forall n rem b l c,
    cbor_elems next n rem b = (l, c) -> (length l <= length b)%nat.
  Proof.
    induction n as [|k IH]; intros rem b l c H; cbn [cbor_elems] in H.
    - injection H as <- <-. cbn [length]. lia.
    - assert (Hgo : forall rem',
                match next b with
                | Some (EOk a, r) => let '(l0, c0) := cbor_elems next k rem' r in (EOk a :: l0, c0)
                | Some (EBad, _) => ([EBad], false)
                | None => ([], false)
                end = (l, c) -> (length l <= length b)%nat).
      { intros rem' Hg. destruct (next b) as [[[a|] r]|] eqn:En.
        - destruct (cbor_elems next k rem' r) as [l0 c0] eqn:E0. injection Hg as <- <-.
          apply IH in E0. apply next_progress in En. cbn [length]. lia.
        - injection Hg as <- <-. apply next_progress in En. cbn [length]. lia.
        - injection Hg as <- <-. cbn [length]. lia. }
      destruct rem as [m|].
      + destruct (m =? 0); [injection H as <- <-; cbn [length]; lia|]. eapply Hgo; exact H.
      + destruct b as [|x b']; [eapply Hgo; exact H|].
        destruct (N.eqb_spec x 255) as [->|Hx].
        * injection H as <- <-. cbn [length]. lia.
        * eapply Hgo.
          (* the match on the literal 255 falls through to [go None] *)
          revert H. destruct x as [|p]; [exact (fun h => h)|].
          do 8 (destruct p as [p|p|]; try exact (fun h => h)); congruence.
    Qed.

  Lemma cbor_seq_of_avail arg rest : (length (avail (cbor_seq_of next arg rest)) <= length rest)%nat.
  Proof.
    unfold cbor_seq_of.
    destruct (cbor_elems next (S (length rest)) _ rest) as [l c] eqn:E.
    cbn [avail]. eapply cbor_elems_length; exact E.
  Qed.

  Lemma cbor_seq_of_hint arg rest :
    hint (cbor_seq_of next arg rest) = match arg with ArgN n => Some n | ArgIndef => None end.
  Proof.
    unfold cbor_seq_of. destruct (cbor_elems next (S (length rest)) _ rest) as [l c]. reflexivity.
  Qed.
End Elems.

Lemma head_decode_length b mt ai arg r : head_decode b = Some (mt, ai, arg, r) -> (length r < length b)%nat.
Proof. intros H. apply head_decode_spec in H as (_ & _ & Hc). apply consumes_length in Hc. exact Hc. Qed.

Lemma skip_plain_tags_length : forall fuel b, (length (skip_plain_tags fuel b) <= length b)%nat.
Proof.
  induction fuel as [|k IH]; intros b; cbn [skip_plain_tags]; [lia|].
  destruct (head_decode b) as [[[[mt ai] arg] r]|] eqn:Eh; [|lia].
  apply head_decode_length in Eh.
  destruct mt as [|p]; [lia|].
  do 3 (destruct p as [p|p|]; try lia).
  destruct arg as [t|]; [|lia]. destruct ((t =? 2) || (t =? 3)); [lia|]. specialize (IH r). lia.
Qed.

Lemma skip_all_tags_length : forall fuel b, (length (skip_all_tags fuel b) <= length b)%nat.
Proof.
  induction fuel as [|k IH]; intros b; cbn [skip_all_tags]; [lia|].
  destruct (head_decode b) as [[[[mt ai] arg] r]|] eqn:Eh; [|lia].
  apply head_decode_length in Eh.
  destruct mt as [|p]; [lia|].
  do 3 (destruct p as [p|p|]; try lia).
  destruct arg as [t|]; [|lia]. specialize (IH r). lia.
Qed.

Lemma decode_shorter fuel b v r : cbor_decode fuel b = Some (v, r) -> (length r < length b)%nat.
Proof.
  intros H. apply decode_bounds in H as [_ Hs]. assert (1 <= size v)%nat by (destruct v; cbn [size]; lia). lia.
Qed.

Lemma u8_element_progress fuel b e r : u8_element fuel b = Some (e, r) -> (length r < length b)%nat.
Proof.
  unfold u8_element. pose proof (skip_plain_tags_length (length b) b) as Hs.
  destruct (cbor_decode fuel (skip_plain_tags (length b) b)) as [[v r0]|] eqn:Ed; [|discriminate].
  apply decode_shorter in Ed. intros H.
  assert (r = r0) as ->.
  { destruct v; try (injection H as _ <-; reflexivity).
    destruct ((0 <=? z)%Z && (z <? 256)%Z); injection H as _ <-; reflexivity. }
  lia.
Qed.

Lemma value_element_progress fuel b e r : value_element fuel b = Some (e, r) -> (length r < length b)%nat.
Proof.
  unfold value_element. destruct (cbor_decode fuel b) as [[v r0]|] eqn:Ed; [|discriminate].
  apply decode_shorter in Ed. intros H. injection H as _ <-. exact Ed.
Qed.

(** * (e) [Bytes::try_from(&str)] *)
Lemma strip_pad_length s : (length (strip_pad s) <= length s)%nat.
Proof.
  induction s as [|c r IH]; cbn [strip_pad length]; [lia|].
  destruct (strip_pad r) as [|x t] eqn:E.
  - destruct (c =? 61); cbn [length]; lia.
  - cbn [length] in *. lia.
Qed.

Lemma b64_values_length url : forall s v, b64_values url s = Some v -> length v = length s.
Proof.
  induction s as [|c r IH]; intros v H; cbn [b64_values] in H.
  - injection H as <-. reflexivity.
  - destruct (b64_val url c); [|discriminate]. destruct (b64_values url r) as [t|]; [|discriminate].
    injection H as <-. cbn [length]. f_equal. apply IH. reflexivity.
Qed.

Lemma unsextets_length check : forall v b, b64_unsextets check v = Some b ->
  (4 * length b <= 3 * length v)%nat /\ (length v mod 4 <> 1)%nat.
Proof.
  induction v as [| | | |a b0 c d r IH] using list_ind4; intros b H.
  - injection H as <-. cbn. lia.
  - discriminate.
  - cbn [b64_unsextets] in H. destruct (check && negb (_ mod 16 =? 0)); [discriminate|].
    injection H as <-. cbn. lia.
  - cbn [b64_unsextets] in H. destruct (check && negb (_ mod 4 =? 0)); [discriminate|].
    injection H as <-. cbn. lia.
  - cbn [b64_unsextets] in H. destruct (b64_unsextets check r) as [t|] eqn:E; [|discriminate].
    injection H as <-. destruct (IH t eq_refl) as [H1 H2]. cbn [length].
    split; [lia|]. replace (S (S (S (S (length r))))) with (length r + 1 * 4)%nat by lia.
    rewrite Nat.mod_add by lia. exact H2.
Qed.

Lemma b64_decode_gen_length url check s b : b64_decode_gen url check s = Some b ->
  (4 * length b <= 3 * length (strip_pad s))%nat /\ (length (strip_pad s) mod 4 <> 1)%nat.
Proof.
  unfold b64_decode_gen. destruct (b64_values url (strip_pad s)) as [v|] eqn:Ev; [|discriminate].
  apply b64_values_length in Ev. intros H. apply unsextets_length in H. rewrite <- Ev. exact H.
Qed.

Theorem bytes_try_from_str_value s :
  fst (bytes_try_from_str_cost s) = match bytes_try_from_str s with Some b => Done b | None => Fail tt end.
Proof.
  unfold bytes_try_from_str_cost, bytes_try_from_str.
  destruct (try_from_base64url s); [reflexivity|]. cbn [fst]. reflexivity.
Qed.

Lemma b64_attempt_allocs_bound s :
  Forall (fun a => 4 * a <= 3 * N.of_nat (length s)) (b64_attempt_allocs s) /\ (length (b64_attempt_allocs s) <= 1)%nat.
Proof.
  unfold b64_attempt_allocs. pose proof (strip_pad_length s) as Hs.
  destruct (_ mod 4 =? 1); [split; [constructor|cbn; lia]|].
  destruct (_ =? 0); [split; [constructor|cbn; lia]|].
  split; [|cbn; lia]. constructor; [|constructor]. lia.
Qed.

Theorem bytes_try_from_str_cost_bound s :
  fst (bytes_try_from_str_cost s) <> Crash /\
  (steps (snd (bytes_try_from_str_cost s)) <= 4 * length s)%nat /\
  Forall (fun a => 4 * a <= 3 * N.of_nat (length s)) (allocs (snd (bytes_try_from_str_cost s))) /\
  (length (allocs (snd (bytes_try_from_str_cost s))) <= 2)%nat /\
  (forall b, fst (bytes_try_from_str_cost s) = Done b -> (4 * length b <= 3 * length s)%nat).
Proof.
  pose proof (b64_attempt_allocs_bound s) as [Ha Hl]. pose proof (strip_pad_length s) as Hs.
  unfold bytes_try_from_str_cost.
  destruct (try_from_base64url s) as [b|] eqn:Eu; cbn [fst snd steps allocs].
  - split; [discriminate|]. split; [lia|]. split; [exact Ha|]. split; [lia|].
    intros b' H. injection H as <-. apply b64_decode_gen_length in Eu. lia.
  - split; [destruct (try_from_base64 s); discriminate|]. split; [lia|].
    split; [apply Forall_app; split; exact Ha|]. split; [rewrite app_length; lia|].
    intros b' H. destruct (try_from_base64 s) as [b|] eqn:Es; [|discriminate].
    injection H as <-. apply b64_decode_gen_length in Es. lia.
Qed.

(** * (a) at the byte level: [from_reader::<Bytes>] *)
Theorem bytes_deserialize_cbor_cost fuel b :
  fst (bytes_deserialize_cbor fuel b) <> Crash /\
  (steps (snd (bytes_deserialize_cbor fuel b)) <= 4 * length b + 1)%nat /\
  Forall (fun a => a <= N.max 4096 (2 * N.of_nat (length b))) (allocs (snd (bytes_deserialize_cbor fuel b))).
Proof.
  unfold bytes_deserialize_cbor.
  destruct (head_decode b) as [[[[mt ai] arg] rest]|] eqn:Eh;
    [|cbn [fst snd steps allocs]; repeat split; [discriminate|lia|constructor]].
  pose proof (head_decode_length _ _ _ _ _ Eh) as Hrest.
  assert (Hdefault : fst (@Fail unit bytes tt, Cost 1 []) <> Crash /\
                     (steps (snd (@Fail unit bytes tt, Cost 1 [])) <= 4 * length b + 1)%nat /\
                     Forall (fun a => a <= N.max 4096 (2 * N.of_nat (length b))) (allocs (snd (@Fail unit bytes tt, Cost 1 [])))).
  { cbn [fst snd steps allocs]. repeat split; [discriminate|lia|constructor]. }
  destruct mt as [|p]; [exact Hdefault|].
  destruct p as [[p|p|]|[p|p|]|]; try exact Hdefault.
  - (* 3: text *)
    destruct (cbor_decode (S fuel) b) as [[v r]|] eqn:Ed; [|exact Hdefault].
    destruct v; try exact Hdefault.
    apply decode_bounds in Ed as [_ Hs]. cbn [size] in Hs.
    destruct (bytes_try_from_str_cost_bound b0) as (H1 & H2 & H3 & _ & _).
    split; [exact H1|]. split; [lia|].
    eapply Forall_impl; [|exact H3]. cbv beta. intros a Ha. lia.
  - (* 4 = xO (xO xH): array *)
    destruct p as [p|p|]; try exact Hdefault.
    pose proof (bytes_visit_seq_cost (cbor_seq_of (u8_element fuel) arg rest)) as (H1 & H2 & H3).
    pose proof (cbor_seq_of_avail (u8_element fuel) (u8_element_progress fuel) arg rest) as Hav.
    split; [exact H1|]. split; [lia|].
    eapply Forall_impl; [|exact H3]. cbv beta. intros a Ha. lia.
  - (* 2: byte string *)
    destruct (cbor_decode (S fuel) b) as [[v r]|] eqn:Ed; [|exact Hdefault].
    destruct v; try exact Hdefault.
    apply decode_bounds in Ed as [_ Hs]. cbn [size] in Hs.
    cbn [fst snd steps allocs]. split; [discriminate|]. split; [lia|].
    destruct (length b0 =? 0)%nat; constructor; [lia|constructor].
Qed.

Corollary bytes_deserialize_cbor_max_alloc fuel b :
  max_alloc (snd (bytes_deserialize_cbor fuel b)) <= 2 * N.of_nat (length b) + 4096.
Proof.
  apply max_alloc_le. eapply Forall_impl; [|apply (bytes_deserialize_cbor_cost fuel b)]. cbv beta. intros a Ha. lia.
Qed.

(** the F6 shape: an array head (of any width) declaring more elements than the bytes that follow
    is an error, reached after at most [|rest| + 1] iterations with at most 4096 bytes requested up
    front *)
Theorem bytes_deserialize_cbor_truncated fuel b ai n rest :
  head_decode b = Some (4, ai, ArgN n, rest) -> N.of_nat (length rest) < n ->
  fst (bytes_deserialize_cbor fuel b) = Fail tt.
Proof.
  intros Eh Hn. unfold bytes_deserialize_cbor. rewrite Eh.
  apply bytes_visit_seq_truncated with (n := n).
  - apply cbor_seq_of_hint.
  - pose proof (cbor_seq_of_avail (u8_element fuel) (u8_element_progress fuel) (ArgN n) rest). lia.
Qed.

(** * (b) at the byte level: a transports list *)
Theorem transports_deserialize_cbor_cost fuel b :
  fst (transports_deserialize_cbor fuel b) <> Crash /\
  (steps (snd (transports_deserialize_cbor fuel b)) <= length b + 1)%nat /\
  Forall (fun a => a <= N.max 1024 (2 * N.of_nat (length b))) (allocs (snd (transports_deserialize_cbor fuel b))).
Proof.
  unfold transports_deserialize_cbor.
  pose proof (skip_all_tags_length (length b) b) as Hskip.
  set (b' := skip_all_tags (length b) b) in *.
  destruct (head_decode b') as [[[[mt ai] arg] rest]|] eqn:Eh;
    [|cbn [fst snd steps allocs]; repeat split; [discriminate|lia|constructor]].
  pose proof (head_decode_length _ _ _ _ _ Eh) as Hrest.
  assert (Hdefault : fst (@Fail unit (option (list N)) tt, Cost 1 []) <> Crash /\
                     (steps (snd (@Fail unit (option (list N)) tt, Cost 1 [])) <= length b + 1)%nat /\
                     Forall (fun a => a <= N.max 1024 (2 * N.of_nat (length b)))
                            (allocs (snd (@Fail unit (option (list N)) tt, Cost 1 [])))).
  { cbn [fst snd steps allocs]. repeat split; [discriminate|lia|constructor]. }
  destruct mt as [|p]; [exact Hdefault|].
  destruct p as [[p|p|]|[p|p|]|]; try exact Hdefault.
  - destruct p as [p|p|]; try exact Hdefault.
    pose proof (ignore_unknown_cost transport_known 8 (cbor_seq_of (value_element fuel) arg rest)) as (H1 & H2 & H3).
    pose proof (cbor_seq_of_avail (value_element fuel) (value_element_progress fuel) arg rest) as Hav.
    split; [exact H1|]. split; [lia|].
    eapply Forall_impl; [|exact H3]. cbv beta. intros a Ha. lia.
  - destruct (cbor_decode (S fuel) b') as [[v r]|] eqn:Ed; [|exact Hdefault].
    destruct v; try exact Hdefault.
    apply decode_bounds in Ed as [_ Hs]. cbn [size] in Hs.
    cbn [fst snd steps allocs]. split; [discriminate|]. split; [lia|constructor].
Qed.

(** the F7 shape: a list declaring more elements than the bytes that follow is an error *)
Theorem transports_deserialize_cbor_truncated fuel b ai n rest :
  head_decode (skip_all_tags (length b) b) = Some (4, ai, ArgN n, rest) -> N.of_nat (length rest) < n ->
  fst (transports_deserialize_cbor fuel b) = Fail tt.
Proof.
  intros Eh Hn. unfold transports_deserialize_cbor. rewrite Eh.
  apply ignore_unknown_truncated with (n := n).
  - apply cbor_seq_of_hint.
  - pose proof (cbor_seq_of_avail (value_element fuel) (value_element_progress fuel) (ArgN n) rest). lia.
Qed.

(** * (c) [public_key_der_from_cose_key] *)
Lemma scan_params_no_crash : forall ps x y, scan_params ps x y <> Crash.
Proof.
  induction ps as [|[l v] r IH]; intros x y; cbn [scan_params]; [discriminate|].
  destruct l as [i|s]; [|apply IH].
  destruct (negb (ec2_param_known i)); [discriminate|].
  destruct (i =? -2)%Z; [apply IH|]. destruct (i =? -3)%Z; apply IH.
Qed.

Theorem cose_to_der_no_crash k : fst (public_key_der_from_cose_key k) <> Crash.
Proof.
  unfold public_key_der_from_cose_key.
  destruct (ck_alg k) as [[z| |]|]; try discriminate.
  destruct z as [|p|p]; try discriminate.
  destruct p as [[[|q|]|[|q|]|]|q|]; try discriminate.
  destruct (ck_kty k) as [z| |]; try discriminate.
  destruct z as [|p|p]; try discriminate.
  destruct p as [q|[q|q|]|]; try discriminate.
  destruct (scan_params (ck_params k) None None) as [[[x|] [y|]]|e|] eqn:Es; try discriminate.
  - destruct (Nat.eqb_spec (length x) 32) as [Hx|Hx]; cbn [andb negb]; [|discriminate].
    destruct (Nat.eqb_spec (length y) 32) as [Hy|Hy]; cbn [negb]; [|discriminate].
    unfold generic_array_from_slice. rewrite Hx, Hy. cbn [Nat.eqb].
    destruct (p256_point_ok x y); discriminate.
  - exfalso. eapply scan_params_no_crash; exact Es.
Qed.

Theorem cose_to_der_cost k :
  steps (snd (public_key_der_from_cose_key k)) = S (length (ck_params k)) /\
  allocs (snd (public_key_der_from_cose_key k)) = [91].
Proof.
  unfold public_key_der_from_cose_key.
  repeat match goal with
         | |- context [match ?x with _ => _ end] => destruct x
         end; split; reflexivity.
Qed.

(** a DER encoding is only produced from two 32-byte coordinates that are a point of P-256 *)
Theorem cose_to_der_done k der : fst (public_key_der_from_cose_key k) = Done der ->
  exists x y, scan_params (ck_params k) None None = Done (Some x, Some y) /\
              length x = 32%nat /\ length y = 32%nat /\ p256_point_ok x y = true /\
              der = SPKI_P256_HEADER ++ x ++ y /\ length der = 91%nat.
Proof.
  unfold public_key_der_from_cose_key.
  destruct (ck_alg k) as [[z| |]|]; try discriminate.
  destruct z as [|p|p]; try discriminate.
  destruct p as [[[|q|]|[|q|]|]|q|]; try discriminate.
  destruct (ck_kty k) as [z| |]; try discriminate.
  destruct z as [|p|p]; try discriminate.
  destruct p as [q|[q|q|]|]; try discriminate.
  destruct (scan_params (ck_params k) None None) as [[[x|] [y|]]|e|] eqn:Es; try discriminate.
  destruct (Nat.eqb_spec (length x) 32) as [Hx|Hx]; cbn [andb negb]; [|discriminate].
  destruct (Nat.eqb_spec (length y) 32) as [Hy|Hy]; cbn [negb]; [|discriminate].
  unfold generic_array_from_slice. rewrite Hx, Hy. rewrite !Nat.eqb_refl.
  destruct (p256_point_ok x y) eqn:Ep; [|discriminate].
  cbn [fst]. intros H. injection H as <-. exists x, y.
  repeat split; try assumption; try reflexivity.
  cbn [length]. rewrite app_length, Hx, Hy. reflexivity.
Qed.

(** the code before the fix (F10): a one-byte coordinate reaches the length assertion *)
Example cose_to_der_unguarded_refuted :
  public_key_der_from_cose_key_unguarded
    (CoseKey (Assigned 2) (Some (Assigned (-7))) [(LInt (-2), Some [1]); (LInt (-3), Some [2])]) = Crash.
Proof. reflexivity. Qed.

(** non-vacuity: the generator of P-256 converts *)
Example cose_to_der_generator :
  let gx := [107;23;209;242;225;44;66;71;248;188;230;229;99;164;64;242;119;3;125;129;45;235;51;160;244;161;57;69;216;152;194;150] in
  let gy := [79;227;66;226;254;26;127;155;142;231;235;74;124;15;158;22;43;206;51;87;107;49;94;206;203;182;64;104;55;191;81;245] in
  fst (public_key_der_from_cose_key
         (CoseKey (Assigned 2) (Some (Assigned (-7))) [(LInt (-1), None); (LInt (-2), Some gx); (LInt (-3), Some gy)]))
  = Done (SPKI_P256_HEADER ++ gx ++ gy).
Proof. vm_compute. reflexivity. Qed.

(** * (d) [valid_fingerprint] *)
Lemma hex_pair_val_lt a b : upper_hex a = true -> upper_hex b = true -> hex_pair_val a b < 256.
Proof. unfold upper_hex, hex_pair_val, hex_digit_val. intros Ha Hb. destruct (a <=? 57) eqn:Ea, (b <=? 57) eqn:Eb; lia. Qed.

Lemma fingerprint_rounds_spec_n : forall k s l rest n, (length s <= k)%nat ->
  fingerprint_rounds s = (l, rest, n) ->
  length s = (3 * length l + length rest)%nat /\ n = S (length l) /\ bytes_ok l.
Proof.
  induction k as [|k IH]; intros s l rest n Hk H.
  - destruct s; [|cbn [length] in Hk; lia]. cbn [fingerprint_rounds] in H.
    injection H as <- <- <-. cbn [length]. repeat split; try lia. constructor.
  - destruct s as [|c [|a [|b r]]]; cbn [fingerprint_rounds] in H;
      try (injection H as <- <- <-; cbn [length]; repeat split; try lia; constructor).
    destruct ((c =? 58) && upper_hex a && upper_hex b) eqn:Ec.
    + destruct (fingerprint_rounds r) as [[l0 rest0] n0] eqn:Er.
      injection H as <- <- <-. apply IH in Er as (H1 & H2 & H3); [|cbn [length] in Hk; lia].
      cbn [length]. split; [lia|]. split; [lia|].
      constructor; [|exact H3]. apply andb_prop in Ec as [Ec Hb]. apply andb_prop in Ec as [_ Ha].
      apply hex_pair_val_lt; assumption.
    + injection H as <- <- <-. cbn [length]. repeat split; try lia. constructor.
Qed.

Lemma fingerprint_rounds_spec s l rest n :
  fingerprint_rounds s = (l, rest, n) ->
  length s = (3 * length l + length rest)%nat /\ n = S (length l) /\ bytes_ok l.
Proof. apply (fingerprint_rounds_spec_n (length s)). lia. Qed.

Lemma parse_fingerprint_spec s l rest n : parse_fingerprint s = Some (l, rest, n) ->
  (length s + 1 = 3 * length l + length rest)%nat /\ n = S (length l) /\ bytes_ok l /\ (1 <= length l)%nat.
Proof.
  unfold parse_fingerprint. destruct s as [|a [|b r]]; try discriminate.
  destruct (upper_hex a && upper_hex b) eqn:Eab; [|discriminate].
  destruct (fingerprint_rounds r) as [[l0 rest0] n0] eqn:Er. intros H. injection H as <- <- <-.
  apply fingerprint_rounds_spec in Er as (H1 & H2 & H3). cbn [length].
  split; [lia|]. split; [lia|]. split; [|lia].
  constructor; [|exact H3]. apply andb_prop in Eab as [Ha Hb]. apply hex_pair_val_lt; assumption.
Qed.

Theorem valid_fingerprint_cost s :
  fst (valid_fingerprint s) <> Crash /\
  (3 * steps (snd (valid_fingerprint s)) <= length s + 4)%nat /\
  Forall (fun a => a <= N.max 8 (N.of_nat (length s) + 1)) (allocs (snd (valid_fingerprint s))).
Proof.
  unfold valid_fingerprint. destruct (parse_fingerprint s) as [[[l rest] n]|] eqn:Ep.
  - apply parse_fingerprint_spec in Ep as (H1 & -> & _ & H4). cbn [fst snd steps allocs].
    split; [destruct rest; [destruct (length l =? 32)%nat|]; discriminate|]. split; [lia|].
    eapply Forall_impl; [|apply vec_allocs_bound]. cbv beta. intros a Ha. lia.
  - cbn [fst snd steps allocs]. repeat split; [discriminate|lia|constructor].
Qed.

Theorem valid_fingerprint_done s v : fst (valid_fingerprint s) = Done v ->
  length v = 32%nat /\ length s = 95%nat /\ bytes_ok v.
Proof.
  unfold valid_fingerprint. destruct (parse_fingerprint s) as [[[l rest] n]|] eqn:Ep; [|discriminate].
  apply parse_fingerprint_spec in Ep as (H1 & _ & H3 & _). cbn [fst].
  destruct rest; [|discriminate]. destruct (Nat.eqb_spec (length l) 32) as [Hl|Hl]; [|discriminate].
  intros H. injection H as <-. cbn [length] in H1. repeat split; [exact Hl|lia|exact H3].
Qed.

(** non-vacuity: the fingerprint of the repository's own unit test is accepted
    ("B3:5B:68:D5:CE:84:50:55:7C:6A:55:FD:64:B5:1F:EA:C1:10:CB:36:D6:A3:52:1C:59:48:DB:3A:38:0A:34:A9") *)
Example valid_fingerprint_example :
  fst (valid_fingerprint
    [66;51;58;53;66;58;54;56;58;68;53;58;67;69;58;56;52;58;53;48;58;53;53;58;55;67;58;54;65;58;53;53;58;70;68;58;54;52;58;66;53;58;49;70;58;69;65;58;
     67;49;58;49;48;58;67;66;58;51;54;58;68;54;58;65;51;58;53;50;58;49;67;58;53;57;58;52;56;58;68;66;58;51;65;58;51;56;58;48;65;58;51;52;58;65;57])
  = Done [179;91;104;213;206;132;80;85;124;106;85;253;100;181;31;234;193;16;203;54;214;163;82;28;89;72;219;58;56;10;52;169].
Proof. vm_compute. reflexivity. Qed.

(** * The known finding in its [forall x, ~ KnownClass x -> no panic] form
    (from [U2fWireFacts.authentication_request_panic_iff]; the class is
    [Wire.U2fCheck.known_class]: a correctly laid out payload with a parameter byte outside {3,7,8}) *)
From PK Require Wire.U2fWire Wire.U2fWireFacts.

Definition u2f_auth_known_class (data : bytes) (p1 : N) : Prop :=
  U2fWireFacts.auth_layout_ok data = true /\ U2fWire.is_control_byte p1 = false.

Lemma u2f_auth_no_panic_outside_known_class data p1 :
  ~ u2f_auth_known_class data p1 ->
  U2fWire.authentication_request_try_from data p1 <> U2fWire.Panic.
Proof.
  intros H E. apply H. apply U2fWireFacts.authentication_request_panic_iff. exact E.
Qed.

Lemma u2f_auth_known_class_witness :
  exists data p1, u2f_auth_known_class data p1 /\
                  U2fWire.authentication_request_try_from data p1 = U2fWire.Panic.
Proof.
  exists (repeat 0 65), 0. split.
  - apply U2fWireFacts.authentication_request_panic_iff. exact U2fWireFacts.authentication_request_panic_witness.
  - exact U2fWireFacts.authentication_request_panic_witness.
Qed.
