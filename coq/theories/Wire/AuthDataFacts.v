(** Theorems about the authenticator-data model (C12).  All statements are for ALL values. *)
From Coq Require Import ZArith ZifyBool ZifyNat ZifyN Lia.
From PK Require Import Lib.Bytes Lib.Cbor Lib.CborFacts Wire.AuthData Wire.AuthDataSpec.
Open Scope N_scope.
Ltac Zify.zify_post_hook ::= Z.div_mod_to_equations.

(** * Small list facts *)
Lemma firstn_app_len {A} (h x : list A) n : length h = n -> firstn n (h ++ x) = h.
Proof.
  intros <-. rewrite firstn_app, Nat.sub_diag, firstn_all. cbn [firstn]. apply app_nil_r.
Qed.

Lemma skipn_app_off {A} (h x : list A) n k : length h = n -> skipn (n + k) (h ++ x) = skipn k x.
Proof.
  intros <-. rewrite skipn_app. rewrite skipn_all2 by lia.
  replace (length h + k - length h)%nat with k by lia. reflexivity.
Qed.

Lemma nth_app_off {A} (h x : list A) n k d : length h = n -> nth (n + k) (h ++ x) d = nth k x d.
Proof. intros <-. apply app_nth2_plus. Qed.

Lemma firstn_app_off {A} (h x : list A) n k : length h = n -> firstn (n + k) (h ++ x) = h ++ firstn k x.
Proof.
  intros <-. rewrite firstn_app. rewrite firstn_all2 by lia.
  replace (length h + k - length h)%nat with k by lia. reflexivity.
Qed.

(** * [take] *)
Lemma tk_0 b : take 0 b = Some ([], b).
Proof. destruct b; reflexivity. Qed.

Lemma tk_succ n x b :
  take (N.succ n) (x :: b) = match take n b with Some (a, r) => Some (x :: a, r) | None => None end.
Proof.
  destruct (N.succ n) as [|p] eqn:E; [lia|]. cbn [take]. rewrite <- E, N.pred_succ. reflexivity.
Qed.

Lemma tk_app a : forall r n, n = N.of_nat (length a) -> take n (a ++ r) = Some (a, r).
Proof.
  induction a as [|x a IH]; intros r n ->.
  - cbn [length N.of_nat app]. apply tk_0.
  - cbn [length app]. rewrite Nat2N.inj_succ, tk_succ, (IH r _ eq_refl). reflexivity.
Qed.

Lemma tk_spec : forall b n a r, take n b = Some (a, r) -> b = a ++ r /\ N.of_nat (length a) = n.
Proof.
  induction b as [|x b IH]; intros n a r H.
  - destruct n; cbn [take] in H; [|discriminate]. injection H as <- <-. split; reflexivity.
  - destruct n as [|p].
    + cbn [take] in H. injection H as <- <-. split; reflexivity.
    + cbn [take] in H. destruct (take (N.pred (N.pos p)) b) as [[a' r']|] eqn:E; [|discriminate].
      injection H as <- <-. apply IH in E as [-> E]. split; [reflexivity|].
      cbn [length]. rewrite Nat2N.inj_succ, E. lia.
Qed.

Lemma tk_none : forall b n, N.of_nat (length b) < n -> take n b = None.
Proof.
  induction b as [|x b IH]; intros n H.
  - destruct n; [cbn [length] in H; lia|reflexivity].
  - destruct n as [|p]; [lia|]. cbn [take]. rewrite IH; [reflexivity|]. cbn [length] in H. lia.
Qed.

Lemma tk_some b n : n <= N.of_nat (length b) -> exists a r, take n b = Some (a, r).
Proof.
  revert n; induction b as [|x b IH]; intros n H.
  - cbn [length] in H. replace n with 0 by lia. eexists _, _. reflexivity.
  - destruct n as [|p]; [eexists _, _; reflexivity|].
    cbn [take]. destruct (IH (N.pred (N.pos p))) as (a & r & E); [cbn [length] in H; lia|].
    rewrite E. eexists _, _. reflexivity.
Qed.

(** * Flags: facts over the 256 bytes, by exhaustive computation *)
Definition range256 : list N := map N.of_nat (seq 0 256).

Lemma range256_in x : x < 256 -> In x range256.
Proof.
  intros H. unfold range256. apply in_map_iff. exists (N.to_nat x). split; [lia|].
  apply in_seq. lia.
Qed.

Lemma forall256 (P : N -> bool) : forallb P range256 = true -> forall x, x < 256 -> P x = true.
Proof. intros H x Hx. rewrite forallb_forall in H. apply H, range256_in, Hx. Qed.

Lemma forall256_2 (P : N -> N -> bool) :
  forallb (fun x => forallb (P x) range256) range256 = true ->
  forall x y, x < 256 -> y < 256 -> P x y = true.
Proof.
  intros H x y Hx Hy. apply (forall256 (P x)); [|exact Hy].
  apply (forall256 (fun x => forallb (P x) range256)); assumption.
Qed.

Lemma flags_from_bits_reserved b : N.land b FLAGS_RESERVED <> 0 -> flags_from_bits b = None.
Proof.
  intros H. unfold flags_from_bits. destruct (N.eqb_spec (N.land b FLAGS_ALL) b) as [E|E]; [|reflexivity].
  exfalso. apply H. rewrite <- E, <- N.land_assoc.
  change (N.land FLAGS_ALL FLAGS_RESERVED) with 0. apply N.land_0_r.
Qed.

Lemma flags_from_bits_some b f : flags_from_bits b = Some f -> f = b /\ N.land b FLAGS_RESERVED = 0 /\ b < 256.
Proof.
  unfold flags_from_bits. destruct (N.eqb_spec (N.land b FLAGS_ALL) b) as [E|E]; [|discriminate].
  intros [= <-]. split; [reflexivity|]. split.
  - rewrite <- E, <- N.land_assoc. change (N.land FLAGS_ALL FLAGS_RESERVED) with 0. apply N.land_0_r.
  - rewrite <- E.
    assert (HH : N.land b FLAGS_ALL = N.land (N.land b FLAGS_ALL) (N.ones 8))
      by (rewrite <- N.land_assoc; reflexivity).
    rewrite HH, N.land_ones. apply N.mod_lt. discriminate.
Qed.

(** * [from_slice]: the header splits never panic *)

(** what [from_slice] does once the 37 header bytes are split off *)
Definition from_slice_body (h : bytes) (f a b c d : N) (rest : bytes) : outcome authdata :=
  match flags_from_bits f with
  | None => Err
  | Some flags =>
      match (if has_flag flags F_AT
             then match acd_from_reader rest with Some (x, r) => Some (Some x, r) | None => None end
             else Some (None, rest)) with
      | None => Err
      | Some (oa, r1) =>
          match (if has_flag flags F_ED
                 then match cbor_decode cbor_fuel r1 with Some (e, r) => Some (Some e, r) | None => None end
                 else Some (None, r1)) with
          | None => Err
          | Some (oe, _) =>
              Val {| ad_rp_id_hash := h; ad_flags := flags; ad_counter := Some (be32_dec a b c d);
                     ad_acd := oa; ad_ext := oe |}
          end
      end
  end.

Lemma from_slice_eq h f a b c d rest : length h = 32%nat ->
  from_slice (h ++ f :: a :: b :: c :: d :: rest) = from_slice_body h f a b c d rest.
Proof.
  intros H. unfold from_slice, from_slice_body.
  replace (N.of_nat (length (h ++ f :: a :: b :: c :: d :: rest)) <? 37) with false
    by (symmetry; apply N.ltb_ge; rewrite app_length; cbn [length]; lia).
  rewrite (tk_app h _ 32) by lia.
  change (f :: a :: b :: c :: d :: rest) with ([f] ++ a :: b :: c :: d :: rest).
  rewrite (tk_app [f] _ 1) by reflexivity.
  change (a :: b :: c :: d :: rest) with ([a; b; c; d] ++ rest).
  rewrite (tk_app [a; b; c; d] _ 4) by reflexivity.
  cbv beta iota.
  destruct (flags_from_bits f) as [flags|]; [|reflexivity].
  destruct (if has_flag flags F_AT then _ else _) as [[oa r1]|]; [|reflexivity].
  destruct (if has_flag flags F_ED then _ else _) as [[oe r2]|]; [|reflexivity].
  rewrite H. reflexivity.
Qed.

Lemma header_split v : 37 <= N.of_nat (length v) ->
  exists (h : bytes) f a b c d rest, v = h ++ f :: a :: b :: c :: d :: rest /\ length h = 32%nat.
Proof.
  intros H. destruct (tk_some v 32) as (h & v1 & E); [lia|].
  apply tk_spec in E as [-> E]. rewrite app_length in H.
  destruct v1 as [|f [|a [|b [|c [|d rest]]]]]; cbn [length] in H; try lia.
  exists h, f, a, b, c, d, rest. split; [reflexivity|lia].
Qed.

Theorem from_slice_short v : N.of_nat (length v) < 37 -> from_slice v = Err.
Proof. intros H. unfold from_slice. apply N.ltb_lt in H. rewrite H. reflexivity. Qed.

Theorem from_slice_no_panic v : from_slice v <> Panic.
Proof.
  destruct (N.lt_ge_cases (N.of_nat (length v)) 37) as [H|H].
  - rewrite from_slice_short by exact H. discriminate.
  - destruct (header_split v H) as (h & f & a & b & c & d & rest & -> & Hh).
    rewrite from_slice_eq by exact Hh. unfold from_slice_body.
    destruct (flags_from_bits f) as [flags|]; [|discriminate].
    destruct (if has_flag flags F_AT then _ else _) as [[oa r1]|]; [|discriminate].
    destruct (if has_flag flags F_ED then _ else _) as [[oe r2]|]; discriminate.
Qed.

(** reserved flag bits (0x02, 0x20) are rejected, whatever follows *)
Theorem from_slice_reserved v :
  37 <= N.of_nat (length v) -> N.land (nth 32 v 0) FLAGS_RESERVED <> 0 -> from_slice v = Err.
Proof.
  intros H R. destruct (header_split v H) as (h & f & a & b & c & d & rest & -> & Hh).
  rewrite from_slice_eq by exact Hh. unfold from_slice_body.
  change 32%nat with (32 + 0)%nat in R. rewrite (nth_app_off h _ 32 0 0 Hh) in R. cbn [nth] in R.
  rewrite flags_from_bits_reserved by exact R. reflexivity.
Qed.

(** AT or ED flagged and nothing after the 37 header bytes *)
Theorem from_slice_section_absent v :
  N.of_nat (length v) = 37 ->
  has_flag (nth 32 v 0) F_AT || has_flag (nth 32 v 0) F_ED = true -> from_slice v = Err.
Proof.
  intros H R. destruct (header_split v) as (h & f & a & b & c & d & rest & -> & Hh); [lia|].
  rewrite app_length in H. cbn [length] in H. destruct rest; [|cbn [length] in H; lia].
  rewrite from_slice_eq by exact Hh. unfold from_slice_body.
  change 32%nat with (32 + 0)%nat in R. rewrite (nth_app_off h _ 32 0 0 Hh) in R. cbn [nth] in R.
  destruct (flags_from_bits f) as [flags|] eqn:F; [|reflexivity].
  apply flags_from_bits_some in F as (-> & _ & _).
  destruct (has_flag f F_AT); [reflexivity|].
  cbn [orb] in R. rewrite R. reflexivity.
Qed.

(** * Well-formed values, the byte layout, the builder closure *)

(** the COSE keys the theorems speak about: values [ciborium] reads back unchanged and
    [coset] reads back as the same key *)
Definition key_in_model (k : cbor) : Prop :=
  cbor_wf k = true /\ (depth k < cbor_fuel)%nat /\ cose_norm k = Some k.

Definition acd_wf (a : acd) : Prop :=
  length (acd_aaguid a) = 16%nat /\ bytes_ok (acd_aaguid a) /\ bytes_ok (acd_cred_id a) /\
  N.of_nat (length (acd_cred_id a)) <= 65535 /\ key_in_model (acd_key a).

Definition ext_wf (e : cbor) : Prop :=
  is_map e = true /\ cbor_wf e = true /\ (depth e < cbor_fuel)%nat.

Definition is_some {A} (o : option A) : bool := match o with Some _ => true | None => false end.

Record ad_wf (ad : authdata) : Prop := {
  wf_hash_len : length (ad_rp_id_hash ad) = 32%nat;
  wf_hash_ok : bytes_ok (ad_rp_id_hash ad);
  wf_counter : forall c, ad_counter ad = Some c -> c < 4294967296;
  wf_acd : forall a, ad_acd ad = Some a -> acd_wf a;
  wf_ext : forall e, ad_ext ad = Some e -> ext_wf e;
  wf_flags : ad_flags ad < 256;
  wf_reserved : N.land (ad_flags ad) FLAGS_RESERVED = 0;
  wf_at : has_flag (ad_flags ad) F_AT = is_some (ad_acd ad);      (* AT set exactly when the section is present *)
  wf_ed : has_flag (ad_flags ad) F_ED = is_some (ad_ext ad)       (* ED set exactly when the section is present *)
}.

Definition counter_of (ad : authdata) : N := match ad_counter ad with Some c => c | None => 0 end.

(** rpIdHash | flags | signCount (big endian) | [aaguid | idLen (big endian) | id | key] | [extensions] *)
Definition acd_layout (a : acd) : bytes :=
  acd_aaguid a ++ be16 (N.of_nat (length (acd_cred_id a))) ++ acd_cred_id a ++ cbor_encode (acd_key a).
Definition layout (ad : authdata) : bytes :=
  ad_rp_id_hash ad ++ [ad_flags ad] ++ be32 (counter_of ad)
  ++ (match ad_acd ad with Some a => acd_layout a | None => [] end)
  ++ (match ad_ext ad with Some e => cbor_encode e | None => [] end).

(** what [from_slice] returns for [layout ad]: [ad] with an absent counter read back as zero *)
Definition normalise (ad : authdata) : authdata :=
  {| ad_rp_id_hash := ad_rp_id_hash ad; ad_flags := ad_flags ad; ad_counter := Some (counter_of ad);
     ad_acd := ad_acd ad; ad_ext := ad_ext ad |}.

(** what the independent layout decoder must return *)
Definition fields_of (ad : authdata) : fields :=
  {| f_rp_id_hash := ad_rp_id_hash ad; f_flags := ad_flags ad; f_sign_count := counter_of ad;
     f_acd := match ad_acd ad with Some a => Some (acd_aaguid a, acd_cred_id a, acd_key a) | None => None end;
     f_ext := ad_ext ad |}.

(** values built with the provided constructor and setters, user flags within {UP,UV,BE,BS};
    the side conditions are the Rust types ([[u8; 32]], [u32], [[u8; 16]], [Vec<u8>] shorter than
    2^64) and "the key is inside the model" *)
Definition counter_ok (c : option N) : Prop := forall n, c = Some n -> n < 4294967296.
Definition vec_ok (b : bytes) : Prop := bytes_ok b /\ N.of_nat (length b) < 18446744073709551616.
Definition mc_ok (o : option (option bool * option bytes)) : Prop :=
  forall hs x, o = Some (hs, Some x) -> vec_ok x.
Definition ga_ok (o : option (option bytes)) : Prop := forall x, o = Some (Some x) -> vec_ok x.

Inductive Built (sha256 : bytes -> bytes) : authdata -> Prop :=
| B_new rp_id counter :
    length (sha256 rp_id) = 32%nat -> bytes_ok (sha256 rp_id) -> counter_ok counter ->
    Built sha256 (ad_new sha256 rp_id counter)
| B_flags ad f :
    Built sha256 ad -> N.land f FLAGS_USER = f -> Built sha256 (set_flags ad f)
| B_acd ad aaguid id key a :
    Built sha256 ad -> length aaguid = 16%nat -> bytes_ok aaguid -> bytes_ok id -> key_in_model key ->
    acd_new aaguid id key = Val a -> Built sha256 (set_acd ad a)
| B_mc ad o :
    Built sha256 ad -> mc_ok o -> Built sha256 (set_make_credential_extensions ad o)
| B_ga ad o :
    Built sha256 ad -> ga_ok o -> Built sha256 (set_assertion_extensions ad o)
| B_ext ad l :      (* any other extension output map, through the same setter body *)
    Built sha256 ad -> ext_wf (CMap l) -> Built sha256 (set_extensions ad (Some (CMap l))).

(** ** flag arithmetic, by computation over all bytes *)
Lemma flag_facts_user fl f : fl < 256 -> N.land f FLAGS_USER = f -> N.land fl FLAGS_RESERVED = 0 ->
  N.lor fl f < 256 /\ N.land (N.lor fl f) FLAGS_RESERVED = 0 /\
  has_flag (N.lor fl f) F_AT = has_flag fl F_AT /\ has_flag (N.lor fl f) F_ED = has_flag fl F_ED.
Proof.
  intros Hfl Hf Hr.
  assert (Hf' : f < 256).
  { rewrite <- Hf. assert (E : N.land f FLAGS_USER = N.land (N.land f FLAGS_USER) (N.ones 8))
      by (rewrite <- N.land_assoc; reflexivity).
    rewrite E, N.land_ones. apply N.mod_lt. discriminate. }
  pose proof (forall256_2 (fun fl f =>
    implb ((N.land f FLAGS_USER =? f) && (N.land fl FLAGS_RESERVED =? 0))
          ((N.lor fl f <? 256) && (N.land (N.lor fl f) FLAGS_RESERVED =? 0)
           && Bool.eqb (has_flag (N.lor fl f) F_AT) (has_flag fl F_AT)
           && Bool.eqb (has_flag (N.lor fl f) F_ED) (has_flag fl F_ED))) ltac:(vm_compute; reflexivity) fl f Hfl Hf') as P.
  cbv beta in P. apply N.eqb_eq in Hf, Hr. rewrite Hf, Hr in P. cbn [andb implb] in P.
  apply andb_true_iff in P as [P P4]. apply andb_true_iff in P as [P P3]. apply andb_true_iff in P as [P1 P2].
  apply N.ltb_lt in P1. apply N.eqb_eq in P2. apply Bool.eqb_prop in P3, P4. auto.
Qed.

Lemma flag_facts_bit fl bit : fl < 256 -> N.land fl FLAGS_RESERVED = 0 -> bit = F_AT \/ bit = F_ED ->
  N.lor fl bit < 256 /\ N.land (N.lor fl bit) FLAGS_RESERVED = 0 /\
  has_flag (N.lor fl bit) bit = true /\
  (bit = F_AT -> has_flag (N.lor fl bit) F_ED = has_flag fl F_ED) /\
  (bit = F_ED -> has_flag (N.lor fl bit) F_AT = has_flag fl F_AT).
Proof.
  intros Hfl Hr Hb.
  pose proof (forall256 (fun fl =>
    implb (N.land fl FLAGS_RESERVED =? 0)
          ((N.lor fl F_AT <? 256) && (N.land (N.lor fl F_AT) FLAGS_RESERVED =? 0)
           && has_flag (N.lor fl F_AT) F_AT && Bool.eqb (has_flag (N.lor fl F_AT) F_ED) (has_flag fl F_ED)
           && (N.lor fl F_ED <? 256) && (N.land (N.lor fl F_ED) FLAGS_RESERVED =? 0)
           && has_flag (N.lor fl F_ED) F_ED && Bool.eqb (has_flag (N.lor fl F_ED) F_AT) (has_flag fl F_AT)))
    ltac:(vm_compute; reflexivity) fl Hfl) as P.
  cbv beta in P. apply N.eqb_eq in Hr. rewrite Hr in P. cbn [implb] in P.
  apply andb_true_iff in P as [P H8]. apply andb_true_iff in P as [P H7].
  apply andb_true_iff in P as [P H6]. apply andb_true_iff in P as [P H5].
  apply andb_true_iff in P as [P H4]. apply andb_true_iff in P as [P H3].
  apply andb_true_iff in P as [H1 H2].
  apply N.ltb_lt in H1, H5. apply N.eqb_eq in H2, H6. apply Bool.eqb_prop in H4, H8.
  destruct Hb as [-> | ->]; repeat split; try assumption; intros E; try discriminate E; assumption.
Qed.

Lemma lor_at_id fl : fl < 256 -> has_flag fl F_AT = true -> N.lor fl F_AT = fl.
Proof.
  intros Hfl H.
  pose proof (forall256 (fun fl => implb (has_flag fl F_AT) (N.lor fl F_AT =? fl))
                ltac:(vm_compute; reflexivity) fl Hfl) as P.
  cbv beta in P. rewrite H in P. apply N.eqb_eq in P. exact P.
Qed.

Lemma testbits fl : fl < 256 ->
  N.testbit fl 6 = has_flag fl F_AT /\ N.testbit fl 7 = has_flag fl F_ED.
Proof.
  intros Hfl.
  pose proof (forall256 (fun fl => Bool.eqb (N.testbit fl 6) (has_flag fl F_AT)
                                   && Bool.eqb (N.testbit fl 7) (has_flag fl F_ED))
                ltac:(vm_compute; reflexivity) fl Hfl) as P.
  cbv beta in P. apply andb_true_iff in P as [P1 P2]. apply Bool.eqb_prop in P1, P2. auto.
Qed.

(** * CBOR well-formedness of the values the builders produce *)
Lemma cbor_wf_map l :
  Forall (fun kv : cbor * cbor => cbor_wf (fst kv) = true /\ cbor_wf (snd kv) = true) l ->
  N.of_nat (length l) < TWO64 -> cbor_wf (CMap l) = true.
Proof.
  intros F L. cbn [cbor_wf]. apply andb_true_iff. split.
  - apply forallb_forall. intros [k x] Hin. rewrite Forall_forall in F.
    destruct (F _ Hin) as [A B]. cbn [fst snd] in A, B. rewrite A, B. reflexivity.
  - unfold len_ok. apply N.ltb_lt, L.
Qed.

Lemma cbor_wf_bytes x : vec_ok x -> cbor_wf (CBytes x) = true.
Proof.
  intros [Hb Hl]. cbn [cbor_wf]. apply andb_true_iff. split.
  - apply bytes_okb_spec, Hb.
  - unfold len_ok, TWO64. apply N.ltb_lt, Hl.
Qed.

Lemma cbor_wf_int z : (-18446744073709551616 <= z < 18446744073709551616)%Z -> cbor_wf (CInt z) = true.
Proof. intros H. cbn [cbor_wf]. lia. Qed.

Lemma mc_ext_value_wf o v : mc_ok o -> mc_ext_value o = Some v -> ext_wf v.
Proof.
  intros Hok E.
  assert (U1 : cbor_wf (CText HMAC_SECRET) = true) by (vm_compute; reflexivity).
  assert (U2 : cbor_wf (CText HMAC_SECRET_MC) = true) by (vm_compute; reflexivity).
  destruct o as [[[b|] [x|]]|]; cbn [mc_ext_value app] in E; try discriminate E;
    injection E as <-; (split; [reflexivity|split]).
  - apply cbor_wf_map; [|vm_compute; reflexivity].
    repeat constructor; cbn [fst snd]; try assumption. apply cbor_wf_bytes, (Hok (Some b) x eq_refl).
  - cbn. unfold cbor_fuel. lia.
  - apply cbor_wf_map; [|vm_compute; reflexivity]. repeat constructor; cbn [fst snd]; assumption.
  - cbn. unfold cbor_fuel. lia.
  - apply cbor_wf_map; [|vm_compute; reflexivity].
    repeat constructor; cbn [fst snd]; try assumption. apply cbor_wf_bytes, (Hok None x eq_refl).
  - cbn. unfold cbor_fuel. lia.
Qed.

Lemma ga_ext_value_wf o v : ga_ok o -> ga_ext_value o = Some v -> ext_wf v.
Proof.
  intros Hok E.
  assert (U1 : cbor_wf (CText HMAC_SECRET) = true) by (vm_compute; reflexivity).
  destruct o as [[x|]|]; cbn [ga_ext_value] in E; try discriminate E.
  injection E as <-. split; [reflexivity|split].
  - apply cbor_wf_map; [|vm_compute; reflexivity].
    repeat constructor; cbn [fst snd]; try assumption. apply cbor_wf_bytes, (Hok x eq_refl).
  - cbn. unfold cbor_fuel. lia.
Qed.

(** ** EC2 public keys built by [CoseKeyBuilder] are inside the model *)
Definition alg_ok (alg : option Z) : Prop :=
  match alg with
  | None => True
  | Some a => i64_ok a = true /\ (zmem a ALGORITHMS = true \/ (a <? -65536)%Z = true)
  end.

Lemma ec2_key_norm crv x y alg : alg_ok alg ->
  cose_norm (ec2_pub_key crv x y alg) = Some (ec2_pub_key crv x y alg).
Proof.
  intros Ha. unfold cose_norm, cose_from_cbor, ec2_pub_key.
  assert (K : registered KEY_TYPES false (CInt 2) = Some (CInt 2)) by reflexivity.
  destruct alg as [a|]; cbn [app].
  - destruct Ha as [Hi Hm].
    assert (R : registered ALGORITHMS true (CInt a) = Some (CInt a)).
    { unfold registered. rewrite Hi. destruct Hm as [Hm|Hm]; rewrite Hm; [reflexivity|].
      destruct (zmem a ALGORITHMS); reflexivity. }
    cbn -[registered]. rewrite K. cbn -[registered]. rewrite R. cbn -[registered]. reflexivity.
  - cbn -[registered]. rewrite K. cbn -[registered]. reflexivity.
Qed.

Lemma ec2_key_in_model crv x y alg :
  (0 <= crv < 18446744073709551616)%Z -> vec_ok x -> vec_ok y -> alg_ok alg ->
  key_in_model (ec2_pub_key crv x y alg).
Proof.
  intros Hc Hx Hy Ha. split; [|split].
  - unfold ec2_pub_key. apply cbor_wf_map.
    + apply Forall_app. split; [repeat constructor|].
      apply Forall_app. split.
      * destruct alg as [a|]; [|constructor]. destruct Ha as [Hi _]. unfold i64_ok in Hi.
        repeat constructor. cbn [fst snd]. apply cbor_wf_int. lia.
      * repeat constructor; cbn [fst snd]; try (apply cbor_wf_bytes; assumption).
        apply cbor_wf_int. lia.
    + destruct alg; vm_compute; reflexivity.
  - unfold ec2_pub_key. destruct alg; cbn; unfold cbor_fuel; lia.
  - apply ec2_key_norm, Ha.
Qed.

Lemma key_in_model_map k : key_in_model k -> is_map k = true.
Proof.
  intros (_ & _ & H). unfold cose_norm in H. destruct (cose_from_cbor k); [|discriminate].
  injection H as <-. reflexivity.
Qed.

(** * The builder closure is well formed *)
Lemma set_extensions_wf ad e : ad_wf ad -> (forall v, e = Some v -> ext_wf v) -> ad_wf (set_extensions ad e).
Proof.
  intros W He. destruct e as [v|]; [|exact W]. specialize (He v eq_refl).
  destruct W as [W1 W2 W3 W4 W5 W6 W7 W8 W9].
  destruct (flag_facts_bit (ad_flags ad) F_ED W6 W7 (or_intror eq_refl)) as (A & B & C & _ & D).
  unfold set_extensions, set_flags, assign_ext.
  constructor; cbn [ad_rp_id_hash ad_flags ad_counter ad_acd ad_ext]; try assumption.
  - intros e [= <-]. exact He.
  - rewrite (D eq_refl). exact W8.
Qed.

Theorem built_wf sha256 ad : Built sha256 ad -> ad_wf ad.
Proof.
  induction 1 as [rp c H1 H2 H3|ad f B IH Hf|ad g id key a B IH Hg Hgo Hio Hk Ha|ad o B IH Ho|ad o B IH Ho|ad l B IH Hl].
  - constructor; cbn [ad_new ad_rp_id_hash ad_flags ad_counter ad_acd ad_ext]; try assumption;
      try discriminate; reflexivity.
  - destruct IH as [W1 W2 W3 W4 W5 W6 W7 W8 W9].
    destruct (flag_facts_user (ad_flags ad) f W6 Hf W7) as (A & B' & C & D).
    unfold set_flags. constructor; cbn [ad_rp_id_hash ad_flags ad_counter ad_acd ad_ext]; try assumption.
    + rewrite C. exact W8.
    + rewrite D. exact W9.
  - destruct IH as [W1 W2 W3 W4 W5 W6 W7 W8 W9].
    unfold acd_new in Ha. destruct (N.leb_spec (N.of_nat (length id)) 65535) as [L|L]; [|discriminate].
    injection Ha as <-.
    destruct (flag_facts_bit (ad_flags ad) F_AT W6 W7 (or_introl eq_refl)) as (A & B' & C & D & _).
    unfold set_acd, set_flags. constructor; cbn [ad_rp_id_hash ad_flags ad_counter ad_acd ad_ext]; try assumption.
    + intros a [= <-]. unfold acd_wf. cbn [acd_aaguid acd_cred_id acd_key]. auto.
    + rewrite (D eq_refl). exact W9.
  - apply set_extensions_wf; [exact IH|]. intros v E. eapply mc_ext_value_wf; eassumption.
  - apply set_extensions_wf; [exact IH|]. intros v E. eapply ga_ext_value_wf; eassumption.
  - apply set_extensions_wf; [exact IH|]. intros v [= <-]. exact Hl.
Qed.

(** * Encoding: [to_vec] produces the layout and never panics on well-formed values *)
Theorem to_vec_layout ad : ad_wf ad -> to_vec ad = Val (layout ad).
Proof.
  intros [W1 W2 W3 W4 W5 W6 W7 W8 W9]. unfold to_vec, layout, counter_of.
  destruct (ad_acd ad) as [a|] eqn:Ea; [|reflexivity].
  destruct (W4 a eq_refl) as (_ & _ & _ & L & _).
  unfold acd_bytes. apply N.leb_le in L. rewrite L.
  rewrite (lor_at_id _ W6 W8). reflexivity.
Qed.

Theorem acd_new_too_long aaguid id key : 65535 < N.of_nat (length id) -> acd_new aaguid id key = Err.
Proof. intros H. unfold acd_new. apply N.leb_gt in H. rewrite H. reflexivity. Qed.

Theorem acd_new_ok aaguid id key : N.of_nat (length id) <= 65535 ->
  acd_new aaguid id key = Val {| acd_aaguid := aaguid; acd_cred_id := id; acd_key := key |}.
Proof. intros H. unfold acd_new. apply N.leb_le in H. rewrite H. reflexivity. Qed.

(** * The independent layout decoder, equations *)
Lemma skipn_app_len {A} (h x : list A) n : length h = n -> skipn n (h ++ x) = x.
Proof. intros <-. rewrite skipn_app, skipn_all, Nat.sub_diag. reflexivity. Qed.

Lemma spec_acd_eq g hi lo id rest :
  length g = 16%nat -> N.to_nat (hi * 256 + lo) = length id ->
  spec_acd (g ++ hi :: lo :: id ++ rest) =
  match spec_map_item rest with Some (key, r) => Some (g, id, key, r) | None => None end.
Proof.
  intros Hg Hl. unfold spec_acd. set (X := id ++ rest).
  assert (E0 : (length (g ++ hi :: lo :: X) <? 18)%nat = false)
    by (apply Nat.ltb_ge; rewrite app_length; cbn [length]; lia).
  assert (E1 : firstn 16 (g ++ hi :: lo :: X) = g) by (apply firstn_app_len; exact Hg).
  assert (E2 : nth 16 (g ++ hi :: lo :: X) 0 = hi) by (exact (nth_app_off g (hi :: lo :: X) 16 0 0 Hg)).
  assert (E3 : nth 17 (g ++ hi :: lo :: X) 0 = lo) by (exact (nth_app_off g (hi :: lo :: X) 16 1 0 Hg)).
  assert (E4 : skipn 18 (g ++ hi :: lo :: X) = X) by (exact (skipn_app_off g (hi :: lo :: X) 16 2 Hg)).
  rewrite E0, E1, E2, E3, E4, Hl. subst X.
  replace (length (id ++ rest) <? length id)%nat with false
    by (symmetry; apply Nat.ltb_ge; rewrite app_length; lia).
  rewrite (firstn_app_len id rest _ eq_refl), (skipn_app_len id rest _ eq_refl). reflexivity.
Qed.

Definition spec_body (h : bytes) (f a b c d : N) (rest : bytes) : option fields :=
  match (if N.testbit f 6
         then match spec_acd rest with
              | Some (aaguid, id, key, r) => Some (Some (aaguid, id, key), r)
              | None => None
              end
         else Some (None, rest)) with
  | None => None
  | Some (acd, r1) =>
      match (if N.testbit f 7
             then match spec_map_item r1 with Some (e, r) => Some (Some e, r) | None => None end
             else Some (None, r1)) with
      | Some (ext, []) =>
          Some {| f_rp_id_hash := h; f_flags := f; f_sign_count := be32_dec a b c d; f_acd := acd; f_ext := ext |}
      | _ => None
      end
  end.

Lemma parse_authdata_spec_eq h f a b c d rest : length h = 32%nat ->
  parse_authdata_spec (h ++ f :: a :: b :: c :: d :: rest) = spec_body h f a b c d rest.
Proof.
  intros H. unfold parse_authdata_spec, spec_body. set (X := f :: a :: b :: c :: d :: rest).
  assert (E0 : (length (h ++ X) <? 37)%nat = false)
    by (apply Nat.ltb_ge; rewrite app_length; subst X; cbn [length]; lia).
  assert (E1 : firstn 32 (h ++ X) = h) by (apply firstn_app_len; exact H).
  assert (E2 : nth 32 (h ++ X) 0 = f) by (exact (nth_app_off h X 32 0 0 H)).
  assert (E3 : nth 33 (h ++ X) 0 = a) by (exact (nth_app_off h X 32 1 0 H)).
  assert (E4 : nth 34 (h ++ X) 0 = b) by (exact (nth_app_off h X 32 2 0 H)).
  assert (E5 : nth 35 (h ++ X) 0 = c) by (exact (nth_app_off h X 32 3 0 H)).
  assert (E6 : nth 36 (h ++ X) 0 = d) by (exact (nth_app_off h X 32 4 0 H)).
  assert (E7 : skipn 37 (h ++ X) = rest) by (exact (skipn_app_off h X 32 5 H)).
  rewrite E0, E1, E2, E3, E4, E5, E6, E7. reflexivity.
Qed.

Lemma be32_shape n : be32 n = [n / 16777216 mod 256; n / 65536 mod 256; n / 256 mod 256; n mod 256].
Proof. reflexivity. Qed.

Lemma layout_shape ad :
  layout ad = ad_rp_id_hash ad ++ ad_flags ad :: (counter_of ad / 16777216 mod 256)
    :: (counter_of ad / 65536 mod 256) :: (counter_of ad / 256 mod 256) :: (counter_of ad mod 256)
    :: ((match ad_acd ad with Some a => acd_layout a | None => [] end)
        ++ (match ad_ext ad with Some e => cbor_encode e | None => [] end)).
Proof. reflexivity. Qed.

Lemma acd_layout_shape a tail :
  acd_layout a ++ tail =
  acd_aaguid a ++ (N.of_nat (length (acd_cred_id a)) / 256 mod 256) :: (N.of_nat (length (acd_cred_id a)) mod 256)
    :: acd_cred_id a ++ (cbor_encode (acd_key a) ++ tail).
Proof. unfold acd_layout, be16. rewrite <- !app_assoc. reflexivity. Qed.

Lemma counter_of_lt ad : ad_wf ad -> counter_of ad < 4294967296.
Proof.
  intros W. unfold counter_of. destruct (ad_counter ad) as [c|] eqn:E; [|reflexivity].
  apply (wf_counter ad W c E).
Qed.


Lemma flags_from_bits_ok fl : fl < 256 -> N.land fl FLAGS_RESERVED = 0 -> flags_from_bits fl = Some fl.
Proof.
  intros Hfl Hr.
  pose proof (forall256 (fun fl => implb (N.land fl FLAGS_RESERVED =? 0) (N.land fl FLAGS_ALL =? fl))
                ltac:(vm_compute; reflexivity) fl Hfl) as P.
  cbv beta in P. apply N.eqb_eq in Hr. rewrite Hr in P. cbn [implb] in P.
  unfold flags_from_bits. rewrite P. reflexivity.
Qed.

Lemma app_split {A} (x y p s : list A) : x ++ y = p ++ s ->
  (exists l, l <> [] /\ x = p ++ l /\ s = l ++ y) \/ (exists l, p = x ++ l /\ y = l ++ s).
Proof.
  intros E. apply app_eq_app in E as [l [[E1 E2]|[E1 E2]]].
  - destruct l as [|z l].
    + right. exists []. rewrite app_nil_r in *. cbn [app] in *. auto.
    + left. exists (z :: l). repeat split; [discriminate|assumption|assumption].
  - right. exists l. auto.
Qed.

(** * Theorems that use the CBOR layer's theorems ([decode_encode], [decode_strict_prefix_none],
    [encode_ok] of Lib/CborFacts.v) *)
Section WithCbor.

  Lemma decode_encode_nil v : cbor_wf v = true -> (depth v < cbor_fuel)%nat ->
    cbor_decode cbor_fuel (cbor_encode v) = Some (v, []).
  Proof. intros W D. rewrite <- (app_nil_r (cbor_encode v)). apply decode_encode; assumption. Qed.

  (** ** the attested credential data section *)
  Lemma acd_from_reader_layout a tail : acd_wf a -> acd_from_reader (acd_layout a ++ tail) = Some (a, tail).
  Proof.
    intros (Hg & _ & _ & Hn & Hw & Hd & Hk). rewrite acd_layout_shape. destruct a as [g id k].
    cbn [acd_aaguid acd_cred_id acd_key] in *. unfold acd_from_reader.
    rewrite (tk_app g _ 16) by lia.
    set (n := N.of_nat (length id)) in *.
    change (n / 256 mod 256 :: n mod 256 :: id ++ cbor_encode k ++ tail)
      with ([n / 256 mod 256; n mod 256] ++ id ++ cbor_encode k ++ tail).
    rewrite (tk_app [_; _] _ 2) by reflexivity. cbv beta iota.
    rewrite be16_round by lia. rewrite (tk_app id _ n eq_refl).
    rewrite decode_encode by assumption. rewrite Hk. reflexivity.
  Qed.


  (** ** decoding what was encoded *)
  Theorem from_slice_layout ad : ad_wf ad -> from_slice (layout ad) = Val (normalise ad).
  Proof.
    intros W. pose proof (counter_of_lt ad W) as Hc. destruct W as [W1 W2 W3 W4 W5 W6 W7 W8 W9].
    rewrite layout_shape, from_slice_eq by exact W1. unfold from_slice_body, normalise.
    rewrite (flags_from_bits_ok _ W6 W7), W8, W9. rewrite be32_round by exact Hc.
    destruct (ad_acd ad) as [a|] eqn:Ea; cbn [is_some].
    - rewrite acd_from_reader_layout by (apply W4; reflexivity).
      destruct (ad_ext ad) as [e|] eqn:Ee; cbn [is_some]; [|reflexivity].
      destruct (W5 e eq_refl) as (_ & We & De). rewrite decode_encode_nil by assumption. reflexivity.
    - cbn [app]. destruct (ad_ext ad) as [e|] eqn:Ee; cbn [is_some]; [|reflexivity].
      destruct (W5 e eq_refl) as (_ & We & De). rewrite decode_encode_nil by assumption. reflexivity.
  Qed.

  (** ** the independent layout decoder reads the encoder's output back *)
  Lemma spec_map_item_encode v tail : cbor_wf v = true -> (depth v < cbor_fuel)%nat -> is_map v = true ->
    spec_map_item (cbor_encode v ++ tail) = Some (v, tail).
  Proof. intros W D M. unfold spec_map_item. rewrite decode_encode by assumption. rewrite M. reflexivity. Qed.

  Lemma spec_acd_layout a tail : acd_wf a ->
    spec_acd (acd_layout a ++ tail) = Some (acd_aaguid a, acd_cred_id a, acd_key a, tail).
  Proof.
    intros (Hg & _ & _ & Hn & Hk). rewrite acd_layout_shape.
    rewrite spec_acd_eq.
    - destruct Hk as (Hw & Hd & Hk). rewrite spec_map_item_encode; try assumption; [reflexivity|].
      apply key_in_model_map. repeat split; assumption.
    - exact Hg.
    - pose proof (be16_round (N.of_nat (length (acd_cred_id a))) ltac:(lia)) as E. unfold be16_dec in E.
      rewrite E. apply Nat2N.id.
  Qed.

  Theorem spec_layout ad : ad_wf ad -> parse_authdata_spec (layout ad) = Some (fields_of ad).
  Proof.
    intros W. pose proof (counter_of_lt ad W) as Hc. destruct W as [W1 W2 W3 W4 W5 W6 W7 W8 W9].
    rewrite layout_shape, parse_authdata_spec_eq by exact W1. unfold spec_body, fields_of.
    destruct (testbits _ W6) as [T6 T7]. rewrite T6, T7, W8, W9. rewrite be32_round by exact Hc.
    destruct (ad_acd ad) as [a|] eqn:Ea; cbn [is_some].
    - rewrite spec_acd_layout by (apply W4; reflexivity).
      destruct (ad_ext ad) as [e|] eqn:Ee; cbn [is_some]; [|reflexivity].
      destruct (W5 e eq_refl) as (Me & We & De).
      rewrite <- (app_nil_r (cbor_encode e)). rewrite spec_map_item_encode by assumption. reflexivity.
    - cbn [app]. destruct (ad_ext ad) as [e|] eqn:Ee; cbn [is_some]; [|reflexivity].
      destruct (W5 e eq_refl) as (Me & We & De).
      rewrite <- (app_nil_r (cbor_encode e)). rewrite spec_map_item_encode by assumption. reflexivity.
  Qed.

  (** the encoder's output is a byte string *)
  Theorem layout_bytes_ok ad : ad_wf ad -> bytes_ok (layout ad).
  Proof.
    intros [W1 W2 W3 W4 W5 W6 W7 W8 W9]. rewrite layout_shape.
    apply bytes_ok_app. split; [exact W2|].
    constructor; [exact W6|]. repeat (constructor; [apply mod256_ok|]).
    apply bytes_ok_app. split.
    - destruct (ad_acd ad) as [a|]; [|constructor].
      destruct (W4 a eq_refl) as (_ & Hg & Hi & _ & Hw & _). unfold acd_layout, be16.
      apply bytes_ok_app. split; [exact Hg|]. apply bytes_ok_app. split.
      + repeat (constructor; [apply mod256_ok|]). constructor.
      + apply bytes_ok_app. split; [exact Hi|]. apply encode_ok, Hw.
    - destruct (ad_ext ad) as [e|]; [|constructor]. destruct (W5 e eq_refl) as (_ & We & _).
      apply encode_ok, We.
  Qed.

  (** ** truncations *)
  Lemma acd_from_reader_prefix a tail p s : acd_wf a -> acd_layout a ++ tail = p ++ s -> s <> [] ->
    acd_from_reader p = None \/ exists p', p = acd_layout a ++ p' /\ tail = p' ++ s.
  Proof.
    intros W E Hs. pose proof W as (Hg & _ & _ & Hn & Hw & Hd & Hk).
    rewrite acd_layout_shape in E. set (n := N.of_nat (length (acd_cred_id a))) in *.
    apply app_split in E as [(l & Hl & E1 & E2)|(p1 & -> & E)].
    { left. unfold acd_from_reader. rewrite tk_none; [reflexivity|].
      apply (f_equal (@length N)) in E1. rewrite app_length in E1. destruct l; [congruence|]. cbn [length] in E1. lia. }
    change (n / 256 mod 256 :: n mod 256 :: acd_cred_id a ++ cbor_encode (acd_key a) ++ tail)
      with ([n / 256 mod 256; n mod 256] ++ acd_cred_id a ++ cbor_encode (acd_key a) ++ tail) in E.
    apply app_split in E as [(l & Hl & E1 & E2)|(p2 & -> & E)].
    { left. unfold acd_from_reader. rewrite (tk_app _ _ 16) by lia. rewrite tk_none; [reflexivity|].
      apply (f_equal (@length N)) in E1. rewrite app_length in E1. destruct l; [congruence|]. cbn [length] in E1. lia. }
    apply app_split in E as [(l & Hl & E1 & E2)|(p3 & -> & E)].
    { left. unfold acd_from_reader. rewrite (tk_app _ _ 16) by lia.
      rewrite (tk_app [_; _] _ 2) by reflexivity. cbv beta iota. rewrite be16_round by lia.
      rewrite tk_none; [reflexivity|]. fold n.
      apply (f_equal (@length N)) in E1. rewrite app_length in E1. destruct l; [congruence|]. cbn [length] in E1. lia. }
    apply app_split in E as [(l & Hl & E1 & E2)|(p4 & -> & E)].
    { left. unfold acd_from_reader. rewrite (tk_app _ _ 16) by lia.
      rewrite (tk_app [_; _] _ 2) by reflexivity. cbv beta iota. rewrite be16_round by lia.
      rewrite (tk_app (acd_cred_id a) _ n eq_refl).
      rewrite (decode_strict_prefix_none cbor_fuel (acd_key a) p3 l) by assumption. reflexivity. }
    right. exists p4. split; [|exact E]. rewrite acd_layout_shape. reflexivity.
  Qed.

  Lemma body_truncated h fl a b c d oa oe p s :
    fl < 256 -> N.land fl FLAGS_RESERVED = 0 ->
    (forall x, oa = Some x -> acd_wf x) -> (forall e, oe = Some e -> ext_wf e) ->
    has_flag fl F_AT = is_some oa -> has_flag fl F_ED = is_some oe ->
    (match oa with Some x => acd_layout x | None => [] end)
      ++ (match oe with Some e => cbor_encode e | None => [] end) = p ++ s ->
    s <> [] ->
    from_slice_body h fl a b c d p = Err.
  Proof.
    intros Hfl Hr Wa We Hat Hed E Hs. unfold from_slice_body.
    rewrite (flags_from_bits_ok _ Hfl Hr), Hat, Hed.
    destruct oa as [x|]; cbn [is_some].
    - destruct (acd_from_reader_prefix x _ p s (Wa x eq_refl) E Hs) as [N|(p' & -> & E')].
      + rewrite N. reflexivity.
      + rewrite acd_from_reader_layout by (apply Wa; reflexivity).
        destruct oe as [e|]; cbn [is_some].
        * destruct (We e eq_refl) as (_ & W & D).
          rewrite (decode_strict_prefix_none cbor_fuel e p' s) by assumption. reflexivity.
        * exfalso. destruct p'; [|discriminate E']. cbn [app] in E'. congruence.
    - cbn [app] in E. destruct oe as [e|]; cbn [is_some].
      + destruct (We e eq_refl) as (_ & W & D).
        rewrite (decode_strict_prefix_none cbor_fuel e p s) by assumption. reflexivity.
      + exfalso. destruct p; [|discriminate E]. cbn [app] in E. congruence.
  Qed.

  (** every strict prefix of a valid encoding is rejected: shorter than the header, or a flagged
      section is missing or cut anywhere (inside the aaguid, the length, the id, the COSE key or
      the extension map) *)
  Theorem from_slice_truncated ad n : ad_wf ad -> (n < length (layout ad))%nat ->
    from_slice (firstn n (layout ad)) = Err.
  Proof.
    intros W Hn. destruct (Nat.lt_ge_cases n 37) as [Hs|Hs].
    - apply from_slice_short. rewrite firstn_length. lia.
    - destruct W as [W1 W2 W3 W4 W5 W6 W7 W8 W9].
      rewrite layout_shape in *.
      set (rest := (match ad_acd ad with Some a => acd_layout a | None => [] end)
                   ++ (match ad_ext ad with Some e => cbor_encode e | None => [] end)) in *.
      replace n with (32 + (5 + (n - 37)))%nat by lia.
      rewrite (firstn_app_off _ _ 32 _ W1). cbn [Nat.add firstn].
      rewrite from_slice_eq by exact W1.
      apply (body_truncated _ _ _ _ _ _ (ad_acd ad) (ad_ext ad) _ (skipn (n - 37) rest)); try assumption.
      + fold rest. symmetry. apply firstn_skipn.
      + intros E. apply (f_equal (@length N)) in E. rewrite skipn_length in E.
        rewrite app_length in Hn. cbn [length] in *. lia.
  Qed.
End WithCbor.

(** * The statements of C12 over values built with the constructor and the setters *)
Section BuiltTheorems.
  Variable sha256 : bytes -> bytes.
  Variable ad : authdata.
  Hypothesis B : Built sha256 ad.

  Theorem built_to_vec : to_vec ad = Val (layout ad).
  Proof. apply to_vec_layout, (built_wf _ _ B). Qed.

  Theorem built_spec : parse_authdata_spec (layout ad) = Some (fields_of ad).
  Proof. apply spec_layout, (built_wf _ _ B). Qed.

  Theorem built_flag_bits :
    N.testbit (ad_flags ad) 6 = is_some (ad_acd ad) /\ N.testbit (ad_flags ad) 7 = is_some (ad_ext ad) /\
    N.land (ad_flags ad) FLAGS_RESERVED = 0.
  Proof.
    destruct (built_wf _ _ B) as [W1 W2 W3 W4 W5 W6 W7 W8 W9]. destruct (testbits _ W6) as [T6 T7].
    rewrite T6, T7. auto.
  Qed.

  Theorem built_round_trip : from_slice (layout ad) = Val (normalise ad).
  Proof. apply from_slice_layout, (built_wf _ _ B). Qed.

  Theorem built_truncated n : (n < length (layout ad))%nat -> from_slice (firstn n (layout ad)) = Err.
  Proof. apply from_slice_truncated, (built_wf _ _ B). Qed.

  Theorem built_bytes_ok : bytes_ok (layout ad).
  Proof. apply layout_bytes_ok, (built_wf _ _ B). Qed.
End BuiltTheorems.

(** * What [to_vec] does on a struct that was NOT built with the setters (observation).
    [extensions] is a pub field; assigning it leaves ED clear, and [to_vec] does not set it either
    (it does OR in AT for attested credential data).  The bytes then carry the extension map after
    a flags byte that says there is none: not a WebAuthn layout (something follows the last flagged
    section), and [from_slice] silently drops the map. *)
Definition hand_built : authdata :=
  assign_ext (ad_new (fun _ => repeat 0 32) [] None) (Some (CMap [(CText [97], CInt 1)])).

Example hand_built_ext_without_ed :
  to_vec hand_built = Val (repeat 0 32 ++ [24] ++ [0; 0; 0; 0] ++ [161; 97; 97; 1])
  /\ parse_authdata_spec (repeat 0 32 ++ [24] ++ [0; 0; 0; 0] ++ [161; 97; 97; 1]) = None
  /\ from_slice (repeat 0 32 ++ [24] ++ [0; 0; 0; 0] ++ [161; 97; 97; 1])
     = Val (normalise (assign_ext hand_built None)).
Proof. vm_compute. repeat split. Qed.

(** * The builder programs of the correspondence runs stay inside [Built] *)
Definition step_ok (s : step) : Prop :=
  match s with
  | SFlags f => N.land f FLAGS_USER = f
  | SAcd g id key => length g = 16%nat /\ bytes_ok g /\ bytes_ok id /\ key_in_model key
  | SMc o => mc_ok o
  | SGa o => ga_ok o
  | SRaw _ | SAcdRaw _ _ _ => False        (* assignments to the pub fields are not setters *)
  end.

Theorem run_steps_built sha256 steps : forall ad ad',
  Built sha256 ad -> Forall step_ok steps -> run_steps ad steps = Val ad' -> Built sha256 ad'.
Proof.
  induction steps as [|s r IH]; intros ad ad' B F E; cbn [run_steps] in E.
  - injection E as <-. exact B.
  - inversion F as [|s' r' Hs Hr]; subst.
    destruct (apply_step ad s) as [ad1| |] eqn:A; try discriminate E.
    apply (IH ad1 ad'); [|exact Hr|exact E].
    destruct s as [f|g id key|o|o|e|g id key]; cbn [apply_step step_ok] in A, Hs.
    + injection A as <-. apply B_flags; assumption.
    + destruct (acd_new g id key) as [a| |] eqn:N; try discriminate A. injection A as <-.
      destruct Hs as (H1 & H2 & H3 & H4). eapply B_acd; eassumption.
    + injection A as <-. apply B_mc; assumption.
    + injection A as <-. apply B_ga; assumption.
    + contradiction.
    + contradiction.
Qed.

(** the same three facts for every well-formed value, built by the setters or not
    ([ad_wf] allows any flag byte without reserved bits whose AT/ED bits match the sections) *)
Theorem wf_encode_decode ad : ad_wf ad ->
  to_vec ad = Val (layout ad) /\ parse_authdata_spec (layout ad) = Some (fields_of ad) /\
  from_slice (layout ad) = Val (normalise ad).
Proof.
  intros W. split; [apply to_vec_layout, W|]. split; [apply spec_layout, W|apply from_slice_layout, W].
Qed.
