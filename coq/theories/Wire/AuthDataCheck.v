(** Correspondence checks and the property oracle for the authenticator-data domain (C12).
    Everything here is executable and is evaluated by generated case files. *)
From PK Require Import Lib.Bytes Lib.Check Lib.Cbor Wire.AuthData Wire.AuthDataSpec.
Open Scope N_scope.

(** run-length literal used by the driver for long constant stretches *)
Definition rep (b n : N) : bytes := repeat b (N.to_nat n).

(** ** Cases *)
Inductive cstep :=
| KFlags (f : N)                                                   (* set_flags(Flags::from_bits(f)) *)
| KAcd (aaguid id : bytes) (crv : Z) (x y : bytes) (alg : option Z)   (* AttestedCredentialData::new + setter, EC2 key from CoseKeyBuilder *)
| KMc (o : option (option bool * option bytes))                    (* set_make_credential_extensions *)
| KGa (o : option (option bytes))                                  (* set_assertion_extensions *)
| KRaw (e : option bytes)                                          (* ad.extensions = from_reader(e) : assignment to the pub field *)
| KAcdRaw (aaguid id : bytes) (crv : Z) (x y : bytes) (alg : option Z).   (* ad.attested_credential_data = Some(new(..)?) : pub field *)

Inductive enc_obs :=
| EAcdErr                                                          (* AttestedCredentialData::new returned Err *)
| EPanic
| EBytes (b : bytes) (flags : N) (ext_field : option bytes).       (* to_vec(), flags.bits(), the extensions field re-serialised *)

Inductive dec_obs :=
| DErr
| DPanic
| DSame (flags counter : N)        (* accepted, and to_vec() of the result is the input again *)
| DPrefix (n : N) (flags counter : N)   (* accepted, and to_vec() of the result is the first n bytes of the input *)
| DVal (hash : bytes) (flags counter : N)
       (acd : option (bytes * bytes * bytes))                      (* aaguid, id, key.to_vec() *)
       (ext : option bytes) (float : bool).                        (* extensions re-serialised; does key or extensions contain a float
                                                                      (ciborium re-encodes floats at the shortest exact width: bytes not compared) *)

Inductive adcase :=
| CEnc (rp_hash : bytes) (counter : option N) (steps : list cstep) (impl : enc_obs)
| CDec (input : bytes) (impl : dec_obs)
| CCuts (orig : bytes) (impl : list dec_obs)                       (* impl[n] = from_slice (first n bytes), n = 0..len *)
| CFlips (orig : bytes) (impl : list (N * N * dec_obs))            (* position, new byte, from_slice of the corrupted copy *)
| CSweep (orig : bytes) (pos : N) (impl : list dec_obs)            (* impl[x] = from_slice of the copy with byte pos := x, x = 0..255 *)
| CAcdNew (len : N) (impl_ok : bool)
| CCose (input : bytes) (impl : option (option bytes)).            (* not CBOR | from_cbor_value Err | Ok: to_vec() *)

(** ** model = implementation *)
Definition to_step (s : cstep) : option step :=
  match s with
  | KFlags f => Some (SFlags f)
  | KAcd g id crv x y alg => Some (SAcd g id (ec2_pub_key crv x y alg))
  | KMc o => Some (SMc o)
  | KGa o => Some (SGa o)
  | KAcdRaw g id crv x y alg => Some (SAcdRaw g id (ec2_pub_key crv x y alg))
  | KRaw None => Some (SRaw None)
  | KRaw (Some b) => match cbor_read b with Some v => Some (SRaw (Some v)) | None => None end
  end.

Fixpoint to_steps (l : list cstep) : option (list step) :=
  match l with
  | [] => Some []
  | s :: r =>
      match to_step s, to_steps r with
      | Some s', Some r' => Some (s' :: r')
      | _, _ => None
      end
  end.

Definition enc_agree (rp_hash : bytes) (counter : option N) (steps : list cstep) (impl : enc_obs) : bool :=
  match to_steps steps with
  | None => false                                                  (* ill-formed case *)
  | Some st =>
      match run_steps (ad_new (fun _ => rp_hash) [] counter) st, impl with
      | Err, EAcdErr => true
      | Val ad, EBytes b fl extf =>
          match to_vec ad with
          | Val b' =>
              beq b' b && (ad_flags ad =? fl)
              && opt_eqb beq (match ad_ext ad with Some e => Some (cbor_encode e) | None => None end) extf
          | _ => false
          end
      | _, _ => false
      end
  end.

Definition dec_agree (input : bytes) (o : dec_obs) : bool :=
  match from_slice input, o with
  | Err, DErr => true
  | Panic, DPanic => true
  | Val ad, DSame fl c =>
      (ad_flags ad =? fl) && opt_eqb N.eqb (ad_counter ad) (Some c)
      && match to_vec ad with Val b => beq b input | _ => false end
  | Val ad, DPrefix n fl c =>
      (ad_flags ad =? fl) && opt_eqb N.eqb (ad_counter ad) (Some c)
      && match to_vec ad with Val b => beq b (firstn (N.to_nat n) input) | _ => false end
  | Val ad, DVal h fl c a e flt =>
      beq (ad_rp_id_hash ad) h && (ad_flags ad =? fl) && opt_eqb N.eqb (ad_counter ad) (Some c)
      && match ad_acd ad, a with
         | None, None => true
         | Some x, Some (g, id, kb) =>
             beq (acd_aaguid x) g && beq (acd_cred_id x) id && (flt || beq (cbor_encode (acd_key x)) kb)
         | _, _ => false
         end
      && match ad_ext ad, e with
         | None, None => true
         | Some v, Some eb => flt || beq (cbor_encode v) eb
         | _, _ => false
         end
  | _, _ => false
  end.

Definition set_nth (pos : nat) (x : N) (l : bytes) : bytes := firstn pos l ++ x :: skipn (S pos) l.

Fixpoint cuts_all (f : bytes -> dec_obs -> bool) (orig : bytes) (n : nat) (impl : list dec_obs) : bool :=
  match impl with
  | [] => true
  | o :: r => f (firstn n orig) o && cuts_all f orig (S n) r
  end.

Fixpoint sweep_all (f : bytes -> dec_obs -> bool) (orig : bytes) (pos : nat) (x : N) (impl : list dec_obs) : bool :=
  match impl with
  | [] => true
  | o :: r => f (set_nth pos x orig) o && sweep_all f orig pos (x + 1) r
  end.

(** short names for the generated sweeps *)
Definition dE : dec_obs := DErr.
Definition dS : N -> N -> dec_obs := DSame.
Definition dP : N -> N -> N -> dec_obs := DPrefix.

Definition agree (c : adcase) : bool :=
  match c with
  | CEnc h cnt steps impl => enc_agree h cnt steps impl
  | CDec input impl => dec_agree input impl
  | CCuts orig impl => (length impl =? S (length orig))%nat && cuts_all dec_agree orig 0 impl
  | CFlips orig impl =>
      forallb (fun t => let '(pos, x, o) := t in dec_agree (set_nth (N.to_nat pos) x orig) o) impl
  | CSweep orig pos impl => (length impl =? 256)%nat && sweep_all dec_agree orig (N.to_nat pos) 0 impl
  | CAcdNew len ok =>
      match acd_new [] (rep 0 len) CNull with
      | Val _ => ok
      | _ => negb ok
      end
  | CCose input impl =>
      match cbor_read input, impl with
      | None, None => true
      | Some v, Some r =>
          match cose_norm v, r with
          | None, None => true
          | Some k, Some re => beq (cbor_encode k) re
          | _, _ => false
          end
      | _, _ => false
      end
  end.

(** ** the property, on the implementation's observation alone *)

(** the steps of a case stay inside the property's quantifier: setters only, user flags within
    {UP, UV, BE, BS} *)
Definition step_in_scope (s : cstep) : bool :=
  match s with
  | KFlags f => N.land f 29 =? f
  | KRaw _ | KAcdRaw _ _ _ _ _ _ => false
  | _ => true
  end.

Definition id_too_long (s : cstep) : bool :=
  match s with
  | KAcd _ id _ _ _ _ | KAcdRaw _ id _ _ _ _ => 65535 <? N.of_nat (length id)
  | _ => false
  end.

(** what the byte string must say, computed from the inputs without the model's encoder:
    flags = BE|BS | user flags | AT iff attested credential data was set | ED iff an extension
    output was set; the last attested credential data; the last non-empty extension output
    (a setter call without content changes nothing, one with content overwrites). *)
Fixpoint expected (steps : list cstep) (flags : N) (acd : option (bytes * bytes * cbor)) (ext : option cbor)
  : N * option (bytes * bytes * cbor) * option cbor :=
  match steps with
  | [] => (flags, acd, ext)
  | KFlags f :: r => expected r (N.lor flags f) acd ext
  | KAcd g id crv x y alg :: r => expected r (N.lor flags 64) (Some (g, id, ec2_pub_key crv x y alg)) ext
  | KMc o :: r =>
      match mc_ext_value o with
      | Some v => expected r (N.lor flags 128) acd (Some v)
      | None => expected r flags acd ext
      end
  | KGa o :: r =>
      match ga_ext_value o with
      | Some v => expected r (N.lor flags 128) acd (Some v)
      | None => expected r flags acd ext
      end
  | KRaw _ :: r | KAcdRaw _ _ _ _ _ _ :: r => expected r flags acd ext
  end.

Definition enc_oracle (rp_hash : bytes) (counter : option N) (steps : list cstep) (impl : enc_obs) : bool :=
  match impl with
  | EPanic => false
  | EAcdErr => existsb id_too_long steps             (* refusing is right exactly for ids above 65535 bytes *)
  | EBytes b fl _ =>
      negb (existsb id_too_long steps)
      && (if forallb step_in_scope steps then
            let '(flags, acd, ext) := expected steps 24 None None in
            (fl =? flags)
            && Bool.eqb (N.testbit flags 6) (match acd with Some _ => true | None => false end)
            && Bool.eqb (N.testbit flags 7) (match ext with Some _ => true | None => false end)
            && match parse_authdata_spec b with
               | Some f =>
                   fields_eqb f {| f_rp_id_hash := rp_hash; f_flags := flags;
                                   f_sign_count := match counter with Some c => c | None => 0 end;
                                   f_acd := acd; f_ext := ext |}
               | None => false
               end
          else true)
  end.

(** requirements on one [from_slice] observation that follow from the property whatever the input *)
Definition dec_oracle (input : bytes) (o : dec_obs) : bool :=
  let short := (length input <? 37)%nat in
  let fb := nth 32 input 0 in
  let reserved := negb (N.land fb 34 =? 0) in
  let cnt := nth 33 input 0 * 16777216 + nth 34 input 0 * 65536 + nth 35 input 0 * 256 + nth 36 input 0 in
  match o with
  | DPanic => false
  | DErr => true
  | DSame fl c | DPrefix _ fl c => negb short && negb reserved && (fl =? fb) && (c =? cnt)
  | DVal h fl c a e _ =>
      negb short && negb reserved && (fl =? fb) && (c =? cnt) && beq h (firstn 32 input)
      && Bool.eqb (N.testbit fb 6) (match a with Some _ => true | None => false end)
      && Bool.eqb (N.testbit fb 7) (match e with Some _ => true | None => false end)
  end.

Definition is_derr (o : dec_obs) : bool := match o with DErr => true | _ => false end.

(** [orig] is a valid encoding (by the independent layout decoder): every strict prefix must be
    rejected, the whole must be accepted with the fields the layout decoder reads *)
Definition cut_oracle (f : fields) (orig : bytes) (input : bytes) (o : dec_obs) : bool :=
  if (length input <? length orig)%nat then is_derr o
  else
    match o with
    | DSame fl c => (fl =? f_flags f) && (c =? f_sign_count f)
    | DVal h fl c a e _ =>
        beq h (f_rp_id_hash f) && (fl =? f_flags f) && (c =? f_sign_count f)
        && match a, f_acd f with
           | None, None => true
           | Some (g, id, kb), Some (g', id', k') => beq g g' && beq id id' && beq kb (cbor_encode k')
           | _, _ => false
           end
        && match e, f_ext f with
           | None, None => true
           | Some eb, Some e' => beq eb (cbor_encode e')
           | _, _ => false
           end
    | _ => false
    end.

Definition oracle (c : adcase) : bool :=
  match c with
  | CEnc h cnt steps impl => enc_oracle h cnt steps impl
  | CDec input impl => dec_oracle input impl
  | CCuts orig impl =>
      match parse_authdata_spec orig with
      | Some f => cuts_all (fun i o => dec_oracle i o && cut_oracle f orig i o) orig 0 impl
      | None => false                                              (* the driver only cuts valid encodings *)
      end
  | CFlips orig impl =>
      forallb (fun t => let '(pos, x, o) := t in dec_oracle (set_nth (N.to_nat pos) x orig) o) impl
  | CSweep orig pos impl => sweep_all dec_oracle orig (N.to_nat pos) 0 impl
  | CAcdNew len ok => Bool.eqb ok (len <=? 65535)
  | CCose _ _ => true                                              (* model correspondence only (third-party coset) *)
  end.
