(** Authenticator data (passkey-types/src/ctap2/attestation_fmt.rs, flags.rs, aaguid.rs) —
    executable model only (proofs are in [AuthDataFacts.v]).

    Modelled line by line: [Flags::from_bits], [Flags::default], [AuthenticatorData::{new,
    set_flags, set_attested_credential_data, set_make_credential_extensions,
    set_assertion_extensions, to_vec, from_slice}], [AttestedCredentialData::{new, into_iter,
    from_reader}].  Every [split_at], index and [unwrap] of the source is an explicit [Panic]
    branch, so "never panics" is a theorem and not a modelling decision.

    Third-party code is modelled, not verified (DESIGN.md §7):
    - [ciborium] through [Lib/Cbor.v]: [cbor_encode] = [ciborium::ser::into_writer(&Value, ..)],
      [cbor_decode cbor_fuel] = [ciborium::de::from_reader::<Value>] reading from a cursor (it
      consumes exactly one item and leaves the cursor behind it).
    - [coset::CoseKey]: a key is represented by the CBOR map that [CoseKey::to_cbor_value] yields
      for it ([cose_to_cbor]); [cose_from_cbor] is [CoseKey::from_cbor_value] (coset 0.3.8,
      key/mod.rs + common/mod.rs + the IANA tables of iana/mod.rs), complete for every
      [ciborium::Value] (label kinds, duplicate labels, kty/alg/key_ops registries, kid/base-iv
      non-empty, ordering of key_ops); [cose_norm] = from_cbor_value followed by to_cbor_value.
      The keys inside the model are the values [k] with [cose_norm k = Some k] ([cose_key_okb]):
      exactly the CBOR values that [to_cbor_value] produces for a [CoseKey] that
      [from_cbor_value] can return.  All EC2 public keys built by
      [CoseKeyBuilder::new_ec2_pub_key(crv, x, y)[.algorithm(alg)]] are of this kind
      ([ec2_pub_key], lemma [ec2_key_ok]).  Outside: hand-built [CoseKey] structs that coset itself
      cannot read back ([kty = Reserved], repeated labels in [params] (on which
      [key.to_vec().unwrap()] in [into_iter] panics), empty-but-present fields, ...).
    - the [serde] derive of the two [SignedExtensionOutputs] structs into [ciborium::Value]
      ([Value::serialized]): [mc_ext_value], [ga_ext_value].
    - SHA-256 is a parameter of [ad_new]. *)
From PK Require Import Lib.Bytes Lib.Cbor.
Open Scope N_scope.

Inductive outcome (A : Type) : Type :=
| Val (a : A)
| Err            (* the function returned [Err(_)] (the kind is not modelled) *)
| Panic.         (* a [split_at]/index/[unwrap] of the source would panic *)
Arguments Val {A} a.
Arguments Err {A}.
Arguments Panic {A}.

(** ** flags.rs *)
Definition F_UP : N := 1.
Definition F_UV : N := 4.
Definition F_BE : N := 8.
Definition F_BS : N := 16.
Definition F_AT : N := 64.
Definition F_ED : N := 128.
(** [Flags::all().bits()] = UP|UV|BE|BS|AT|ED; the remaining bits 0x02 and 0x20 are reserved *)
Definition FLAGS_ALL : N := 221.
Definition FLAGS_USER : N := 29.            (* UP|UV|BE|BS *)
Definition FLAGS_RESERVED : N := 34.        (* 0x02 | 0x20 *)
Definition FLAGS_DEFAULT : N := 24.         (* [Flags::default()] = BE | BS *)

(** bitflags 2: [from_bits(b)] = [Some] iff [b & all == b] *)
Definition flags_from_bits (b : N) : option N :=
  if N.land b FLAGS_ALL =? b then Some b else None.
(** [Flags::contains] for a single-bit flag *)
Definition has_flag (flags bit : N) : bool := negb (N.land flags bit =? 0).

(** ** coset: CoseKey <-> ciborium::Value *)
Definition i64_ok (z : Z) : bool := ((-9223372036854775808 <=? z) && (z <=? 9223372036854775807))%Z.

(** iana::KeyType, iana::Algorithm, iana::KeyOperation of coset 0.3.8 *)
Definition KEY_TYPES : list Z := [0; 1; 2; 3; 4; 5; 6]%Z.
Definition ALGORITHMS : list Z :=
  [-65535; -260; -259; -258; -257; -47; -46; -45; -44; -43; -42; -41; -40; -39; -38; -37; -36; -35;
   -34; -33; -32; -31; -30; -29; -28; -27; -26; -25; -18; -17; -16; -15; -14; -13; -12; -11; -10;
   -8; -7; -6; -5; -4; -3; 0; 1; 2; 3; 4; 5; 6; 7; 10; 11; 12; 13; 14; 15; 24; 25; 26; 30; 31; 32;
   33; 34]%Z.
Definition KEY_OPS : list Z := [1; 2; 3; 4; 5; 6; 7; 8; 9; 10]%Z.
Definition zmem (z : Z) (l : list Z) : bool := existsb (Z.eqb z) l.

(** [Label::from_cbor_value]: an integer that fits [i64], or text *)
Definition cose_label (k : cbor) : option cbor :=
  match k with
  | CInt z => if i64_ok z then Some k else None
  | CText _ => Some k
  | _ => None
  end.

(** [RegisteredLabel<T>::from_cbor_value] ([priv = false]) and
    [RegisteredLabelWithPrivate<T>::from_cbor_value] ([priv = true], private use below -65536) *)
Definition registered (assigned : list Z) (priv : bool) (v : cbor) : option cbor :=
  match v with
  | CInt z =>
      if i64_ok z then
        if zmem z assigned then Some v
        else if priv && (z <? -65536)%Z then Some v
        else None
      else None
  | CText _ => Some v
  | _ => None
  end.

(** [try_as_nonempty_bytes] *)
Definition nonempty_bytes (v : cbor) : option bytes :=
  match v with
  | CBytes (x :: r) => Some (x :: r)
  | _ => None
  end.

Record cosekey := {
  ck_kty : cbor;                       (* CInt / CText; [CInt 0] = the default, Assigned(Reserved) *)
  ck_kid : bytes;                      (* empty = absent *)
  ck_alg : option cbor;
  ck_ops : list cbor;                  (* the BTreeSet, in its iteration order *)
  ck_iv : bytes;                       (* empty = absent *)
  ck_params : list (cbor * cbor)       (* all other labels, in wire order *)
}.
Definition ck_default : cosekey :=
  {| ck_kty := CInt 0; ck_kid := []; ck_alg := None; ck_ops := []; ck_iv := []; ck_params := [] |}.

(** strict lexicographic order on byte strings ([str::cmp] is byte-wise) *)
Fixpoint bytes_lt (a b : bytes) : bool :=
  match a, b with
  | _, [] => false
  | [], _ :: _ => true
  | x :: a', y :: b' => if x <? y then true else if y <? x then false else bytes_lt a' b'
  end.

(** [Ord for RegisteredLabel<KeyOperation>]: assigned values (all positive here, so numeric order)
    before text; text by length, then lexicographically *)
Definition op_lt (a b : cbor) : bool :=
  match a, b with
  | CInt x, CInt y => (x <? y)%Z
  | CInt _, CText _ => true
  | CText s, CText t =>
      if (length s <? length t)%nat then true
      else if (length t <? length s)%nat then false
      else bytes_lt s t
  | _, _ => false
  end.

(** [BTreeSet::insert] returning [false] on a value already present is an error in coset *)
Fixpoint ops_insert (x : cbor) (l : list cbor) : option (list cbor) :=
  match l with
  | [] => Some [x]
  | y :: r =>
      if cbor_eqb x y then None
      else if op_lt x y then Some (x :: l)
      else match ops_insert x r with Some r' => Some (y :: r') | None => None end
  end.

Fixpoint ops_collect (l : list cbor) (acc : list cbor) : option (list cbor) :=
  match l with
  | [] => Some acc
  | v :: r =>
      match registered KEY_OPS false v with
      | None => None
      | Some op => match ops_insert op acc with None => None | Some acc' => ops_collect r acc' end
      end
  end.

(** the loop of [CoseKey::from_cbor_value] over the map entries; [seen] = labels so far *)
Fixpoint cose_fold (l : list (cbor * cbor)) (seen : list cbor) (k : cosekey) : option cosekey :=
  match l with
  | [] => Some k
  | (lab, v) :: r =>
      match cose_label lab with
      | None => None
      | Some lb =>
          if existsb (cbor_eqb lb) seen then None      (* DuplicateMapKey *)
          else
            let seen' := lb :: seen in
            match lb with
            | CInt 1 =>
                match registered KEY_TYPES false v with
                | Some t => cose_fold r seen' {| ck_kty := t; ck_kid := ck_kid k; ck_alg := ck_alg k;
                                                 ck_ops := ck_ops k; ck_iv := ck_iv k; ck_params := ck_params k |}
                | None => None
                end
            | CInt 2 =>
                match nonempty_bytes v with
                | Some b => cose_fold r seen' {| ck_kty := ck_kty k; ck_kid := b; ck_alg := ck_alg k;
                                                 ck_ops := ck_ops k; ck_iv := ck_iv k; ck_params := ck_params k |}
                | None => None
                end
            | CInt 3 =>
                match registered ALGORITHMS true v with
                | Some a => cose_fold r seen' {| ck_kty := ck_kty k; ck_kid := ck_kid k; ck_alg := Some a;
                                                 ck_ops := ck_ops k; ck_iv := ck_iv k; ck_params := ck_params k |}
                | None => None
                end
            | CInt 4 =>
                match v with
                | CArr ops =>
                    match ops_collect ops (ck_ops k) with
                    | Some (o :: os) =>
                        cose_fold r seen' {| ck_kty := ck_kty k; ck_kid := ck_kid k; ck_alg := ck_alg k;
                                             ck_ops := o :: os; ck_iv := ck_iv k; ck_params := ck_params k |}
                    | _ => None                        (* bad entry, repeated entry, or empty array *)
                    end
                | _ => None
                end
            | CInt 5 =>
                match nonempty_bytes v with
                | Some b => cose_fold r seen' {| ck_kty := ck_kty k; ck_kid := ck_kid k; ck_alg := ck_alg k;
                                                 ck_ops := ck_ops k; ck_iv := b; ck_params := ck_params k |}
                | None => None
                end
            | _ =>
                cose_fold r seen' {| ck_kty := ck_kty k; ck_kid := ck_kid k; ck_alg := ck_alg k;
                                     ck_ops := ck_ops k; ck_iv := ck_iv k; ck_params := ck_params k ++ [(lb, v)] |}
            end
      end
  end.

(** [CoseKey::from_cbor_value] *)
Definition cose_from_cbor (v : cbor) : option cosekey :=
  match v with
  | CMap l =>
      match cose_fold l [] ck_default with
      | Some k => match ck_kty k with CInt 0 => None (* "no kty label" *) | _ => Some k end
      | None => None
      end
  | _ => None
  end.

(** [CoseKey::to_cbor_value] (its duplicate check on [params] cannot fire on a key that
    [from_cbor_value] returned: those labels are distinct) *)
Definition cose_to_cbor (k : cosekey) : cbor :=
  CMap ([(CInt 1, ck_kty k)]
        ++ (match ck_kid k with [] => [] | b => [(CInt 2, CBytes b)] end)
        ++ (match ck_alg k with None => [] | Some a => [(CInt 3, a)] end)
        ++ (match ck_ops k with [] => [] | o => [(CInt 4, CArr o)] end)
        ++ (match ck_iv k with [] => [] | b => [(CInt 5, CBytes b)] end)
        ++ ck_params k).

Definition cose_norm (v : cbor) : option cbor :=
  match cose_from_cbor v with
  | Some k => Some (cose_to_cbor k)
  | None => None
  end.

(** the COSE keys inside the model *)
Definition cose_key_okb (v : cbor) : bool :=
  match cose_norm v with
  | Some v' => cbor_eqb v' v
  | None => false
  end.

(** [CoseKeyBuilder::new_ec2_pub_key(crv, x, y)] followed, when [alg = Some a], by [.algorithm(a)] *)
Definition ec2_pub_key (crv : Z) (x y : bytes) (alg : option Z) : cbor :=
  CMap ([(CInt 1, CInt 2)]
        ++ (match alg with Some a => [(CInt 3, CInt a)] | None => [] end)
        ++ [(CInt (-1), CInt crv); (CInt (-2), CBytes x); (CInt (-3), CBytes y)]).

(** ** attestation_fmt.rs *)
Record acd := {
  acd_aaguid : bytes;                  (* [Aaguid([u8; 16])] *)
  acd_cred_id : bytes;
  acd_key : cbor                       (* the [CoseKey], as [to_cbor_value] renders it *)
}.

Record authdata := {
  ad_rp_id_hash : bytes;               (* [[u8; 32]] *)
  ad_flags : N;
  ad_counter : option N;               (* [Option<u32>] *)
  ad_acd : option acd;
  ad_ext : option cbor                 (* [Option<ciborium::Value>] *)
}.

(** [AuthenticatorData::new] *)
Definition ad_new (sha256 : bytes -> bytes) (rp_id : bytes) (counter : option N) : authdata :=
  {| ad_rp_id_hash := sha256 rp_id; ad_flags := FLAGS_DEFAULT; ad_counter := counter;
     ad_acd := None; ad_ext := None |}.

(** [set_flags]: [self.flags |= flags] *)
Definition set_flags (ad : authdata) (f : N) : authdata :=
  {| ad_rp_id_hash := ad_rp_id_hash ad; ad_flags := N.lor (ad_flags ad) f; ad_counter := ad_counter ad;
     ad_acd := ad_acd ad; ad_ext := ad_ext ad |}.

(** [set_attested_credential_data] *)
Definition set_acd (ad : authdata) (a : acd) : authdata :=
  set_flags {| ad_rp_id_hash := ad_rp_id_hash ad; ad_flags := ad_flags ad; ad_counter := ad_counter ad;
               ad_acd := Some a; ad_ext := ad_ext ad |} F_AT.

(** assignment to the public field [extensions] (no flag is touched) *)
Definition assign_ext (ad : authdata) (e : option cbor) : authdata :=
  {| ad_rp_id_hash := ad_rp_id_hash ad; ad_flags := ad_flags ad; ad_counter := ad_counter ad;
     ad_acd := ad_acd ad; ad_ext := e |}.

(** assignment to the public field [attested_credential_data] (no flag is touched) *)
Definition assign_acd (ad : authdata) (a : option acd) : authdata :=
  {| ad_rp_id_hash := ad_rp_id_hash ad; ad_flags := ad_flags ad; ad_counter := ad_counter ad;
     ad_acd := a; ad_ext := ad_ext ad |}.

(** the common body of [set_make_credential_extensions] / [set_assertion_extensions]:
    [e] = [extensions.and_then(zip_contents)] already serialised to a [Value]; [None] leaves
    [self] unchanged, [Some v] stores it and sets ED *)
Definition set_extensions (ad : authdata) (e : option cbor) : authdata :=
  match e with
  | None => ad
  | Some v => set_flags (assign_ext ad (Some v)) F_ED
  end.

(** ASCII of the two extension identifiers *)
Definition HMAC_SECRET : bytes := [104; 109; 97; 99; 45; 115; 101; 99; 114; 101; 116].                 (* "hmac-secret" *)
Definition HMAC_SECRET_MC : bytes := [104; 109; 97; 99; 45; 115; 101; 99; 114; 101; 116; 45; 109; 99].  (* "hmac-secret-mc" *)

(** [make_credential::SignedExtensionOutputs { hmac_secret: Option<bool>, hmac_secret_mc: Option<Bytes> }]:
    [zip_contents] then [Value::serialized] (fields with [skip_serializing_if = "Option::is_none"]) *)
Definition mc_ext_value (o : option (option bool * option bytes)) : option cbor :=
  match o with
  | None => None
  | Some (None, None) => None
  | Some (hs, hmc) =>
      Some (CMap ((match hs with Some b => [(CText HMAC_SECRET, CBool b)] | None => [] end)
                  ++ (match hmc with Some x => [(CText HMAC_SECRET_MC, CBytes x)] | None => [] end)))
  end.

(** [get_assertion::SignedExtensionOutputs { hmac_secret: Option<Bytes> }] *)
Definition ga_ext_value (o : option (option bytes)) : option cbor :=
  match o with
  | Some (Some x) => Some (CMap [(CText HMAC_SECRET, CBytes x)])
  | _ => None
  end.

Definition set_make_credential_extensions (ad : authdata) (o : option (option bool * option bytes)) : authdata :=
  set_extensions ad (mc_ext_value o).
Definition set_assertion_extensions (ad : authdata) (o : option (option bytes)) : authdata :=
  set_extensions ad (ga_ext_value o).

(** [AttestedCredentialData::new]: [u16::try_from(credential_id.len())?] *)
Definition acd_new (aaguid id : bytes) (key : cbor) : outcome acd :=
  if N.of_nat (length id) <=? 65535
  then Val {| acd_aaguid := aaguid; acd_cred_id := id; acd_key := key |}
  else Err.

(** [AttestedCredentialData::into_iter]: [u16::try_from(len).unwrap()] panics above 65535
    ([key.to_vec().unwrap()] cannot fail on the keys inside the model, see the header) *)
Definition acd_bytes (a : acd) : outcome bytes :=
  let n := N.of_nat (length (acd_cred_id a)) in
  if n <=? 65535
  then Val (acd_aaguid a ++ be16 n ++ acd_cred_id a ++ cbor_encode (acd_key a))
  else Panic.

(** [AuthenticatorData::to_vec].  Note: AT is OR-ed in when the attested credential data is
    present; ED is *not* OR-ed in when extensions are present (only the setters set it). *)
Definition to_vec (ad : authdata) : outcome bytes :=
  let flags := match ad_acd ad with Some _ => N.lor (ad_flags ad) F_AT | None => ad_flags ad end in
  let counter := match ad_counter ad with Some c => c | None => 0 end in
  match (match ad_acd ad with Some a => acd_bytes a | None => Val [] end) with
  | Val ab =>
      Val (ad_rp_id_hash ad ++ [flags] ++ be32 counter ++ ab
           ++ match ad_ext ad with Some e => cbor_encode e | None => [] end)
  | Err => Err
  | Panic => Panic
  end.

(** [AttestedCredentialData::from_reader] on the cursor content [r]: value and what is left.
    [Read::read_exact] fails ([None]) when fewer bytes remain; [take] is that split. *)
Definition acd_from_reader (r : bytes) : option (acd * bytes) :=
  match take 16 r with
  | None => None
  | Some (aaguid, r1) =>
      match take 2 r1 with
      | Some ([hi; lo], r2) =>
          match take (be16_dec hi lo) r2 with
          | None => None
          | Some (id, r3) =>
              match cbor_decode cbor_fuel r3 with
              | None => None
              | Some (v, r4) =>
                  match cose_norm v with
                  | None => None
                  | Some k => Some ({| acd_aaguid := aaguid; acd_cred_id := id; acd_key := k |}, r4)
                  end
              end
          end
      | _ => None
      end
  end.

(** [AuthenticatorData::from_slice] *)
Definition from_slice (v : bytes) : outcome authdata :=
  if N.of_nat (length v) <? 37 then Err
  else
    match take 32 v with                                   (* v.split_at(32) *)
    | None => Panic
    | Some (rp_id_hash, v1) =>
    match take 1 v1 with                                   (* v.split_at(1) *)
    | None => Panic
    | Some (flag_byte, v2) =>
    match take 4 v2 with                                   (* v.split_at(4) *)
    | None => Panic
    | Some (counter, v3) =>
    match flag_byte with                                   (* flag_byte[0] *)
    | [] => Panic
    | fb :: _ =>
    match flags_from_bits fb with
    | None => Err                                          (* OutOfRangeIntegerValue *)
    | Some flags =>
    match (if has_flag flags F_AT
           then match acd_from_reader v3 with Some (a, r) => Some (Some a, r) | None => None end
           else Some (None, v3)) with
    | None => Err
    | Some (oa, r1) =>
    match (if has_flag flags F_ED
           then match cbor_decode cbor_fuel r1 with Some (e, r) => Some (Some e, r) | None => None end
           else Some (None, r1)) with
    | None => Err
    | Some (oe, _) =>                                      (* whatever is left in the cursor is ignored *)
        if (length rp_id_hash =? 32)%nat then              (* rp_id_hash.try_into().unwrap() *)
          match counter with                               (* counter.try_into().unwrap() *)
          | [a; b; c; d] =>
              Val {| ad_rp_id_hash := rp_id_hash; ad_flags := flags;
                     ad_counter := Some (be32_dec a b c d); ad_acd := oa; ad_ext := oe |}
          | _ => Panic
          end
        else Panic
    end end end end end end end.

(** ** Builder programs (what the correspondence runs, and what [Built] in the facts file closes over) *)
Inductive step :=
| SFlags (f : N)                                             (* set_flags *)
| SAcd (aaguid id : bytes) (key : cbor)                      (* AttestedCredentialData::new + set_attested_credential_data *)
| SMc (o : option (option bool * option bytes))              (* set_make_credential_extensions *)
| SGa (o : option (option bytes))                            (* set_assertion_extensions *)
| SRaw (e : option cbor)                                     (* ad.extensions = e  (pub field; not a setter) *)
| SAcdRaw (aaguid id : bytes) (key : cbor).                  (* ad.attested_credential_data = Some(new(..)?)  (pub field) *)

Definition apply_step (ad : authdata) (s : step) : outcome authdata :=
  match s with
  | SFlags f => Val (set_flags ad f)
  | SAcd aaguid id key =>
      match acd_new aaguid id key with
      | Val a => Val (set_acd ad a)
      | Err => Err
      | Panic => Panic
      end
  | SMc o => Val (set_make_credential_extensions ad o)
  | SGa o => Val (set_assertion_extensions ad o)
  | SRaw e => Val (assign_ext ad e)
  | SAcdRaw aaguid id key =>
      match acd_new aaguid id key with
      | Val a => Val (assign_acd ad (Some a))
      | Err => Err
      | Panic => Panic
      end
  end.

Fixpoint run_steps (ad : authdata) (l : list step) : outcome authdata :=
  match l with
  | [] => Val ad
  | s :: r =>
      match apply_step ad s with
      | Val ad' => run_steps ad' r
      | Err => Err
      | Panic => Panic
      end
  end.
