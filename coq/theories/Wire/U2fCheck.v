(** Correspondence checks and the property oracle for the U2F raw-message wire domain.
    Everything here is executable and is evaluated by generated case files. *)
From PK Require Import Lib.Bytes Lib.Check Wire.U2fWire.
Open Scope N_scope.

(** *** Observations of the implementation (harness/src/bin/u2fwire.rs) *)
Inductive payload_obs :=
| ORegister (challenge application : bytes)
| OAuthenticate (parameter : N) (challenge application key_handle : bytes)
| OVersion.

Inductive parse_obs :=
| PVal (cla ins p1 data_len : N) (data : payload_obs)
| PErr (sw : N)                  (* [ResponseStatusWords::as_primitive] *)
| PPanic.

Inductive auth_obs :=
| AVal (parameter : N) (challenge application key_handle : bytes) | AErr | APanic.

Inductive reg_obs :=
| RVal (challenge application : bytes) | RErr | RPanic.

(** heap allocation requests seen by the counting allocator during the call: count, largest *)
Definition alloc_obs := (N * N)%type.

Inductive ucase :=
| CParse (input : bytes) (impl : parse_obs) (allocs : alloc_obs)
    (* Request::try_from(&input) *)
| CAuth (payload : bytes) (p1 : N) (impl : auth_obs) (allocs : alloc_obs)
    (* AuthenticationRequest::try_from(&payload, p1) *)
| CReg (payload : bytes) (impl : reg_obs) (allocs : alloc_obs)
    (* RegisterRequest::try_from(&payload) *)
| CEncReg (x y kh cert sig : bytes) (impl : bytes)
    (* RegisterResponse { PublicKey { x, y }, kh, cert, sig }.encode() *)
| CEncAuth (presence counter : N) (sig : bytes) (impl : bytes)
    (* AuthenticationResponse { flags, counter, sig }.encode() *)
| CEncVersion (impl : bytes)
| CStatus (impl : list N).
    (* as_primitive of the six status words, declaration order *)

(** *** Model = implementation *)
Definition payload_to_obs (p : request_payload) : payload_obs :=
  match p with
  | PRegister r => ORegister (rr_challenge r) (rr_application r)
  | PAuthenticate a =>
      OAuthenticate (auth_param_to_u8 (ar_parameter a)) (ar_challenge a) (ar_application a) (ar_key_handle a)
  | PVersion => OVersion
  end.

Definition request_to_obs (o : outcome status_word request) : parse_obs :=
  match o with
  | Val r => PVal (r_cla r) (command_to_u8 (r_ins r)) (r_p1 r) (r_data_len r) (payload_to_obs (r_data r))
  | Err sw => PErr (sw_value sw)
  | Panic => PPanic
  end.

Definition payload_obs_eqb (a b : payload_obs) : bool :=
  match a, b with
  | ORegister c1 a1, ORegister c2 a2 => beq c1 c2 && beq a1 a2
  | OAuthenticate p1 c1 a1 k1, OAuthenticate p2 c2 a2 k2 => (p1 =? p2) && beq c1 c2 && beq a1 a2 && beq k1 k2
  | OVersion, OVersion => true
  | _, _ => false
  end.

Definition parse_obs_eqb (a b : parse_obs) : bool :=
  match a, b with
  | PVal c1 i1 p1 l1 d1, PVal c2 i2 p2 l2 d2 =>
      (c1 =? c2) && (i1 =? i2) && (p1 =? p2) && (l1 =? l2) && payload_obs_eqb d1 d2
  | PErr s1, PErr s2 => s1 =? s2
  | PPanic, PPanic => true
  | _, _ => false
  end.

Definition auth_to_obs (o : outcome unit authentication_request) : auth_obs :=
  match o with
  | Val a => AVal (auth_param_to_u8 (ar_parameter a)) (ar_challenge a) (ar_application a) (ar_key_handle a)
  | Err _ => AErr
  | Panic => APanic
  end.

Definition auth_obs_eqb (a b : auth_obs) : bool :=
  match a, b with
  | AVal p1 c1 a1 k1, AVal p2 c2 a2 k2 => (p1 =? p2) && beq c1 c2 && beq a1 a2 && beq k1 k2
  | AErr, AErr => true
  | APanic, APanic => true
  | _, _ => false
  end.

Definition reg_to_obs (o : outcome unit register_request) : reg_obs :=
  match o with
  | Val r => RVal (rr_challenge r) (rr_application r)
  | Err _ => RErr
  | Panic => RPanic
  end.

Definition reg_obs_eqb (a b : reg_obs) : bool :=
  match a, b with
  | RVal c1 a1, RVal c2 a2 => beq c1 c2 && beq a1 a2
  | RErr, RErr => true
  | RPanic, RPanic => true
  | _, _ => false
  end.

(** the allocator never sees a zero-size request ([to_vec] of an empty slice does not allocate) *)
Definition allocs_eqb (model : list nat) (obs : alloc_obs) : bool :=
  let nz := filter (fun n => negb (n =? 0)%nat) model in
  (N.of_nat (length nz) =? fst obs) && (N.of_nat (fold_right Nat.max O nz) =? snd obs).

Fixpoint list_N_eqb (a b : list N) : bool :=
  match a, b with
  | [], [] => true
  | x :: a', y :: b' => (x =? y) && list_N_eqb a' b'
  | _, _ => false
  end.

(** *** An independent reading of the FIDO U2F raw message formats (the oracle side).
    Written from the specification text, by offsets, not from the parser model. *)
Definition is_ctrl (b : N) : bool := existsb (N.eqb b) [3; 7; 8].

(** A strictly laid out extended-length request frame and what it says:
      CLA=0 INS P1 P2=0 | 0 Lc1 Lc2 | Lc bytes | nothing or a two-byte Le
    register: Lc = 64 = challenge(32) application(32);
    authenticate: P1 in {3,7,8}, Lc = 65 + L = challenge(32) application(32) L(1) key handle(L);
    version: Lc = 0. *)
Definition spec_frame (f : bytes) : option parse_obs :=
  if (length f <? 7)%nat then None else
  let ins := nth 1 f 0 in
  let p1 := nth 2 f 0 in
  let lc := nth 5 f 0 * 256 + nth 6 f 0 in
  let avail := N.of_nat (length f) - 7 in
  if (nth 0 f 0 =? 0) && (nth 3 f 0 =? 0) && (nth 4 f 0 =? 0)
     && ((avail =? lc) || (avail =? lc + 2))
  then
    let data := firstn (N.to_nat lc) (skipn 7 f) in
    if ins =? 1 then
      if lc =? 64 then Some (PVal 0 1 p1 64 (ORegister (firstn 32 data) (skipn 32 data))) else None
    else if ins =? 2 then
      if is_ctrl p1 && (65 <=? lc) && (lc =? 65 + nth 64 data 0)
      then Some (PVal 0 2 p1 lc (OAuthenticate p1 (firstn 32 data) (firstn 32 (skipn 32 data)) (skipn 65 data)))
      else None
    else if ins =? 3 then
      if lc =? 0 then Some (PVal 0 3 p1 0 OVersion) else None
    else None
  else None.

(** whatever the parser returns was read from the frame at the offsets of the format *)
Definition parsed_from_frame (f : bytes) (o : parse_obs) : bool :=
  match o with
  | PVal cla ins p1 dl data =>
      (cla =? nth 0 f 0) && (ins =? nth 1 f 0) && (p1 =? nth 2 f 0)
      && (7 + dl <=? N.of_nat (length f))
      && match data with
         | ORegister c a => (ins =? 1) && beq (c ++ a) (firstn 64 (skipn 7 f)) && (dl =? 64)
         | OAuthenticate p c a k =>
             (ins =? 2) && (p =? p1) && is_ctrl p
             && (length c =? 32)%nat && (length a =? 32)%nat
             && (N.of_nat (length k) =? nth 71 f 0)
             && (65 + N.of_nat (length k) <=? dl)
             && beq (c ++ a ++ [nth 71 f 0] ++ k) (firstn (65 + length k) (skipn 7 f))
         | OVersion => ins =? 3
         end
  | _ => true
  end.

(** the payload parsers read their result from the payload *)
Definition auth_from_payload (d : bytes) (p1 : N) (o : auth_obs) : bool :=
  match o with
  | AVal p c a k =>
      (p =? p1) && (length c =? 32)%nat && (length a =? 32)%nat
      && (N.of_nat (length k) =? nth 64 d 0)
      && beq (c ++ a ++ [nth 64 d 0] ++ k) (firstn (65 + length k) d)
  | _ => true
  end.

(** *** [agree]: model and implementation coincide on the case *)
Definition obs_to_request (o : parse_obs) : option request :=
  match o with
  | PVal cla ins p1 dl (ORegister c a) => Some (Req cla (command_from_u8 ins) p1 dl (PRegister (RegReq c a)))
  | PVal cla ins p1 dl (OAuthenticate p c a k) =>
      match auth_param_from_u8 p with
      | Some ap => Some (Req cla (command_from_u8 ins) p1 dl (PAuthenticate (AuthReq ap c a k)))
      | None => None
      end
  | PVal cla ins p1 dl OVersion => Some (Req cla (command_from_u8 ins) p1 dl PVersion)
  | _ => None
  end.

(** on strictly laid out frames the specification encoder [encode_request] reproduces the frame
    (ties the Coq-side encoder to the driver's own encoder and to what the code accepts) *)
Definition spec_encoder_ok (input : bytes) : bool :=
  match spec_frame input with
  | Some o =>
      match obs_to_request o with
      | Some r => beq (encode_request r ++ skipn (7 + N.to_nat (r_data_len r)) input) input
      | None => false
      end
  | None => true
  end.

Definition agree (c : ucase) : bool :=
  match c with
  | CParse input impl al =>
      parse_obs_eqb (request_to_obs (request_try_from input)) impl
      && allocs_eqb (request_allocs input) al
      && spec_encoder_ok input
  | CAuth payload p1 impl al =>
      auth_obs_eqb (auth_to_obs (authentication_request_try_from payload p1)) impl
      && match impl with APanic => true | _ => allocs_eqb (authentication_request_allocs payload) al end
  | CReg payload impl al =>
      reg_obs_eqb (reg_to_obs (register_request_try_from payload)) impl && allocs_eqb [] al
  | CEncReg x y kh cert sig impl =>
      beq (register_response_encode (RegResp (PubKey x y) kh cert sig)) impl
  | CEncAuth presence counter sig impl =>
      beq (authentication_response_encode (AuthResp presence counter sig)) impl
  | CEncVersion impl => beq version_encode impl
  | CStatus impl => list_N_eqb (map sw_value all_status_words) impl
  end.

(** *** [oracle]: the property evaluated on the implementation's observation alone.
    C17 (codec half): a strictly laid out frame parses to what it says; encoded responses have
    the specified layout and end in 90 00.  C15 (U2F part): the frame parser never panics and
    requests no allocation larger than its input; the direct payload parser does not panic for
    the control bytes of the specification (other values: known finding, see [known_class]). *)
Definition oracle (c : ucase) : bool :=
  match c with
  | CParse input impl (acount, amax) =>
      match impl with PPanic => false | _ => true end
      && match spec_frame input with
         | Some expected => parse_obs_eqb impl expected
         | None => true
         end
      && parsed_from_frame input impl
      && (amax <=? N.of_nat (length input)) && (acount <=? 1)
  | CAuth payload p1 impl (acount, amax) =>
      match impl with
      | APanic => negb (is_ctrl p1)
      | _ => (amax <=? N.of_nat (length payload)) && (acount <=? 1)
      end
      && auth_from_payload payload p1 impl
      && (if is_ctrl p1 && (65 <=? N.of_nat (length payload))
             && (N.of_nat (length payload) =? 65 + nth 64 payload 0)
          then match impl with AVal _ _ _ _ => true | _ => false end else true)
  | CReg payload impl (acount, amax) =>
      match impl with
      | RPanic => false
      | RVal ch ap => beq (ch ++ ap) payload && (length ch =? 32)%nat && (length ap =? 32)%nat
      | RErr => negb (length payload =? 64)%nat
      end
      && (acount =? 0)
  | CEncReg x y kh cert sig e =>
      if (length x =? 32)%nat && (length y =? 32)%nat && (length kh <=? 255)%nat then
        (nth 0 e 0 =? 5) && (nth 1 e 0 =? 4)
        && beq (firstn 32 (skipn 2 e)) x && beq (firstn 32 (skipn 34 e)) y
        && (nth 66 e 0 =? N.of_nat (length kh))
        && beq (firstn (length kh) (skipn 67 e)) kh
        && beq (firstn (length cert) (skipn (67 + length kh) e)) cert
        && beq (skipn (67 + length kh + length cert) e) (sig ++ [144; 0])
      else true
  | CEncAuth presence counter sig e =>
      (nth 0 e 0 =? presence)
      && (nth 1 e 0 * 16777216 + nth 2 e 0 * 65536 + nth 3 e 0 * 256 + nth 4 e 0 =? counter)
      && beq (skipn 5 e) (sig ++ [144; 0])
      && (5 <=? length e)%nat
  | CEncVersion e => beq e [85; 50; 70; 95; 86; 50; 144; 0]     (* "U2F_V2" 90 00 *)
  | CStatus impl => list_N_eqb impl [36864; 27013; 27264; 26368; 28160; 27904]
      (* 9000 6985 6A80 6700 6E00 6D00, FIDO U2F raw message formats, status codes *)
  end.

(** The known finding (C15): the public, infallible [From<u8> for AuthenticationParameter] is
    reached by [AuthenticationRequest::try_from(payload, p1)] with a correctly laid out payload
    and a parameter outside {3, 7, 8}. *)
Definition known_class (c : ucase) : bool :=
  match c with
  | CAuth _ p1 APanic _ => negb (is_ctrl p1)
  | _ => false
  end.

(** C15 view of a case: no panic outside the known class, bounded allocation *)
Definition robust (c : ucase) : bool :=
  match c with
  | CParse input impl (acount, amax) =>
      match impl with PPanic => false | _ => true end && (amax <=? N.of_nat (length input))
  | CAuth payload p1 impl (acount, amax) =>
      match impl with
      | APanic => negb (is_ctrl p1)
      | _ => amax <=? N.of_nat (length payload)
      end
  | CReg payload impl (acount, amax) =>
      match impl with RPanic => false | _ => true end && (amax <=? N.of_nat (length payload))
  | _ => true
  end.
