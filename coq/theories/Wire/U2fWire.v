(** Executable model of the U2F raw-message wire layer:
      passkey-types/src/u2f.rs               (ResponseStatusWords)
      passkey-types/src/u2f/commands.rs      (Command, Request, Request::try_from)
      passkey-types/src/u2f/register.rs      (RegisterRequest::try_from, RegisterResponse::encode, PublicKey::encode)
      passkey-types/src/u2f/authenticate.rs  (AuthenticationParameter, AuthenticationRequest::try_from,
                                              AuthenticationResponse::encode)
      passkey-types/src/u2f/version.rs       (Version::encode)
    transcribed function by function from the code as it is now.  Every Rust operation that can
    panic (index [v[i]], range index [v[a..b]], [unwrap], [unreachable!]) is an explicit [Panic]
    outcome, so that "never panics" is a theorem about the model and not an artefact of writing
    total functions.  Definitions only; the proofs are in U2fWireFacts.v.

    Platform reading: [usize] is 64 bits (the check platform).  The only place where the width
    matters is [data_start.checked_add(data_len)]; on a 32-bit target an overflow there yields the
    same [WrongLength] the range check yields here (noted at the definition). *)
From PK Require Export Lib.Bytes.
Open Scope N_scope.

(** *** Outcomes: a value, an error value, or a panic *)
Inductive outcome (E A : Type) : Type :=
| Val (a : A)
| Err (e : E)
| Panic.
Arguments Val {E A} a.
Arguments Err {E A} e.
Arguments Panic {E A}.

(** *** Rust slice primitives used by the parsers.
    Offsets that are small constants are [nat]; an upper bound that comes from the input is [N]
    and is converted to [nat] only after it has been compared with the slice length. *)

(** [l[i]]: [None] is the index-out-of-bounds panic *)
Definition index (l : bytes) (i : nat) : option N := nth_error l i.

(** [l.get(a..b)]; used for [l[a..b]] too, where [None] is the panic.
    Rust: [None] when [a > b] or [b > len]. *)
Definition slice_range (a : nat) (b : N) (l : bytes) : option bytes :=
  if (N.of_nat a <=? b) && (b <=? N.of_nat (length l))
  then Some (firstn (N.to_nat b - a) (skipn a l))
  else None.

(** [l.get(..b)] *)
Definition slice_to (b : N) (l : bytes) : option bytes := slice_range 0 b l.

(** [l.get(a..)] *)
Definition slice_from (a : nat) (l : bytes) : option bytes :=
  if (a <=? length l)%nat then Some (skipn a l) else None.

(** [Option<&[u8]>::unwrap_or_default]: the empty slice *)
Definition unwrap_or_default (o : option bytes) : bytes :=
  match o with Some s => s | None => [] end.

(** [<[u8; n]>::try_from(&[u8])]: succeeds exactly when the slice has [n] elements *)
Definition to_array (n : nat) (s : bytes) : option bytes :=
  if (length s =? n)%nat then Some s else None.

(** [<[u8; 1]>::try_from(&[u8])] followed by the pattern [[x]] *)
Definition to_array1 (s : bytes) : option N :=
  match s with [x] => Some x | _ => None end.

(** [u32::from_be_bytes(<[u8; 4]>::try_from(s).unwrap())]: [None] is the [unwrap] panic *)
Definition u32_from_be_slice (s : bytes) : option N :=
  match s with [a; b; c; d] => Some (be32_dec a b c d) | _ => None end.

(** [usize::checked_add] on a 64-bit target *)
Definition USIZE_MODULUS : N := 18446744073709551616.
Definition checked_add_usize (a b : N) : option N :=
  if a + b <? USIZE_MODULUS then Some (a + b) else None.

(** *** u2f.rs: [ResponseStatusWords] ([#[repr(u16)]], [as_primitive]) *)
Inductive status_word :=
| NoError | ConditionsNotSatisfied | WrongData | WrongLength | ClaNotSupported | InsNotSupported.

Definition sw_value (s : status_word) : N :=
  match s with
  | NoError => 0x9000
  | ConditionsNotSatisfied => 0x6985
  | WrongData => 0x6A80
  | WrongLength => 0x6700
  | ClaNotSupported => 0x6E00
  | InsNotSupported => 0x6D00
  end.

Definition all_status_words : list status_word :=
  [NoError; ConditionsNotSatisfied; WrongData; WrongLength; ClaNotSupported; InsNotSupported].

(** [sw.as_primitive().to_be_bytes()] / [u16::from(sw).to_be_bytes()] *)
Definition sw_bytes (s : status_word) : bytes := be16 (sw_value s).

(** *** commands.rs: [Command] *)
Inductive command :=
| CmdRegister | CmdAuthenticate | CmdVersion | CmdUnsupported (b : N).

(** [impl From<u8> for Command] *)
Definition command_from_u8 (b : N) : command :=
  if b =? 1 then CmdRegister else
  if b =? 2 then CmdAuthenticate else
  if b =? 3 then CmdVersion else CmdUnsupported b.

(** [impl From<Command> for u8] *)
Definition command_to_u8 (c : command) : N :=
  match c with
  | CmdRegister => 1
  | CmdAuthenticate => 2
  | CmdVersion => 3
  | CmdUnsupported b => b
  end.

(** *** register.rs: [RegisterRequest] *)
Record register_request := RegReq {
  rr_challenge : bytes;      (* [u8; 32] *)
  rr_application : bytes     (* [u8; 32] *) }.

(** [impl TryFrom<&[u8]> for RegisterRequest]; the error is the unit-like [TryFromSliceError]:
      challenge:   data.get(..32).unwrap_or_default().try_into()?
      application: data.get(32..).unwrap_or_default().try_into()?                              *)
Definition register_request_try_from (data : bytes) : outcome unit register_request :=
  match to_array 32 (unwrap_or_default (slice_to 32 data)) with
  | None => Err tt
  | Some challenge =>
    match to_array 32 (unwrap_or_default (slice_from 32 data)) with
    | None => Err tt
    | Some application => Val (RegReq challenge application)
    end
  end.

(** *** authenticate.rs: [AuthenticationParameter] *)
Inductive auth_param := CheckOnly | EnforceUserPresence | DontEnforceUserPresence.

(** [impl From<AuthenticationParameter> for u8] ([#[repr(u8)]] discriminants) *)
Definition auth_param_to_u8 (p : auth_param) : N :=
  match p with
  | CheckOnly => 7
  | EnforceUserPresence => 3
  | DontEnforceUserPresence => 8
  end.

(** [impl From<u8> for AuthenticationParameter]: public and infallible in Rust; every other
    byte reaches [unreachable!()], which is [None] (= panic) here. *)
Definition auth_param_from_u8 (b : N) : option auth_param :=
  if b =? 7 then Some CheckOnly else
  if b =? 3 then Some EnforceUserPresence else
  if b =? 8 then Some DontEnforceUserPresence else None.

(** [matches!(p1, 0x03 | 0x07 | 0x08)] *)
Definition is_control_byte (p1 : N) : bool := (p1 =? 3) || (p1 =? 7) || (p1 =? 8).

Record authentication_request := AuthReq {
  ar_parameter : auth_param;
  ar_challenge : bytes;      (* [u8; 32] *)
  ar_application : bytes;    (* [u8; 32] *)
  ar_key_handle : bytes      (* Vec<u8> *) }.

(** [AuthenticationRequest::try_from(data, parameter)]:
      let challenge = data.get(..32).unwrap_or_default().try_into()?;
      let application = data.get(32..64).unwrap_or_default().try_into()?;
      let [handle_len]: [u8; 1] = data.get(64..65).unwrap_or_default().try_into()?;
      let key_handle = match data.get(65..65 + handle_len as usize) {
          Some(key_handle) => key_handle.to_vec(),         -- the only heap allocation
          None => return Err(..) };
      Ok(Self { parameter: parameter.into(), .. })           -- [into] may hit unreachable!()
    [65 + handle_len as usize] cannot overflow ([handle_len : u8]).  The conversion of the
    parameter happens last, after every length check has passed. *)
Definition authentication_request_try_from (data : bytes) (parameter : N)
  : outcome unit authentication_request :=
  match to_array 32 (unwrap_or_default (slice_to 32 data)) with
  | None => Err tt
  | Some challenge =>
    match to_array 32 (unwrap_or_default (slice_range 32 64 data)) with
    | None => Err tt
    | Some application =>
      match to_array1 (unwrap_or_default (slice_range 64 65 data)) with
      | None => Err tt
      | Some handle_len =>
        match slice_range 65 (65 + handle_len) data with
        | None => Err tt
        | Some key_handle =>
          match auth_param_from_u8 parameter with
          | None => Panic
          | Some p => Val (AuthReq p challenge application key_handle)
          end
        end
      end
    end
  end.

(** *** commands.rs: [RequestPayload], [Request], [Request::try_from] *)
Inductive request_payload :=
| PRegister (r : register_request)
| PAuthenticate (a : authentication_request)
| PVersion.

Record request := Req {
  r_cla : N;                 (* u8 *)
  r_ins : command;
  r_p1 : N;                  (* u8 *)
  r_data_len : N;            (* usize *)
  r_data : request_payload }.

Definition REQUEST_HEADER_LEN : nat := 6.

(** the [match ins { .. }] of [Request::try_from] and the final [Ok(Request { .. })] *)
Definition request_dispatch (cla : N) (ins : command) (p1 data_len : N) (payload : bytes)
  : outcome status_word request :=
  match ins with
  | CmdRegister =>
      match register_request_try_from payload with
      | Val r => Val (Req cla ins p1 data_len (PRegister r))
      | Err _ => Err WrongLength
      | Panic => Panic
      end
  | CmdAuthenticate =>
      if negb (is_control_byte p1) then Err WrongData else
      match authentication_request_try_from payload p1 with
      | Val a => Val (Req cla ins p1 data_len (PAuthenticate a))
      | Err _ => Err WrongLength
      | Panic => Panic
      end
  | CmdVersion => Val (Req cla ins p1 data_len PVersion)
  | CmdUnsupported _ => Err InsNotSupported
  end.

(** [impl TryFrom<&[u8]> for Request]:
      if value.len() <= REQUEST_HEADER_LEN { return Err(WrongLength) }
      let cla = value[0];  if cla != 0 { return Err(WrongData) }
      let ins = Command::from(value[1]);
      let p1 = value[2];
      let data_start = REQUEST_HEADER_LEN + 1;
      let data_len = u32::from_be_bytes(value[3..data_start].try_into().unwrap()) as usize;
      let payload = data_start.checked_add(data_len)
          .and_then(|data_end| value.get(data_start..data_end)).ok_or(WrongLength)?;
      match ins ..
    Note that the four length bytes are P2, the extended-length marker and Lc1 Lc2; bytes after
    [data_end] (a trailing Le) are ignored.  On a 32-bit target [checked_add] could overflow for
    [data_len] near 2^32; the result would be [WrongLength] as well, because such a [data_end]
    exceeds every slice length. *)
Definition request_try_from (value : bytes) : outcome status_word request :=
  if (length value <=? REQUEST_HEADER_LEN)%nat then Err WrongLength else
  match index value 0 with
  | None => Panic
  | Some cla =>
    if negb (cla =? 0) then Err WrongData else
    match index value 1 with
    | None => Panic
    | Some ins_byte =>
      let ins := command_from_u8 ins_byte in
      match index value 2 with
      | None => Panic
      | Some p1 =>
        let data_start := S REQUEST_HEADER_LEN in
        match slice_range 3 (N.of_nat data_start) value with
        | None => Panic
        | Some len_bytes =>
          match u32_from_be_slice len_bytes with
          | None => Panic
          | Some data_len =>
            match
              match checked_add_usize (N.of_nat data_start) data_len with
              | Some data_end => slice_range data_start data_end value
              | None => None
              end
            with
            | None => Err WrongLength
            | Some payload => request_dispatch cla ins p1 data_len payload
            end
          end
        end
      end
    end
  end.

(** Heap allocations requested by [Request::try_from] / [AuthenticationRequest::try_from]: the
    only one in the source is [key_handle.to_vec()], reached exactly when the key-handle range
    check has passed; the arrays are by-value.  In [Request::try_from] the control byte is
    guarded before the payload parser runs, so the allocation is requested exactly when the
    result is an authenticate request, and its size is the length of the produced key handle. *)
Definition authentication_request_allocs (data : bytes) : list nat :=
  match authentication_request_try_from data 3 with
  | Val a => [length (ar_key_handle a)]
  | _ => []
  end.

Definition request_allocs (value : bytes) : list nat :=
  match request_try_from value with
  | Val r => match r_data r with
             | PAuthenticate a => [length (ar_key_handle a)]
             | _ => []
             end
  | _ => []
  end.

(** *** register.rs: [PublicKey::encode], [RegisterResponse::encode] *)
Record public_key := PubKey {
  pk_x : bytes;              (* [u8; 32] *)
  pk_y : bytes               (* [u8; 32] *) }.

(** [[0x04].into_iter().chain(self.x).chain(self.y)] *)
Definition public_key_encode (k : public_key) : bytes := [4] ++ pk_x k ++ pk_y k.

Record register_response := RegResp {
  rs_public_key : public_key;
  rs_key_handle : bytes;
  rs_attestation_certificate : bytes;
  rs_signature : bytes }.

(** [[0x05] ++ public_key.encode() ++ [key_handle.len() as u8] ++ key_handle ++
     attestation_certificate ++ signature ++ NoError.to_be_bytes()]; [as u8] truncates. *)
Definition register_response_encode (r : register_response) : bytes :=
  [5] ++ public_key_encode (rs_public_key r)
      ++ [N.of_nat (length (rs_key_handle r)) mod 256]
      ++ rs_key_handle r
      ++ rs_attestation_certificate r
      ++ rs_signature r
      ++ sw_bytes NoError.

(** *** authenticate.rs: [AuthenticationResponse::encode] *)
Record authentication_response := AuthResp {
  as_user_presence : N;      (* Flags (u8 bit set): [u8::from(flags)] = [flags.bits()] *)
  as_counter : N;            (* u32 *)
  as_signature : bytes }.

(** [[user_presence.into()] ++ counter.to_be_bytes() ++ signature ++ NoError.to_be_bytes()] *)
Definition authentication_response_encode (r : authentication_response) : bytes :=
  [as_user_presence r] ++ be32 (as_counter r) ++ as_signature r ++ sw_bytes NoError.

(** *** version.rs: [Version::encode]: [b"U2F_V2" ++ NoError.to_be_bytes()] *)
Definition U2F_V2 : bytes := [85; 50; 70; 95; 86; 50].
Definition version_encode : bytes := U2F_V2 ++ sw_bytes NoError.

(** *** Specification side: the FIDO U2F raw message format of a request
    (FIDO U2F Raw Message Formats v1.2, sections 3, 4.1, 5.1, 6.1), extended length encoding:
        CLA INS P1 P2 | 0 Lc1 Lc2 | request-data | [Le]
    The repository has no request encoder; this one is the specification the parser is proved
    against.  The three length bytes are always written (for the empty request-data of
    U2F_VERSION they read 00 00 00, which is also how ISO 7816-4 writes "Lc absent, Le = 65536").
    A trailing Le is appended by the caller ([encode_request r ++ le]). *)
Definition register_request_bytes (r : register_request) : bytes :=
  rr_challenge r ++ rr_application r.

Definition authentication_request_bytes (a : authentication_request) : bytes :=
  ar_challenge a ++ ar_application a ++ [N.of_nat (length (ar_key_handle a))] ++ ar_key_handle a.

Definition payload_bytes (p : request_payload) : bytes :=
  match p with
  | PRegister r => register_request_bytes r
  | PAuthenticate a => authentication_request_bytes a
  | PVersion => []
  end.

Definition encode_request (r : request) : bytes :=
  [r_cla r; command_to_u8 (r_ins r); r_p1 r; 0]
  ++ [0; r_data_len r / 256 mod 256; r_data_len r mod 256]
  ++ payload_bytes (r_data r).

(** ISO 7816-4 strict variant: Lc is omitted when the request-data is empty, and then a present
    Le takes three bytes.  [ne] is the expected response length 1..65536 ([None]: Le absent). *)
Definition le_bytes (lc_present : bool) (ne : N) : bytes :=
  if lc_present then be16 (ne mod 65536) else 0 :: be16 (ne mod 65536).

Definition encode_request_iso (r : request) (ne : option N) : bytes :=
  let data := payload_bytes (r_data r) in
  let lc_present := negb (r_data_len r =? 0) in
  [r_cla r; command_to_u8 (r_ins r); r_p1 r; 0]
  ++ (if lc_present then [0; r_data_len r / 256 mod 256; r_data_len r mod 256] else [])
  ++ data
  ++ match ne with Some n => le_bytes lc_present n | None => [] end.

(** Well-formed requests: the ones the property quantifies over. *)
Definition wf_register_request (r : register_request) : Prop :=
  length (rr_challenge r) = 32%nat /\ length (rr_application r) = 32%nat.

Definition wf_authentication_request (a : authentication_request) : Prop :=
  length (ar_challenge a) = 32%nat /\ length (ar_application a) = 32%nat /\
  (length (ar_key_handle a) <= 255)%nat.

Definition wf_request (r : request) : Prop :=
  r_cla r = 0 /\
  match r_data r with
  | PRegister rr =>
      r_ins r = CmdRegister /\ wf_register_request rr /\ r_data_len r = 64
  | PAuthenticate a =>
      r_ins r = CmdAuthenticate /\ r_p1 r = auth_param_to_u8 (ar_parameter a) /\
      wf_authentication_request a /\ r_data_len r = 65 + N.of_nat (length (ar_key_handle a))
  | PVersion =>
      r_ins r = CmdVersion /\ r_data_len r = 0
  end.
