(** proofs about Wire/Serde.v (under construction) *)
From PK Require Import Lib.Cbor Wire.Serde.
Lemma untag_idem v : untag (untag v) = untag v.
Proof. induction v; cbn; auto. Qed.
