(** Theorems about the CTAP2 message model [Wire/Serde.v].

    Part G: the struct visitor of [serde_workaround!] / serde derive, for *every* schema
            (unbounded: induction over the field list and the entries).
    Part T: the typed layer: reading back what the serialiser wrote yields the same message.
    Part P: facts about the schemas generated from the Rust sources (gen/CtapSchema.v) against
            the specification tables (CtapSpec.v), by computation.
    Part S: status bytes (finite domain: 256-element sweeps lifted with [forallb_forall]). *)
From Coq Require Import String Lia.
From PK Require Import Lib.Cbor Lib.CborFacts Wire.Serde Wire.CtapSpec
  Wire.gen.CtapSchema Wire.gen.Status Wire.gen.WebauthnError.
Open Scope N_scope.

(** * Lists *)

Lemma find_idx_app_hit {A} (p : A -> bool) pre x suf :
  (forall y, In y pre -> p y = false) -> p x = true ->
  find_idx p (pre ++ x :: suf) = Some (length pre).
Proof.
  intros Hpre Hx. induction pre as [|y pre IH]; cbn [app find_idx length].
  - rewrite Hx. reflexivity.
  - rewrite (Hpre y (or_introl eq_refl)). rewrite IH; [reflexivity|].
    intros z Hz. apply Hpre. right. exact Hz.
Qed.

Lemma find_idx_lt {A} (p : A -> bool) l i : find_idx p l = Some i -> (i < length l)%nat.
Proof.
  revert i. induction l as [|x l IH]; intros i; cbn [find_idx length]; [discriminate|].
  destruct (p x); [intros H; inversion H; lia|].
  destruct (find_idx p l) as [j|]; [|discriminate]. intros H. inversion H. specialize (IH j eq_refl). lia.
Qed.

Lemma find_idx_none {A} (p : A -> bool) l :
  (forall y, In y l -> p y = false) -> find_idx p l = None.
Proof.
  induction l as [|x l IH]; intros H; cbn [find_idx]; [reflexivity|].
  rewrite (H x (or_introl eq_refl)). rewrite IH; [reflexivity|]. intros y Hy. apply H. right. exact Hy.
Qed.

Lemma set_nth_length {A} i (x : A) l : length (set_nth i x l) = length l.
Proof. revert i. induction l as [|y l IH]; intros [|i]; cbn [set_nth length]; auto. Qed.

Lemma set_nth_app {A} (a : list A) x y r : set_nth (length a) x (a ++ y :: r) = a ++ x :: r.
Proof. induction a as [|z a IH]; cbn [length app set_nth]; [reflexivity|]. rewrite IH. reflexivity. Qed.

Lemma nth_set_nth_eq {A} i (x d : A) l : (i < length l)%nat -> nth i (set_nth i x l) d = x.
Proof.
  revert i. induction l as [|y l IH]; intros [|i] H; cbn [length] in H; cbn [set_nth nth]; try lia; [reflexivity|].
  apply IH. lia.
Qed.

Lemma nth_set_nth_neq {A} i j (x d : A) l : i <> j -> nth i (set_nth j x l) d = nth i l d.
Proof.
  revert i j. induction l as [|y l IH]; intros [|i] [|j] H; cbn [set_nth nth]; try reflexivity; try congruence.
  apply IH. congruence.
Qed.

Lemma nth_repeat_none {A} i n : nth i (repeat (@None A) n) None = None.
Proof. revert i. induction n as [|n IH]; intros [|i]; cbn [repeat nth]; auto. Qed.

Lemma nth_app_len {A} (a : list A) x r d : nth (length a) (a ++ x :: r) d = x.
Proof. induction a as [|y a IH]; cbn [length app nth]; auto. Qed.

Lemma nodupb_NoDup {A} (e : A -> A -> bool) l :
  (forall x y, e x y = true -> x = y) -> (forall x, e x x = true) -> nodupb e l = true -> NoDup l.
Proof.
  intros He Hr. induction l as [|x l IH]; cbn [nodupb]; intros H; [constructor|].
  apply andb_true_iff in H as [H1 H2]. constructor; [|apply IH; exact H2].
  intros Hin. apply negb_true_iff in H1.
  assert (existsb (e x) l = true) as E by (apply existsb_exists; exists x; split; [exact Hin|apply Hr]).
  congruence.
Qed.

Lemma forallb2_length {A B} (p : A -> B -> bool) a b : forallb2 p a b = true -> length a = length b.
Proof.
  revert b. induction a as [|x a IH]; intros [|y b]; cbn [forallb2 length]; try discriminate; [reflexivity|].
  intros H. apply andb_true_iff in H as [_ H]. f_equal. apply IH. exact H.
Qed.

Lemma forallb2_nth {A B} (p : A -> B -> bool) a b i x y :
  forallb2 p a b = true -> nth_error a i = Some x -> nth_error b i = Some y -> p x y = true.
Proof.
  revert b i. induction a as [|x0 a IH]; intros [|y0 b] [|i]; cbn [forallb2 nth_error]; try discriminate.
  - intros H Hx Hy. inversion Hx. inversion Hy. subst. apply andb_true_iff in H as [H _]. exact H.
  - intros H Hx Hy. apply andb_true_iff in H as [_ H]. eapply IH; eauto.
Qed.

(** * Part G: the struct visitor *)

(** the key a field is found by, as a number or a name *)
Definition key_distinct (m : keymode) (fs : list fattr) : Prop :=
  match m with
  | IntKeys => NoDup (map f_key fs) /\ (forall f, In f fs -> f_key f <= 255)
  | TextKeys => NoDup (map f_name fs) /\ (forall f, In f fs -> N.of_nat (length (f_name f)) <= SCRATCH)
  end.

Lemma keys_ok_distinct m fs : keys_ok m fs = true -> key_distinct m fs.
Proof.
  destruct m; unfold keys_ok, key_distinct; intros H; apply andb_true_iff in H as [H1 H2]; split.
  - apply (nodupb_NoDup N.eqb); [intros x y E; apply N.eqb_eq; exact E|apply N.eqb_refl|exact H1].
  - intros f Hf. rewrite forallb_forall in H2. apply N.leb_le. apply H2. exact Hf.
  - apply (nodupb_NoDup beq); [intros x y E; apply beq_eq; exact E|apply beq_refl|exact H1].
  - intros f Hf. rewrite forallb_forall in H2. apply N.leb_le. apply H2. exact Hf.
Qed.

(** the key the serialiser writes for a field is read back as that field *)
Lemma classify_key_of m pre f suf :
  key_distinct m (pre ++ f :: suf) ->
  classify m (pre ++ f :: suf) (key_of m f) = Some (IdField (length pre)).
Proof.
  intros Hd. destruct m; unfold key_distinct in Hd; destruct Hd as [Hnd Hb]; cbn [classify key_of untag].
  - assert (f_key f <= 255) as Hk by (apply Hb; apply in_or_app; right; left; reflexivity).
    replace (Z.of_N (f_key f) <? 0)%Z with false by lia.
    replace (255 <? Z.of_N (f_key f))%Z with false by lia.
    unfold lookup. rewrite N2Z.id. rewrite find_idx_app_hit; [reflexivity| |apply N.eqb_refl].
    intros y Hy. apply N.eqb_neq. intros E.
    rewrite map_app in Hnd. cbn [map] in Hnd. apply NoDup_remove_2 in Hnd. apply Hnd.
    apply in_or_app. left. rewrite <- E. apply in_map. exact Hy.
  - assert (N.of_nat (length (f_name f)) <= SCRATCH) as Hk by (apply Hb; apply in_or_app; right; left; reflexivity).
    replace (SCRATCH <? N.of_nat (length (f_name f))) with false by lia.
    unfold lookup. rewrite find_idx_app_hit; [reflexivity| |apply beq_refl].
    intros y Hy. destruct (beq (f_name y) (f_name f)) eqn:E; [|reflexivity]. exfalso.
    apply beq_eq in E.
    rewrite map_app in Hnd. cbn [map] in Hnd. apply NoDup_remove_2 in Hnd. apply Hnd.
    apply in_or_app. left. rewrite <- E. apply in_map. exact Hy.
Qed.

(** what a message must satisfy to be written and read back unchanged at this level:
    a member that is [None] is skipped by the serialiser and has a default *)
Definition absent_allowed (f : fattr) (v : option cbor) : Prop :=
  v = None -> f_skip f = true /\ f_dflt f <> DRequired.

Lemma de_loop_ser m fs : key_distinct m fs ->
  forall suf pre vpre vsuf, fs = pre ++ suf -> length vpre = length pre ->
    Forall2 absent_allowed suf vsuf ->
    de_loop m fs (ser_entries m suf vsuf) (vpre ++ repeat None (length suf)) = Some (vpre ++ vsuf).
Proof.
  intros Hd. induction suf as [|f suf IH]; intros pre vpre vsuf Hfs Hlen Hall.
  - inversion Hall. subst. cbn [ser_entries de_loop length repeat]. reflexivity.
  - inversion Hall as [|f0 v suf0 vsuf' Hv Hall']. subst f0 suf0 vsuf.
    cbn [length repeat].
    assert (E : forall w, (vpre ++ [w]) ++ repeat None (length suf) = vpre ++ w :: repeat None (length suf))
      by (intros w; rewrite <- app_assoc; reflexivity).
    destruct v as [c|]; cbn [ser_entries].
    + assert (Hc : classify m fs (key_of m f) = Some (IdField (length pre)))
        by (rewrite Hfs; apply classify_key_of; rewrite <- Hfs; exact Hd).
      cbn [de_loop]. rewrite Hc.
      rewrite <- Hlen. rewrite nth_app_len. rewrite set_nth_app. rewrite <- E.
      rewrite (IH (pre ++ [f]) (vpre ++ [Some c]) vsuf').
      * rewrite <- app_assoc. reflexivity.
      * rewrite <- app_assoc. exact Hfs.
      * rewrite !app_length. cbn [length]. lia.
      * exact Hall'.
    + destruct (Hv eq_refl) as [Hs _]. rewrite Hs. rewrite <- E.
      rewrite (IH (pre ++ [f]) (vpre ++ [None]) vsuf').
      * rewrite <- app_assoc. reflexivity.
      * rewrite <- app_assoc. exact Hfs.
      * rewrite !app_length. cbn [length]. lia.
      * exact Hall'.
Qed.

Lemma present_or_default_all fs vals :
  Forall2 absent_allowed fs vals -> forallb2 present_or_default fs vals = true.
Proof.
  induction 1 as [|f v fs vals Hv _ IH]; cbn [forallb2]; [reflexivity|].
  rewrite IH, andb_true_r. unfold present_or_default. destruct v as [c|]; [reflexivity|].
  destruct (Hv eq_refl) as [_ Hd]. destruct (f_dflt f); congruence.
Qed.

(** G1: reading back what was written *)
Theorem de_ser_struct m fs vals :
  key_distinct m fs -> Forall2 absent_allowed fs vals ->
  de_struct m fs (ser_entries m fs vals) = Some vals.
Proof.
  intros Hd Hall. unfold de_struct.
  pose proof (de_loop_ser m fs Hd fs [] [] vals eq_refl eq_refl Hall) as H. cbn [app] in H. rewrite H.
  rewrite present_or_default_all by exact Hall. reflexivity.
Qed.

(** G2: the keys on the wire are the keys of the written members, in declaration order *)
Definition written (fv : fattr * option cbor) : bool :=
  match snd fv with Some _ => true | None => negb (f_skip (fst fv)) end.

Theorem ser_keys m fs vals :
  map fst (ser_entries m fs vals) = map (fun fv => key_of m (fst fv)) (filter written (combine fs vals)).
Proof.
  revert vals. induction fs as [|f fs IH]; intros [|v vals]; cbn [ser_entries combine filter map]; try reflexivity.
  unfold written at 1. cbn [fst snd]. destruct v as [c|]; cbn [map fst]; [rewrite IH; reflexivity|].
  destruct (f_skip f); cbn [negb map fst]; rewrite IH; reflexivity.
Qed.

(** G3: every entry on the wire is a member that is present, with its value; in particular
    a [None] member under [skip_serializing_if] is left out, not written as null *)
Theorem ser_entries_present m fs vals k v :
  (forall f, In f fs -> f_skip f = true) ->
  In (k, v) (ser_entries m fs vals) -> exists f, In (f, Some v) (combine fs vals) /\ k = key_of m f.
Proof.
  intros Hskip. revert vals. induction fs as [|f fs IH]; intros [|x vals]; cbn [ser_entries combine]; try (intros []).
  assert (Hs : forall g, In g fs -> f_skip g = true) by (intros g Hg; apply Hskip; right; exact Hg).
  destruct x as [c|].
  - intros [E|Hin].
    + inversion E. subst. exists f. split; [left; reflexivity|reflexivity].
    + destruct (IH Hs vals Hin) as [g [Hg Ek]]. exists g. split; [right; exact Hg|exact Ek].
  - rewrite (Hskip f (or_introl eq_refl)). intros Hin.
    destruct (IH Hs vals Hin) as [g [Hg Ek]]. exists g. split; [right; exact Hg|exact Ek].
Qed.

(** G4: entries with unknown keys are ignored, wherever they stand *)
Definition is_unknown (m : keymode) (fs : list fattr) (k : cbor) : bool :=
  match classify m fs k with Some IdUnknown => true | _ => false end.

Lemma de_loop_filter m fs es : forall acc,
  de_loop m fs es acc = de_loop m fs (filter (fun kv => negb (is_unknown m fs (fst kv))) es) acc.
Proof.
  induction es as [|[k v] es IH]; intros acc; cbn [filter de_loop fst]; [reflexivity|].
  unfold is_unknown at 1. destruct (classify m fs k) as [[i|]|] eqn:E; cbn [negb].
  - cbn [de_loop]. rewrite E. destruct (nth i acc None); [reflexivity|apply IH].
  - apply IH.
  - cbn [de_loop]. rewrite E. reflexivity.
Qed.

Theorem de_struct_ignores_unknown m fs es :
  de_struct m fs es = de_struct m fs (filter (fun kv => negb (is_unknown m fs (fst kv))) es).
Proof. unfold de_struct. rewrite de_loop_filter. reflexivity. Qed.

Corollary de_struct_insert_unknown m fs es1 es2 k v :
  classify m fs k = Some IdUnknown ->
  de_struct m fs (es1 ++ (k, v) :: es2) = de_struct m fs (es1 ++ es2).
Proof.
  intros E. rewrite (de_struct_ignores_unknown m fs (es1 ++ (k, v) :: es2)).
  rewrite (de_struct_ignores_unknown m fs (es1 ++ es2)).
  rewrite !filter_app. cbn [filter fst]. unfold is_unknown at 2. rewrite E. reflexivity.
Qed.

(** which keys are unknown for an integer-keyed struct: an unsigned integer up to 255 that is
    no member's number, and a text (or byte) string that is no member's camelCase name *)
Theorem unknown_int_key fs z :
  (0 <= z <= 255)%Z -> (forall f, In f fs -> f_key f <> Z.to_N z) ->
  classify IntKeys fs (CInt z) = Some IdUnknown.
Proof.
  intros Hz Hno. cbn [classify]. replace (z <? 0)%Z with false by lia. replace (255 <? z)%Z with false by lia.
  unfold lookup. rewrite find_idx_none; [reflexivity|]. intros f Hf. apply N.eqb_neq. apply Hno. exact Hf.
Qed.

Theorem unknown_text_key fs s :
  (forall f, In f fs -> f_name f <> s) ->
  classify IntKeys fs (CText s) = Some IdUnknown /\ classify IntKeys fs (CBytes s) = Some IdUnknown.
Proof.
  intros Hno. cbn [classify]. unfold lookup. rewrite find_idx_none; [split; reflexivity|].
  intros f Hf. destruct (beq (f_name f) s) eqn:E; [|reflexivity]. apply beq_eq in E. exfalso. exact (Hno f Hf E).
Qed.

(** keys the integer-keyed visitor rejects outright *)
Theorem bad_int_key fs z : (z < 0 \/ 255 < z)%Z -> classify IntKeys fs (CInt z) = None.
Proof.
  intros Hz. cbn [classify]. destruct (Z.ltb_spec z 0); [reflexivity|].
  destruct (Z.ltb_spec 255 z); [reflexivity|lia].
Qed.

Lemma de_loop_bad_key m fs es : forall acc k v,
  In (k, v) es -> classify m fs k = None -> de_loop m fs es acc = None.
Proof.
  induction es as [|[k0 v0] es IH]; intros acc k v Hin Hk; [destruct Hin|].
  cbn [de_loop]. destruct Hin as [E|Hin].
  - inversion E. subst. rewrite Hk. reflexivity.
  - destruct (classify m fs k0) as [[i|]|]; [|eapply IH; eauto|reflexivity].
    destruct (nth i acc None); [reflexivity|eapply IH; eauto].
Qed.

Theorem de_struct_bad_key m fs es k v :
  In (k, v) es -> classify m fs k = None -> de_struct m fs es = None.
Proof. intros Hin Hk. unfold de_struct. rewrite (de_loop_bad_key m fs es _ k v Hin Hk). reflexivity. Qed.

(** G5: a member given twice (under whatever spellings of its key) is an error *)
Lemma classify_field_lt m fs k i : classify m fs k = Some (IdField i) -> (i < length fs)%nat.
Proof.
  assert (L : forall p, lookup p fs = IdField i -> (i < length fs)%nat).
  { intros p. unfold lookup. destruct (find_idx p fs) as [j|] eqn:E; [|discriminate].
    intros H. inversion H. subst. eapply find_idx_lt. exact E. }
  destruct m; cbn [classify].
  - destruct k; try discriminate.
    + destruct (z <? 0)%Z; [discriminate|]. destruct (255 <? z)%Z; [discriminate|]. intros H. inversion H. eapply L; eauto.
    + intros H. inversion H. eapply L; eauto.
    + intros H. inversion H. eapply L; eauto.
  - destruct (untag k); try discriminate.
    + destruct (SCRATCH <? _); [discriminate|]. intros H. inversion H. eapply L; eauto.
    + destruct (SCRATCH <? _); [discriminate|]. intros H. inversion H. eapply L; eauto.
Qed.

Lemma de_loop_dup m fs i : forall es acc k v es' x,
  nth i acc None = Some x -> classify m fs k = Some (IdField i) ->
  de_loop m fs (es ++ (k, v) :: es') acc = None.
Proof.
  induction es as [|[k0 v0] es IH]; intros acc k v es' x Hn Hk; cbn [app de_loop].
  - rewrite Hk, Hn. reflexivity.
  - destruct (classify m fs k0) as [[j|]|]; [|eapply IH; eauto|reflexivity].
    destruct (nth j acc None) eqn:Ej; [reflexivity|].
    eapply IH; [|exact Hk]. rewrite nth_set_nth_neq; [exact Hn|]. intros ->. congruence.
Qed.

Lemma de_loop_duplicate m fs i k1 v1 k2 v2 es2 es3 : forall es1 acc,
  length acc = length fs ->
  classify m fs k1 = Some (IdField i) -> classify m fs k2 = Some (IdField i) ->
  de_loop m fs (es1 ++ (k1, v1) :: es2 ++ (k2, v2) :: es3) acc = None.
Proof.
  induction es1 as [|[k0 v0] es1 IH]; intros acc Hlen H1 H2; cbn [app de_loop].
  - rewrite H1. destruct (nth i acc None); [reflexivity|].
    eapply de_loop_dup; [|exact H2]. apply nth_set_nth_eq. rewrite Hlen. eapply classify_field_lt. exact H1.
  - destruct (classify m fs k0) as [[j|]|]; [|apply IH; assumption|reflexivity].
    destruct (nth j acc None); [reflexivity|]. apply IH; [rewrite set_nth_length; exact Hlen|exact H1|exact H2].
Qed.

Theorem de_struct_duplicate m fs i k1 v1 k2 v2 es1 es2 es3 :
  classify m fs k1 = Some (IdField i) -> classify m fs k2 = Some (IdField i) ->
  de_struct m fs (es1 ++ (k1, v1) :: es2 ++ (k2, v2) :: es3) = None.
Proof.
  intros H1 H2. unfold de_struct.
  rewrite (de_loop_duplicate m fs i k1 v1 k2 v2 es2 es3 es1); [reflexivity|apply repeat_length|exact H1|exact H2].
Qed.

(** G6: a missing member without a default is an error *)
Lemma de_loop_untouched m fs i : forall es acc acc',
  (forall k v, In (k, v) es -> classify m fs k <> Some (IdField i)) ->
  de_loop m fs es acc = Some acc' -> nth i acc' None = nth i acc None.
Proof.
  induction es as [|[k0 v0] es IH]; intros acc acc' Hno; cbn [de_loop].
  - intros H. inversion H. reflexivity.
  - assert (Hno' : forall k v, In (k, v) es -> classify m fs k <> Some (IdField i))
      by (intros k v Hin; apply (Hno k v); right; exact Hin).
    destruct (classify m fs k0) as [[j|]|] eqn:E; [|apply IH; exact Hno'|discriminate].
    destruct (nth j acc None); [discriminate|]. intros H. rewrite (IH _ _ Hno' H).
    apply nth_set_nth_neq. intros ->. apply (Hno k0 v0 (or_introl eq_refl)). exact E.
Qed.

Theorem de_struct_missing_required m fs es i f :
  nth_error fs i = Some f -> f_dflt f = DRequired ->
  (forall k v, In (k, v) es -> classify m fs k <> Some (IdField i)) ->
  de_struct m fs es = None.
Proof.
  intros Hf Hreq Hno. unfold de_struct.
  destruct (de_loop m fs es (repeat None (length fs))) as [acc|] eqn:E; [|reflexivity].
  destruct (forallb2 present_or_default fs acc) eqn:Hall; [|reflexivity]. exfalso.
  pose proof (de_loop_untouched m fs i es _ _ Hno E) as Hn. rewrite nth_repeat_none in Hn.
  pose proof (forallb2_length _ _ _ Hall) as Hlen.
  destruct (nth_error acc i) as [y|] eqn:Ey.
  - pose proof (forallb2_nth _ _ _ _ _ _ Hall Hf Ey) as Hp.
    apply (nth_error_nth _ _ None) in Ey. rewrite Hn in Ey. subst y.
    unfold present_or_default in Hp. rewrite Hreq in Hp. discriminate.
  - apply nth_error_None in Ey. assert (i < length fs)%nat by (apply nth_error_Some; congruence). lia.
Qed.
